// S-harness for cocls::shared_future (C17, case kind `api`): whole member-function calls of ONE thread on the real
// headers — any number of handles and shared states, every access spelling of the public interface at every point of the
// life cycle (default-constructed -> init_if_needed() -> copies -> get_promise() -> resolved), a MOVE-SENSITIVE value type
// (a moved-from value prints `moved`).  Model: lean/CoclsModel/SharedFutureApi.lean, driver lean/Drivers/C17.lean (`api`).
//
//   case <id> api <T>                      T = mval (counted, move marks the source) | str (std::string beyond the SSO buffer)
//   new | mk pf | mk ff | mk sv <v> | mk se <c>         -> h<i> [s<k>]      a new handle (and shared state)
//   copy <i> | assign <i> <j> | drop <i>
//   init <i> | getp <i> | lshift <i>                     late initialisation
//   resolve <k> value <v> | exc <c> | drop | dtor        the promise of state k
//   <spelling> <i>                                       an observer on handle i (see `see()`), answer prefixed by the state
//   take <i>                                             the user moves the stored value out: std::move(h.value())
//   end
// One output line per input line; events (` ; obs w<id> coro|cb <result>`, `freed s<k>`) sorted.
// `pre`: the call is outside the contract (the harness's own book-keeping of what IT did decides, never the library).
#include <cocls/future.h>
#include <cocls/async.h>
#include <cocls/shared_future.h>
#include <algorithm>
#include <iostream>
#include <map>
#include <optional>
#include <csignal>
#include <sstream>
#include <sys/wait.h>
#include <unistd.h>

using namespace cocls;

struct test_exc : std::exception {
    static inline int live = 0;
    int code;
    explicit test_exc(int c) : code(c) { ++live; }
    test_exc(const test_exc &o) : code(o.code) { ++live; }
    ~test_exc() { --live; }
};

static std::vector<std::string> split(const std::string &s) {
    std::vector<std::string> o;
    std::istringstream is(s);
    std::string t;
    while (is >> t) o.push_back(t);
    return o;
}

// a value whose move constructor empties the source (like string / vector / unique_ptr), with instance counters
struct mval {
    static inline int ctor = 0, dtor = 0;
    std::unique_ptr<int> heap;
    mval(int x) : heap(new int(x)) { ++ctor; }
    mval(const mval &o) : heap(o.heap ? new int(*o.heap) : nullptr) { ++ctor; }
    mval(mval &&o) : heap(std::move(o.heap)) { ++ctor; }
    ~mval() { ++dtor; }
};
template <typename T> struct P;
template <> struct P<mval> {
    static mval make(int v) { return mval(v); }
    static std::string show(const mval &v) { return v.heap ? "v:" + std::to_string(*v.heap) : "moved"; }
};
template <> struct P<std::string> {
    static std::string make(int v) { return std::to_string(v) + std::string(40, 'x'); }
    static std::string show(const std::string &v) { return v.empty() ? "moved" : "v:" + v.substr(0, v.find('x')); }
};

enum { INST = 0, PENDING = 1, READY = 2 };

template <typename T>
struct Scn {
    using SF = shared_future<T>;
    std::vector<std::optional<SF>> H;          // handles (nullopt: destroyed)
    std::vector<int> hstate;                   // book-keeping: state index of handle i (-1: null)
    std::vector<std::weak_ptr<void>> wk;       // one per shared state
    std::vector<int> phase;
    std::vector<char> freed;
    std::map<int, promise<T>> proms;
    std::optional<promise<T>> tmp;
    std::vector<std::string> evs;
    int nextW = 0;

    template <typename Fn>
    std::string observe(Fn &&fn) {
        try {
            auto &&r = fn();   // binds a reference (the shared value) or a value (a spelling that returns by value)
            return P<T>::show(r);
        } catch (const await_canceled_exception &) {
            return "canceled";
        } catch (const test_exc &e) {
            return "exc:" + std::to_string(e.code);
        } catch (const value_not_ready_exception &) {
            return "notready";
        } catch (...) {
            return "other";
        }
    }
    template <typename Fn>
    std::string observe_void(Fn &&fn, const char *ok) {
        try {
            fn();
            return ok;
        } catch (const await_canceled_exception &) {
            return "canceled";
        } catch (const test_exc &e) {
            return "exc:" + std::to_string(e.code);
        } catch (const value_not_ready_exception &) {
            return "notready";
        } catch (...) {
            return "other";
        }
    }

    async<void> coro_waiter(int w, SF sf) {
        std::string r;
        try { auto &v = co_await sf; r = P<T>::show(v); }
        catch (const await_canceled_exception &) { r = "canceled"; }
        catch (const test_exc &e) { r = "exc:" + std::to_string(e.code); }
        catch (const value_not_ready_exception &) { r = "notready"; }
        evs.push_back("obs w" + std::to_string(w) + " coro " + r);
    }
    struct cb_ctx {
        Scn *self;
        int w;
        SF sf;
        co_awaiter<future<T>> awt;
        cb_ctx(Scn *s, int w_, const SF &h) : self(s), w(w_), sf(h), awt(sf.operator co_await()) {}
    };
    static suspend_point<void> cb_fn(awaiter *, void *ctx) noexcept {
        auto c = static_cast<cb_ctx *>(ctx);
        c->self->evs.push_back("obs w" + std::to_string(c->w) + " cb " + c->self->observe([&]() -> decltype(auto) { return c->awt.await_resume(); }));
        delete c;
        return {};
    }

    int new_state(SF &h, int ph) {
        wk.push_back(h.VN_shared_future__ptr);
        phase.push_back(ph);
        freed.push_back(0);
        return (int)wk.size() - 1;
    }
    void poll_freed() {
        for (std::size_t k = 0; k < wk.size(); k++)
            if (!freed[k] && wk[k].expired()) { freed[k] = 1; evs.push_back("freed s" + std::to_string(k)); }
    }
    void emit(const std::string &head) {
        poll_freed();
        std::sort(evs.begin(), evs.end());
        std::cout << head;
        if (!evs.empty()) {
            std::cout << " ;";
            for (auto &e : evs) std::cout << " " << e;
        }
        std::cout << "\n";
        evs.clear();
    }
    std::string sk(int k) { return k < 0 ? "s-" : "s" + std::to_string(k); }

    std::string see(const std::string &sp, int i) {
        if (i >= (int)H.size() || !H[i]) return "gone";
        SF &h = *H[i];
        int k = hstate[i];
        if (k < 0) {
            if (sp == "ready") return std::string("s- ") + (h.ready() ? "1" : "0");
            if (sp == "value") return "s- " + observe([&]() -> decltype(auto) { return h.value(); });
            return "pre";
        }
        std::string p = sk(k) + " ";
        auto B = [&](bool b) { return p + (b ? "1" : "0"); };
        // non-blocking
        if (sp == "ready") return B(h.ready());
        if (sp == "value") return p + observe([&]() -> decltype(auto) { return h.value(); });
        if (sp == "cready") { future<T> &f = h; return B(f.ready()); }
        if (sp == "cpending") { future<T> &f = h; return B(f.pending()); }
        if (sp == "cinit") { future<T> &f = h; return B(f.initialized()); }
        if (sp == "cvalue") { future<T> &f = h; return p + observe([&]() -> decltype(auto) { return f.value(); }); }
        if (sp == "coro" || sp == "cb") {
            if (phase[k] == INST) return "pre";
            int w = nextW++;
            if (sp == "coro") coro_waiter(w, h).detach();
            else {
                auto c = new cb_ctx(this, w, h);
                if (c->awt.await_ready() || !c->awt.await_suspend(&cb_fn, c)) {
                    evs.push_back("obs w" + std::to_string(w) + " cb " + observe([&]() -> decltype(auto) { return c->awt.await_resume(); }));
                    delete c;
                }
            }
            return p + "w" + std::to_string(w);
        }
        // blocking: a single thread may only call them on a resolved state
        if (phase[k] != READY) return "pre";
        if (sp == "wait") return p + observe([&]() -> decltype(auto) { return h.wait(); });
        if (sp == "fwait") return p + observe([&]() -> decltype(auto) { return h.force_wait(); });
        if (sp == "join") return p + observe_void([&] { h.join(); }, "returned");
        if (sp == "sync") return p + observe_void([&] { h.sync(); }, "synced");
        if (sp == "fsync") return p + observe_void([&] { h.force_sync(); }, "synced");
        future<T> &f = h;
        if (sp == "cwait") return p + observe([&]() -> decltype(auto) { return f.wait(); });
        if (sp == "cjoin") return p + observe([&]() -> decltype(auto) { return f.join(); });
        if (sp == "cderef") return p + observe([&]() -> decltype(auto) { return *f; });
        if (sp == "chasv") { bool b = f.has_value(); return B(b); }
        if (sp == "cbool") { bool b = bool(f); return B(b); }
        if (sp == "cnot") { bool b = !f; return B(b); }
        return "?";
    }

    void add_handle(SF &&h, int k) {
        H.emplace_back(std::move(h));
        hstate.push_back(k);
    }

    std::string op(const std::vector<std::string> &w) {
        auto num = [&](std::size_t i) { return i < w.size() ? atoi(w[i].c_str()) : 0; };
        auto alive = [&](int i) { return i >= 0 && i < (int)H.size() && H[i].has_value(); };
        const std::string &o = w[0];
        if (o == "new" && w.size() == 1) {
            add_handle(SF(), -1);
            return "h" + std::to_string(H.size() - 1);
        }
        if (o == "mk" && w.size() >= 2) {
            const std::string &m = w[1];
            std::optional<SF> sf;
            if (m == "pf" && w.size() == 2) sf.emplace([&](promise<T> p) { tmp.emplace(std::move(p)); });
            else if (m == "ff" && w.size() == 2) sf.emplace([&] { return future<T>([&](promise<T> p) { tmp.emplace(std::move(p)); }); });
            else if (m == "sv" && w.size() == 3) sf.emplace(SF::set_value(P<T>::make(num(2))));
            else if (m == "se" && w.size() == 3) sf.emplace(SF::set_exception(std::make_exception_ptr(test_exc(num(2)))));
            else return "?";
            int k = new_state(*sf, tmp ? PENDING : READY);
            if (tmp) { proms.emplace(k, std::move(*tmp)); tmp.reset(); }
            add_handle(std::move(*sf), k);
            return "h" + std::to_string(H.size() - 1) + " s" + std::to_string(k);
        }
        if (o == "copy" && w.size() == 2) {
            int i = num(1);
            if (!alive(i)) return "gone";
            SF c = *H[i];
            add_handle(std::move(c), hstate[i]);
            return "h" + std::to_string(H.size() - 1);
        }
        if (o == "assign" && w.size() == 3) {
            int i = num(1), j = num(2);
            if (!alive(i) || !alive(j)) return "gone";
            *H[i] = *H[j];
            hstate[i] = hstate[j];
            return "ok";
        }
        if (o == "drop" && w.size() == 2) {
            int i = num(1);
            if (!alive(i)) return "gone";
            H[i].reset();
            return "ok";
        }
        if (o == "init" && w.size() == 2) {
            int i = num(1);
            if (!alive(i)) return "gone";
            H[i]->init_if_needed();
            if (hstate[i] < 0) hstate[i] = new_state(*H[i], INST);
            return "ok";
        }
        if (o == "getp" && w.size() == 2) {
            int i = num(1);
            if (!alive(i)) return "gone";
            if (hstate[i] >= 0 && phase[hstate[i]] != INST) return "pre";
            auto p = H[i]->get_promise();
            if (hstate[i] < 0) hstate[i] = new_state(*H[i], PENDING);
            phase[hstate[i]] = PENDING;
            proms.emplace(hstate[i], std::move(p));
            return "ok";
        }
        if (o == "lshift" && w.size() == 2) {
            int i = num(1);
            if (!alive(i)) return "gone";
            if (hstate[i] < 0 || phase[hstate[i]] != INST) return "pre";
            (*H[i]) << [&] { return future<T>([&](promise<T> p) { tmp.emplace(std::move(p)); }); };
            phase[hstate[i]] = PENDING;
            proms.emplace(hstate[i], std::move(*tmp));
            tmp.reset();
            return "ok";
        }
        if (o == "resolve" && w.size() >= 3) {
            int k = num(1);
            const std::string &rk = w[2];
            bool shape = (rk == "value" && w.size() == 4) || (rk == "exc" && w.size() == 4) || (rk == "drop" && w.size() == 3) || (rk == "dtor" && w.size() == 3);
            if (!shape) return "?";
            auto it = proms.find(k);
            if (it == proms.end()) return "pre";
            promise<T> p = std::move(it->second);
            proms.erase(it);
            phase[k] = READY;
            bool r = false;
            if (rk == "value") { auto sp = p(P<T>::make(num(3))); r = sp; }
            else if (rk == "exc") { auto sp = p(std::make_exception_ptr(test_exc(num(3)))); r = sp; }
            else if (rk == "drop") { auto sp = p(drop); r = sp; }
            else { promise<T> q = std::move(p); return "ok"; }   // destroyed at the end of this block
            return std::string("ret ") + (r ? "1" : "0");
        }
        if (o == "take" && w.size() == 2) {
            int i = num(1);
            if (!alive(i)) return "gone";
            std::string r;
            try {
                T x = std::move(H[i]->value());
                r = P<T>::show(x);
            } catch (const await_canceled_exception &) { r = "canceled"; }
            catch (const test_exc &e) { r = "exc:" + std::to_string(e.code); }
            catch (const value_not_ready_exception &) { r = "notready"; }
            return sk(hstate[i]) + " took " + r;
        }
        if (w.size() == 2) {
            static const char *sps[] = {"ready", "value", "cready", "cpending", "cinit", "cvalue", "wait", "fwait", "join", "sync", "fsync",
                                        "cwait", "cjoin", "cderef", "chasv", "cbool", "cnot", "coro", "cb"};
            bool isnum = !w[1].empty() && std::all_of(w[1].begin(), w[1].end(), [](char c) { return c >= '0' && c <= '9'; });
            if (isnum) for (auto s : sps) if (o == s) return see(o, num(1));
        }
        return "?";
    }

    void run(const std::vector<std::vector<std::string>> &lines) {
        for (auto &w : lines) {
            std::string head = op(w);
            emit(head);
        }
        proms.clear();   // remaining promises are destroyed: their awaiters observe the cancellation
        H.clear();
        poll_freed();
        int alive = 0;
        for (auto f : freed) alive += !f;
        emit("end alive=" + std::to_string(alive) + " vbal=" + std::to_string(mval::ctor - mval::dtor) + " ebal=" + std::to_string(test_exc::live));
    }
};

int main() {
    std::string line;
    std::vector<std::string> hdr;
    std::vector<std::vector<std::string>> lines;
    while (std::getline(std::cin, line)) {
        auto w = split(line);
        if (w.empty()) continue;
        if (w[0] == "case") { hdr = w; lines.clear(); continue; }
        if (w[0] != "end" || w.size() != 1) { lines.push_back(w); continue; }
        std::cout << "case " << hdr[1] << std::endl;
        pid_t pid = fork();
        if (pid == 0) {
            alarm(6);
            std::string T = hdr.size() > 3 ? hdr[3] : "mval";
            if (T == "str") { Scn<std::string> s; s.run(lines); }
            else { Scn<mval> s; s.run(lines); }
            std::cout.flush();
            _exit(0);
        }
        int st = 0;
        waitpid(pid, &st, 0);
        if (!(WIFEXITED(st) && WEXITSTATUS(st) == 0)) {
            std::cout << "crash " << (WIFSIGNALED(st) ? "signal " + std::to_string(WTERMSIG(st)) : "exit " + std::to_string(WEXITSTATUS(st))) << "\n";
            std::cout << "end" << std::endl;
            // a call that never returns (SIGALRM): after three such cases the rest of the batch is not run (every one costs the time-out)
            static int hangs = 0;
            if (WIFSIGNALED(st) && WTERMSIG(st) == SIGALRM && ++hangs >= 3) return 0;
        }
    }
    return 0;
}
