// T-harness for C04: threads racing async<T>::start(promise) on ONE shared promise (mixed with threads invoking
// the promise directly and a thread destroying it), real threads under the baton scheduler, one scheduling point
// after every atomic operation of the unmodified headers.  Each case runs in a forked child.
//
//   case <id> asynct <int|void|uptr>
//   t start <v>      own fresh (unstarted) coroutine returning v; calls c.start(shared_promise)
//   t startw <v>     same, the body first awaits a gate future that the controller resolves after the run
//   t startx <code>  same, the body throws test_exc(code)
//   t value <v> | t exc <code> | t drop      p(value) / p(exception) / p(drop)
//   t dtor           ~promise, sequenced after every other thread
//   t wait           the bound party: blocking `wait()` on the shared future                      -> `obs t<i> <outcome>`
//   t join <v>       own coroutine (awaits the gate, returns v) started and awaited by `join()`   -> `obs t<i> <outcome>`
//   t open           opens the gate from this thread (otherwise the controller opens it after the run)
//   sched 0 1 1 0 ...
//   end
// Output: the op log (`s <tid> <op> <object> <seen>[>desired]`), `body t<i>`, `bodyend t<i>`, `argd t<i>`, `ret t<i> <0|1>`,
// then `run-end`, `promise-destroyed`?, `gate-open`?, `cleanup`, `final <ready|pending> <outcome>`, `count t<i> body=<n> argd=<n>`, `end`.
#include "shim/verif_shim.h"
#include "shim/rename_on.h"
#include <cocls/future.h>
#include <cocls/async.h>
#include "shim/rename_off.h"
#include <sys/wait.h>

using namespace cocls;
using vshim::S;

struct test_exc : std::exception {
    int code;
    explicit test_exc(int c) : code(c) {}
};

static std::vector<std::string> split(const std::string &s) {
    std::vector<std::string> o;
    std::istringstream is(s);
    std::string t;
    while (is >> t) o.push_back(t);
    return o;
}

static std::vector<int> g_body, g_argd;

struct guard {   // only the object that currently owns the token reports its destruction
    int id;
    bool owner;
    explicit guard(int i) : id(i), owner(true) {}
    guard(guard &&o) : id(o.id), owner(std::exchange(o.owner, false)) {}
    guard(const guard &) = delete;
    ~guard() {
        if (owner) {
            g_argd[id]++;
            S().log_line("argd t" + std::to_string(id));
        }
    }
};

template <typename T> struct P;
template <> struct P<int> {
    static int make(int v) { return v; }
    static std::string show(int &v) { return "v:" + std::to_string(v); }
};
template <> struct P<std::unique_ptr<int>> {
    static std::unique_ptr<int> make(int v) { return std::make_unique<int>(v); }
    static std::string show(std::unique_ptr<int> &v) { return v ? "v:" + std::to_string(*v) : "v:moved"; }
};

template <typename T>
struct Scn {
    std::optional<future<T>> fut;
    std::optional<promise<T>> prom;
    std::optional<future<void>> gate;
    std::optional<promise<void>> gate_prom;
    std::vector<std::optional<async<T>>> co;

    static void log(const std::string &s) { S().log_line(s); }

    // kind: 0 return v, 1 await the gate then return v, 2 throw v
    static async<T> body(Scn *self, int i, int kind, int v, guard) {
        g_body[i]++;
        log("body t" + std::to_string(i));
        if (kind == 1) co_await *self->gate;
        log("bodyend t" + std::to_string(i));
        if (kind == 2) throw test_exc(v);
        if constexpr (std::is_void_v<T>) co_return;
        else co_return P<T>::make(v);
    }

    std::string outcome() {
        try {
            if constexpr (std::is_void_v<T>) { fut->value(); return "v"; }
            else return P<T>::show(fut->value());
        } catch (const await_canceled_exception &) {
            return "canceled";
        } catch (const test_exc &e) {
            return "exc:" + std::to_string(e.code);
        } catch (const value_not_ready_exception &) {
            return "notready";
        } catch (...) {
            return "other";
        }
    }

    bool gate_opened = false;

    template <typename Fn> std::string observe(Fn &&fn) {
        try {
            if constexpr (std::is_void_v<T>) { fn(); return "v"; }
            else { auto &&r = fn(); return P<T>::show(r); }
        } catch (const await_canceled_exception &) {
            return "canceled";
        } catch (const test_exc &e) {
            return "exc:" + std::to_string(e.code);
        } catch (const value_not_ready_exception &) {
            return "notready";
        } catch (...) {
            return "other";
        }
    }

    void thread_body(const std::vector<std::string> &a, int tid) {
        bool r;
        const std::string &k = a[1];
        if (k == "wait") {
            log("obs t" + std::to_string(tid) + " " + observe([&]() -> decltype(auto) { return fut->wait(); }));
            return;
        } else if (k == "join") {
            log("obs t" + std::to_string(tid) + " " + observe([&]() -> decltype(auto) { return co[tid]->join(); }));
            return;
        } else if (k == "open") {
            gate_opened = true;
            (*gate_prom)();
            return;
        } else if (k == "start" || k == "startw" || k == "startx") {
            {
                suspend_point<bool> sp = co[tid]->start(*prom);
                r = sp;
            }   // the suspend point is discarded here: a started coroutine runs now, on this thread
        } else if (k == "value") {
            int v = atoi(a[2].c_str());
            if constexpr (std::is_void_v<T>) { auto sp = (*prom)(); r = sp; }
            else { auto sp = (*prom)(P<T>::make(v)); r = sp; }
        } else if (k == "exc") {
            auto sp = (*prom)(std::make_exception_ptr(test_exc(atoi(a[2].c_str()))));
            r = sp;
        } else {
            auto sp = (*prom)(drop);
            r = sp;
        }
        log("ret t" + std::to_string(tid) + " " + (r ? "1" : "0"));
    }

    void run(const std::vector<std::vector<std::string>> &threads, const std::vector<int> &sched) {
        int n = (int)threads.size();
        g_body.assign(n, 0);
        g_argd.assign(n, 0);
        fut.emplace();
        prom.emplace(fut->get_promise());
        gate.emplace();
        gate_prom.emplace(gate->get_promise());
        S().name_obj(&fut->VN_future_common__awaiter, "slot");
        S().name_obj(&prom->VN_promise__owner, "owner");
        S().name_obj(&gate->VN_future_common__awaiter, "gate");
        S().name_ptr(&awaiter::instance, "inst");
        S().name_ptr(&awaiter::disabled, "ready");
        co.resize(n);
        bool any_gate = false;
        for (int i = 0; i < n; i++) {
            const std::string &k = threads[i][1];
            int v = threads[i].size() > 2 ? atoi(threads[i][2].c_str()) : 0;
            if (k == "start") co[i].emplace(body(this, i, 0, v, guard(i)));
            else if (k == "startw" || k == "join") { co[i].emplace(body(this, i, 1, v, guard(i))); any_gate = true; }
            else if (k == "startx") co[i].emplace(body(this, i, 2, v, guard(i)));
        }
        std::vector<int> others;
        for (int i = 0; i < n; i++) {   // the threads that use the promise object (waiters and the gate opener do not)
            const std::string &k = threads[i][1];
            if (k != "dtor" && k != "wait" && k != "join" && k != "open") others.push_back(i);
        }
        for (int i = 0; i < n; i++) {
            auto t = threads[i];
            if (t[1] == "dtor") S().spawn([this, others] {
                // ~promise is sequenced after every use of that promise object
                auto pred = [others] {
                    for (int r : others) if (S().ts[r].st != vshim::Sched::FINISHED) return false;
                    return true;
                };
                if (!pred()) { S().log_op("wait-block others"); S().block(pred); }
                prom.reset();
            });
            else S().spawn([this, t, i] { thread_body(t, i); });
        }
        bool ok = S().run(sched);
        if (!ok) {
            log("deadlock");
            log("end");
            std::cout.flush();
            _exit(0);
        }
        log("run-end");
        if (prom) { prom.reset(); log("promise-destroyed"); }
        if (any_gate && !gate_opened) { log("gate-open"); (*gate_prom)(); }
        gate_prom.reset();
        log("cleanup");
        for (int i = 0; i < n; i++) co[i].reset();   // destroys the coroutines that were never started
        log(std::string("final ") + (fut->ready() ? "ready " + outcome() : "pending -"));
        for (int i = 0; i < n; i++)
            log("count t" + std::to_string(i) + " body=" + std::to_string(g_body[i]) + " argd=" + std::to_string(g_argd[i]));
        if (fut->pending() || gate->pending()) { log("end"); std::cout.flush(); _exit(0); }   // cannot destroy a pending future
        fut.reset();
        gate.reset();
    }
};

static void run_case(const std::vector<std::string> &hdr, const std::vector<std::vector<std::string>> &lines) {
    std::vector<std::vector<std::string>> threads;
    std::vector<int> sched;
    for (auto &w : lines) {
        if (w[0] == "t" && w.size() > 1) {
            bool dup = false;   // at most one thread may destroy the promise object
            if (w[1] == "dtor") for (auto &t : threads) dup = dup || t[1] == "dtor";
            if (!dup) threads.push_back(w);
        }
        else if (w[0] == "sched") for (std::size_t i = 1; i < w.size(); i++) sched.push_back(atoi(w[i].c_str()));
    }
    std::string T = hdr.size() > 3 ? hdr[3] : "int";
    if (threads.empty()) { S().log_line("end"); return; }
    if (T == "void") { Scn<void> s; s.run(threads, sched); }
    else if (T == "uptr") { Scn<std::unique_ptr<int>> s; s.run(threads, sched); }
    else { Scn<int> s; s.run(threads, sched); }
    S().log_line("end");
}

int main() {
    std::string line;
    std::vector<std::string> hdr;
    std::vector<std::vector<std::string>> lines;
    while (std::getline(std::cin, line)) {
        auto w = split(line);
        if (w.empty()) continue;
        if (w[0] == "case") { hdr = w; lines.clear(); continue; }
        if (w[0] != "end") { lines.push_back(w); continue; }
        std::cout << "case " << hdr[1] << std::endl;
        pid_t pid = fork();
        if (pid == 0) {
            alarm(20);
            run_case(hdr, lines);
            std::cout.flush();
            _exit(0);
        }
        int st = 0;
        waitpid(pid, &st, 0);
        if (!(WIFEXITED(st) && WEXITSTATUS(st) == 0)) {
            if (WIFEXITED(st) && WEXITSTATUS(st) == 3) { /* assertion already reported */ }
            else {
                std::cout << "crash " << (WIFSIGNALED(st) ? "signal " + std::to_string(WTERMSIG(st)) : "exit " + std::to_string(WEXITSTATUS(st))) << "\n";
                std::cout << "end" << std::endl;
            }
        }
    }
    return 0;
}
