// Linked only into the coverage builds of the harnesses (tools/coverage.py): the harnesses leave forked children
// with _exit(), which skips libgcov's atexit dump; interpose _exit so the counters reach the .gcda files.
#include <unistd.h>
#include <sys/syscall.h>

extern "C" void __gcov_dump(void);

extern "C" void _exit(int code) {
    __gcov_dump();
    syscall(SYS_exit_group, code);
    __builtin_unreachable();
}
