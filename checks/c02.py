"""C02 — no lost, early or duplicate wake-up of a future's waiters."""
from vlib.runner import Spec
from checks import chain_common as cc


class C02Suite(cc.ChainSuite):
    name = "waiters-vs-resolver"
    corpus_prefix = "c02_"

    def gen_cases(self, rng, tier):
        if tier == "quick":
            return cc.gen_random(rng, 1500, 0, 2, 1, 3)
        return cc.gen_random(rng, 20000, 0, 2, 1, 3) + [c for c in cc.gen_exhaustive_pairs(11) if c["lines"][2].startswith("w")] \
            + cc.gen_exhaustive_triples(rng, 9, 8)

    def oracle(self, case, out):
        msgs = []
        i = cc.parse(case, out)
        if i["crash"]:
            return ["crash: the implementation crashed"]
        if i["assert"]:
            return ["assert: " + i["assert"]]
        has_res = any(t[0] in ("r", "d") for t in i["threads"])
        if i["deadlock"]:
            return ["lost: a waiter is still blocked although the future was resolved / the promise destroyed"] if has_res else []
        if i["final"] is None:
            return ["final: no final state reported"]
        st, val, hv = i["final"]
        T = case["lines"][0].split()[3]
        exp = cc.expected_result(case, i, T)     # the winner's payload: what "the complete result" is
        for w, n in i["released"].items():
            if n == 0:
                msgs.append("lost: waiter w%d was never released" % w)
            elif n > 1:
                msgs.append("duplicate: waiter w%d was released %d times" % (w, n))
        for w, obs in i["obs"].items():
            for o in obs:
                if o == "notready":
                    msgs.append("early: waiter w%d was released before the result was set" % w)
                elif o.startswith("hv:"):
                    if o != "hv:" + hv[-1]:
                        msgs.append("result: waiter w%d saw %s, final %s" % (w, o, hv))
                elif o != val:
                    msgs.append("result: waiter w%d observed %s, the result is %s" % (w, o, val))
                if exp is not None:
                    if o.startswith("hv:"):
                        if o != "hv:" + ("0" if exp == "canceled" else "1"):
                            msgs.append("result: waiter w%d saw has_value()=%s, the winner supplied %s" % (w, o[3:], exp))
                    elif o != "notready" and o != exp:
                        msgs.append("result: waiter w%d observed %s, the winner supplied %s" % (w, o, exp))
        if i["counted"] and not i["counted"].endswith("=0") and i["obs"]:
            msgs.append("result: the released waiters were shown a value that was constructed/destroyed unevenly (%s)" % i["counted"])
        return msgs


def to_ptr(cases):
    """the same scenarios with case kind `chainp`: harness and driver additionally print the pointer digests"""
    for c in cases:
        w = c["lines"][0].split()
        w[2] = "chainp"
        c["lines"][0] = " ".join(w)
    return cases


class C02PtrSuite(C02Suite):
    """The POINTER-LEVEL model (lean/CoclsModel/ChainPtr.lean, proved to refine Chain.lean) against the real headers: after every
    operation both sides print the awaiter slot and the `_next` field of every waiter node that is alive (`p head=.. n<i>=..`),
    and each non-blocking waiter's own `_next` when it reads the result (`po w<i> n=..`)."""
    name = "ptr-level"
    driver = "drv_c02p"
    corpus_prefix = "c02p_"

    def gen_cases(self, rng, tier):
        if tier == "quick":
            return to_ptr(cc.gen_random(rng, 300, 0, 2, 1, 3))
        return to_ptr(cc.gen_random(rng, 6000, 0, 2, 1, 4)
                      + [c for c in cc.gen_exhaustive_pairs(11) if c["lines"][2].startswith("w")]
                      + cc.gen_exhaustive_triples(rng, 9, 6))

    def oracle(self, case, out):
        msgs = C02Suite.oracle(self, case, out)
        # what the list-level trace cannot show: a pointer to something that is not an awaiter node, and a waiter that
        # reads its result while its node is still linked
        for l in out:
            w = l.split()
            if not w:
                continue
            if w[0] == "p" and any(x.endswith("=?") for x in w[1:]):
                msgs.append("dangling: the slot or a `_next` field points to something that never was an awaiter node (%s)" % l)
                break
            if w[0] == "po" and w[2] != "n=null":
                msgs.append("linked: waiter %s reads the result while its node's `_next` is %s" % (w[1], w[2][2:]))
                break
        return msgs

    def stats(self, cases, outs):
        st = cc.ChainSuite.stats(self, cases, outs)
        plines = retries = refused = maxlen = 0
        for o in outs.values():
            for l in o:
                if l.startswith("p "):
                    plines += 1
                    maxlen = max(maxlen, sum(1 for x in l.split()[2:] if x.split("=")[1].startswith("w")) + (1 if l.split()[1] != "head=null" and l.split()[1] != "head=ready" else 0))
                elif " cas- slot ready" in l:
                    refused += 1
                elif " cas- " in l:
                    retries += 1
        st["pointer_digests"] = plines
        st["cas_retries"] = retries
        st["refused_subscriptions"] = refused
        st["longest_chain_seen"] = maxlen
        return st


class C02(Spec):
    pid = "C02"
    lean_modules = ["CoclsModel.Props.C02"]
    design_ref = "DESIGN.md §5 C02"
    technique = "Lean 4 invariant proof over all schedules of a micro-step model + step-for-step differential replay on the real headers under a baton scheduler"
    level_text = ("Lean 4 theorems over the micro-step chain model (any number of waiters of every kind, resolver of every kind, every schedule): released at most once, "
                  "never before the result is set, observes the final result, nobody left parked once the resolver finished, no stuck state. A pointer-level model "
                  "(slot, intrusive `_next` fields, the walker's local pointer: ChainPtr.lean) is proved to refine the list-level one (simulation theorem c02_ptr_refines_list, "
                  "for all configurations and schedules), with node-lifetime safety (c02_walk_safe: no access to a dead awaiter node; c02_no_touch_after_publish). Tied to the code by replaying "
                  "generated and exhaustively enumerated small schedules on the unmodified headers under the baton scheduler — list level: every operation line; pointer level: "
                  "additionally the real slot and `_next` values after every operation; oracles on the implementation trace.")
    level_note = ("trusted: Lean kernel; hand-written models (the list abstraction of the pointer-level model is a theorem); baton shim (SC interleavings; weak memory is C03's); "
                  "notify_all after the releasing store assumed to use only the address of the atomic (libstdc++ does); node lifetimes (when a stack awaiter / coroutine frame / "
                  "callback closure may go) are ghost state of the model, as the C++ object model specifies them.")
    trusted_base = ["model lean/CoclsModel/Chain.lean tied to awaiter.h/future.h/async.h by step-for-step replay (harness/h_chain.cpp) against lean/Drivers/C01.lean",
                    "model lean/CoclsModel/ChainPtr.lean tied to awaiter.h by step-for-step replay of operations and pointer digests (harness/h_chain.cpp, case kind chainp) against lean/Drivers/C02P.lean",
                    "C++20 coroutine machinery and libstdc++ as specified"]
    assumptions = ["~promise is sequenced after every invocation of that promise object", "interleavings are sequentially consistent (memory orders: C03)"]

    def suites(self):
        return [C02Suite(), C02PtrSuite()]


SPEC = C02()
