"""C07 — coroutine mutex: mutual exclusion and exactly-once grant."""
from vlib.runner import Spec
from checks import mutex_common as mc


class C07Suite(mc.MutexSuite):
    name = "contenders"
    corpus_prefix = "c07_"

    def gen_cases(self, rng, tier):
        if tier == "quick":
            return mc.gen_random(rng, 1500)
        return mc.gen_random(rng, 20000) + mc.gen_exhaustive_pairs(13) + mc.gen_preemption_bounded_triples(rng, 6, 14, 3)

    def oracle(self, case, out):
        i = mc.parse(case, out)
        if i["crash"]:
            return ["crash: the implementation crashed (double resume / use after free)"]
        if i["assert"]:
            return ["assert: " + i["assert"]]
        msgs = []
        if i["overlap"]:
            msgs.append("exclusion: two parties were inside the critical section at once")
        seen = set()
        for a, r in i["cs"]:
            if (a, r) in seen:
                msgs.append("grant: request a%d r%d was granted twice" % (a, r))
            seen.add((a, r))
        if i["deadlock"]:
            msgs.append("grant: contenders stuck (a request was never granted)")
            return msgs
        for a, (d, t) in i["rounds"].items():
            if d != t:
                msgs.append("grant: agent a%d finished %d of %d rounds" % (a, d, t))
        for a, th in enumerate(i["threads"]):
            for r, rd in enumerate(th[2:]):
                got = (a, r) in seen
                failed = (a, r) in i["tryfail"]
                if rd[0] == "t":
                    if got == failed:
                        msgs.append("grant: try_lock a%d r%d neither/both succeeded and failed" % (a, r))
                elif not got:
                    msgs.append("grant: request a%d r%d was never granted" % (a, r))
        if len(i["done"]) != len(set(i["done"])):
            msgs.append("resume: a contender ran to its end twice")
        if i["final"] and ("slot=armed" in i["final"] or "aux=locked" in i["final"] or "req=free" not in i["final"]):
            msgs.append("ownership: every contender is done but an ownership was never given up (%s)" % " ".join(i["final"]))
        return msgs


class C07(Spec):
    pid = "C07"
    lean_modules = ["CoclsModel.Props.C07"]
    design_ref = "DESIGN.md §5 C07"
    technique = "Lean 4 invariant proof over all schedules of a micro-step model + step-for-step differential replay on the real header under a baton scheduler"
    level_text = ("Lean 4 theorems over a micro-step model of cocls::mutex (one step per atomic operation: ready() CAS, publishing CAS loop, build_queue exchange, unlock fast-path CAS, "
                  "hand-over; any number of contenders, rounds, flavours and release styles, every schedule): at most one owner, each request granted at most once / exactly once at "
                  "quiescence, a waiting coroutine resumed once and never while suspending. Contenders work through mutex::ownership objects (own object or a slot shared by all "
                  "contenders and guarded by the mutex; stored by construction / move-assignment / ownership(co_awaiter&&) / a callback awaiter granted inline; given up by release(), "
                  "awaited release, destruction, move construction into a temporary, move-assignment of an empty or of another mutex' ownership): an armed object belongs to the unique "
                  "owner, an ownership is never stored into an armed object, a mutex whose every ownership is gone is free or being handed over. The model (including which OS thread runs which coroutine) is tied to mutex.h by replaying generated, "
                  "exhaustively enumerated (2 contenders) and preemption-bounded (3 contenders) schedules on the unmodified header and diffing every operation line.")
    level_note = ("trusted: Lean kernel; hand-written list-level model; the intrusive links are modelled by the pointer-level model MutexPtr.lean, proved to refine it (C08: "
                  "c08_ptr_refines_list) and compared with the real links by the suite ptr-level of C08; node safety is proved there (c07_no_dead_access_ptr, c07_no_touch_after_publish_ptr, "
                  "c07_unlock_unlinks_before_resume_ptr, c07_no_conflict_ptr; ghost liveness of awaiters, the real lifetimes are checked by ASan in the harness); baton shim (SC interleavings; "
                  "memory orders are C03's); the defect of the pinned commit (subscribe re-read the published awaiter) is repaired by a fix: commit, kept as a corpus schedule and as the as-is "
                  "step variant with the decide witness c07_asis_touch_after_resume_ptr.")
    trusted_base = ["model lean/CoclsModel/Mutex.lean tied to mutex.h by step-for-step replay (harness/h_mutex.cpp, shim/verif_shim.h) against lean/Drivers/C07.lean",
                    "C++20 coroutine machinery and libstdc++ as specified"]
    assumptions = ["interleavings are sequentially consistent (memory orders: C03)",
                   "an ownership object is touched only by the party that owns the mutex it is armed for / that was just granted it (the shared slot is state guarded by the mutex)",
                   "the transfer of the theorems to OS threads excludes contenders that block their thread from inside a coroutine (Cfg.WFT); the agent-level theorems and the replay include them"]

    def suites(self):
        return [C07Suite()]


SPEC = C07()
