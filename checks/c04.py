"""C04 — an async coroutine runs once, delivers to its bound party, frees once."""
import itertools
import re
from vlib.runner import Spec, Suite

HARNESS = ("h_async", ["h_async.cpp"], {})

CHILD_KINDS = "aAsSfFrRdDu"
START_OPS = ("detach", "start", "fut", "fcoro", "pool", "join", "startp", "startpm", "startop")


def parse_line(line):
    head, _, tail = line.partition(" ; ")
    return head.split(), tail.split()


class Gen:
    """random program: a forest of scripted coroutines + a driver script"""

    def __init__(self, rng, max_depth, width, next_, ty="int"):
        self.rng = rng
        self.ty = ty
        self.max_depth = max_depth
        self.width = width
        self.next = next_
        self.scripts = {}
        self.nid = 1

    def new_id(self):
        i = self.nid
        self.nid += 1
        return i

    def script(self, depth, ext_bound, chain=False):
        """returns a new instance id whose script (and all descendants) only await ext futures < ext_bound"""
        rng = self.rng
        me = self.new_id()
        acts = []
        n = rng.randint(0, self.width) if not chain else rng.randint(1, 2)
        for _ in range(n):
            r = rng.random()
            if r < 0.12:
                acts.append("c")
            elif r < 0.40:
                if ext_bound > 0:
                    acts.append(("w" if rng.random() < 0.7 else "W") + str(rng.randrange(ext_bound)))
            elif depth < self.max_depth and self.nid < 120:
                kind = rng.choice("aaaAsSfFrRdDu" if not chain else "aaAsfrR")
                j = self.script(depth + 1, ext_bound, chain)
                acts.append(kind + str(j))
        if chain and depth < self.max_depth and not any(a[0] in CHILD_KINDS for a in acts):
            j = self.script(depth + 1, ext_bound, chain)
            acts.append(rng.choice("aasfr") + str(j))
        r = rng.random()
        if r < 0.2:
            acts.append("t" + str(rng.randint(1, 9)))
        elif r < 0.75:
            # pk (result construction can throw): the operand of co_return is converted (v) or copied (k) inside the bound future
            acts.append(("k" if self.ty == "pk" and rng.random() < 0.4 else "v") + str(rng.randint(0, 50)))
        self.scripts[me] = acts
        return me


def gen_case(rng, deep=False):
    ty = rng.choice(["int", "int", "void", "mo", "ref", "ref", "pk", "pk"])
    next_ = rng.choice([0, 1, 2, 2, 3, 4])
    if deep:
        g = Gen(rng, rng.choice([12, 20, 30]), 2, next_, ty)
    else:
        g = Gen(rng, rng.choice([0, 1, 2, 3, 4, 6]), rng.choice([2, 3, 5]), next_, ty)
    ops = []
    claimed = set()     # generator's view (approximate; only used for biasing)
    nroots = rng.randint(1, 2) if deep else rng.randint(1, 5)
    pending_new = []    # instances created by `new`, to be used later
    joins = 0

    def ext_op():
        if next_ == 0:
            return
        k = rng.randrange(next_)
        r = rng.random()
        if r < 0.4:
            ops.append("set %d %d" % (k, rng.randint(1, 99)))
        elif r < 0.55:
            ops.append("exc %d %d" % (k, rng.randint(1, 9)))
        elif r < 0.67:
            ops.append("dropp %d" % k)
        elif r < 0.9:
            ops.append("tset %d %d" % (k, rng.randint(1, 99)))
        else:
            ops.append("texc %d %d" % (k, rng.randint(1, 9)))
        claimed.add(k)

    def use(i, bound):
        """emit one op consuming the unstarted/absent instance i (its subtree awaits only ext < bound)"""
        nonlocal joins
        modes = ["detach", "start", "start", "fut", "pool", "drop", "join", "startop", "startop"]
        if bound == next_ and next_ > 0:
            pass
        m = rng.choice(modes)
        if m == "join":
            if joins >= 2:
                m = "start"
            joins += 1
        if m == "join":
            ops.append("join %d %d" % (i, rng.randint(1, 99)))
            claimed.update(range(next_))
        else:
            ops.append("%s %d" % (m, i))

    for _ in range(nroots):
        while rng.random() < 0.35:
            ext_op()
        r = rng.random()
        if r < 0.22 and next_ > 0:
            # start(promise k): the subtree may only await futures < k (no wait cycle through the bound future)
            k = rng.randrange(next_)
            i = g.script(0, k, deep)
            if rng.random() < 0.3:
                ops.append("new %d" % i)
            ops.append("%s %d %d" % (rng.choice(["startp", "startpm"]), i, k))
            if k in claimed:
                # stays unstarted: sometimes start it another way, sometimes leave it to `end`
                if rng.random() < 0.6:
                    use(i, k)
            claimed.add(k)
        elif r < 0.34:
            i = g.script(0, next_, deep)
            ops.append("fcoro %d" % i)
        elif r < 0.5:
            i = g.script(0, next_, deep)
            ops.append("new %d" % i)
            pending_new.append(i)
        else:
            i = g.script(0, next_, deep)
            use(i, next_)
        if pending_new and rng.random() < 0.6:
            use(pending_new.pop(rng.randrange(len(pending_new))), next_)
        if rng.random() < 0.08 and g.nid > 1:
            # misuse is rejected by the harness (bad-op) unless the instance is still unstarted
            ops.append("%s %d" % (rng.choice(["start", "detach", "drop"]), rng.randrange(1, g.nid)))
    while rng.random() < 0.6:
        ext_op()
    if pending_new and rng.random() < 0.5:
        use(pending_new.pop(), next_)
    while rng.random() < 0.3:
        ext_op()
    lines = ["case 0 async %s %d" % (ty, next_)]
    for i in sorted(g.scripts):
        lines.append("coro %d %s" % (i, " ".join(g.scripts[i])))
    lines += ops
    lines.append("end")
    return {"id": 0, "lines": [l.rstrip() for l in lines]}


class AsyncSuite(Suite):
    name = "async-lifecycle"
    harness = HARNESS
    driver = "drv_c04"
    corpus_prefix = "c04_"
    chunk = 25
    nontrivial_rule = "at least one coroutine suspended across driver operations or a co_await chain of depth >= 2"

    def gen_cases(self, rng, tier):
        n, ndeep = (1200, 60) if tier == "quick" else (150000, 10000)
        cases = [gen_case(rng) for _ in range(n)]
        cases += [gen_case(rng, deep=True) for _ in range(ndeep)]
        return cases

    # ---------------------------------------------------------------------------------------
    def _scripts(self, case):
        sc = {}
        for l in case["lines"][1:]:
            w = l.split()
            if w and w[0] == "coro" and len(w) > 1:
                sc[int(w[1])] = w[2:]
        return sc

    def nontrivial(self, case, out):
        # a body began on one line and ended on a later one, or nested awaits
        began, ended = {}, {}
        for n, l in enumerate(out):
            for e in parse_line(l)[1]:
                m = re.match(r"b(\d+)$", e)
                if m:
                    began[m.group(1)] = n
                m = re.match(r"r(\d+)=", e)
                if m:
                    ended[m.group(1)] = n
        if any(ended.get(i, 10 ** 9) > b for i, b in began.items()):
            return True
        sc = self._scripts(case)
        for i, acts in sc.items():
            for a in acts:
                if a[0] in "aAsSfFrR" and a[1:].isdigit() and any(b[0] in "aAsSfFrR" for b in sc.get(int(a[1:]), [])):
                    return True
        return False

    def stats(self, cases, outs):
        ops, acts, types, depth_hist = {}, {}, {}, {}
        suspended = other_thread = exc_results = val_results = 0
        # result type pk: exceptions thrown by the construction of the result value at co_return (codes 20-22 converting,
        # 30-32 copy; no other source uses these codes) - where they were thrown and which kind of bound party received them
        ctor_thrown = {"converting": 0, "copy": 0, "after_suspension": 0}
        ctor_seen = {"join": 0, "future(start/fut/fcoro/pool)": 0, "start(promise)": 0, "co_await": 0, "operation_callback": 0}
        ctor_detached_unconstructed = 0

        def is_ctor(o):
            return o.startswith("exc:") and o[4:].isdigit() and 20 <= int(o[4:]) <= 32
        for c in cases:
            hdr = c["lines"][0].split()
            if len(hdr) > 3:
                types[hdr[3]] = types.get(hdr[3], 0) + 1
            sc = self._scripts(c)
            for l in c["lines"][1:-1]:
                w = l.split()
                if not w:
                    continue
                if w[0] == "coro":
                    for a in w[2:]:
                        acts[a[0]] = acts.get(a[0], 0) + 1
                else:
                    ops[w[0]] = ops.get(w[0], 0) + 1
                    if w[0] in ("tset", "texc", "join", "pool"):
                        other_thread += 1
            # nesting depth of await chains
            memo = {}

            def depth(i, seen=()):
                if i in memo:
                    return memo[i]
                d = 0
                for a in sc.get(i, []):
                    if a[0] in CHILD_KINDS and a[1:].isdigit() and int(a[1:]) not in seen:
                        d = max(d, 1 + depth(int(a[1:]), seen + (i,)))
                memo[i] = d
                return d
            dmax = max([depth(i) for i in sc] or [0])
            b = "0" if dmax == 0 else "1-2" if dmax <= 2 else "3-6" if dmax <= 6 else "7-15" if dmax <= 15 else "16+"
            depth_hist[b] = depth_hist.get(b, 0) + 1
            o = outs.get(str(c["id"]), [])
            began = {}
            pk = len(hdr) > 3 and hdr[3] == "pk"
            for n, l in enumerate(o):
                hd, evl = parse_line(l)
                if pk:
                    if len(hd) > 1 and hd[0] == "join" and is_ctor(hd[1]):
                        ctor_seen["join"] += 1
                    for e in evl:
                        k, _, v = e.partition("=")
                        if not is_ctor(v):
                            if k[:1] == "r" and v.startswith("v:") and v[2:].isdigit() and sc.get(int(k[1:])) is not None:
                                last = (sc[int(k[1:])] or ["v"])[-1][0]
                                vv = int(v[2:])
                                if (last == "k" and vv % 4 == 2) or (last != "k" and vv % 4 == 1):
                                    ctor_detached_unconstructed += 1   # operand of a throwing class, nothing constructed: detached
                            continue
                        if k[:1] == "F":
                            ctor_seen["future(start/fut/fcoro/pool)"] += 1
                        elif k[:1] == "X":
                            ctor_seen["start(promise)"] += 1
                        elif k[:1] == "O":
                            ctor_seen["operation_callback"] += 1
                        elif k[:1] == "s" and ":c" in k:
                            ctor_seen["co_await"] += 1
                        elif k[:1] == "r" and k[1:].isdigit():
                            acts_i = sc.get(int(k[1:]), [])
                            last = acts_i[-1][0] if acts_i else "v"
                            code = int(v[4:])
                            # (an uncaught exception of the same class propagated from an awaited child is counted too)
                            if code >= 30 and last == "k":
                                ctor_thrown["copy"] += 1
                            elif code < 30 and last != "k":
                                ctor_thrown["converting"] += 1
                            else:
                                continue
                            if began.get(k[1:], n) < n:
                                ctor_thrown["after_suspension"] += 1
                for e in evl:
                    m = re.match(r"b(\d+)$", e)
                    if m:
                        began[m.group(1)] = n
                    m = re.match(r"r(\d+)=(.*)", e)
                    if m:
                        if m.group(2).startswith("exc") or m.group(2) == "canceled":
                            exc_results += 1
                        else:
                            val_results += 1
                        if began.get(m.group(1), n) < n:
                            suspended += 1
        return {"driver_ops": ops, "script_acts": acts, "result_types": types, "max_nesting_depth": depth_hist,
                "coroutines_completed_after_suspension": suspended, "ops_involving_second_thread": other_thread,
                "bodies_ended_by_value": val_results, "bodies_ended_by_exception": exc_results,
                "result_construction_threw_at_co_return(upper bound: includes uncaught propagation with the same class)": ctor_thrown,
                "result_construction_exception_received_by": ctor_seen,
                "throwing_operand_but_detached_so_nothing_constructed": ctor_detached_unconstructed}

    # ---------------------------------------------------------------------------------------
    def oracle(self, case, out):
        """the statement of C04 evaluated on the implementation's trace"""
        msgs = []
        hdr = case["lines"][0].split()
        if len(hdr) < 3 or hdr[2] != "async":
            return msgs
        ops = case["lines"][1:]
        sc = {}
        parent_kind = {}           # child id -> act kind of the (first) script position that creates it
        cnt = {}                   # event -> count
        first_line = {}            # event -> first line index
        result = {}                # coroutine -> outcome its body produced
        slot_of = {}               # slot index -> coroutine bound to it
        ext_bound = {}             # ext k -> coroutine bound by start(promise)
        ext_out = {}               # ext k -> outcome reported
        slot_out = {}
        claimed = set()
        op_started = set()         # coroutines started by `startop` (bound to a future their own frame owns)
        op_cb, op_dead = {}, {}    # coroutine -> [(outcome seen by the completion callback, line)] / [(ready|pending, line)]
        started_top = {}           # coroutine -> line of the successful top-level start
        never_start = set()        # dropped unstarted at top level
        created_top = set()
        consumed = set()
        nslots = 0
        saws = []
        for n, (op, line) in enumerate(zip(ops, out)):
            w = op.split()
            head, evs = parse_line(line)
            if not w:
                continue
            if w[0] == "coro" and len(w) > 1:
                sc[int(w[1])] = w[2:]
                for a in w[2:]:
                    if a[0] in CHILD_KINDS and a[1:].isdigit():
                        parent_kind.setdefault(int(a[1:]), a[0])
            for e in evs:
                cnt[e.split("=")[0]] = cnt.get(e.split("=")[0], 0) + 1
                first_line.setdefault(e.split("=")[0], n)
                m = re.match(r"r(\d+)=(.*)$", e)
                if m:
                    result[int(m.group(1))] = m.group(2)
                m = re.match(r"F(\d+)=(.*)$", e)
                if m:
                    slot_out[int(m.group(1))] = (m.group(2), n)
                m = re.match(r"X(\d+)=(.*)$", e)
                if m:
                    ext_out[int(m.group(1))] = (m.group(2), n)
                m = re.match(r"O(\d+)=(.*)$", e)
                if m:
                    op_cb.setdefault(int(m.group(1)), []).append((m.group(2), n))
                m = re.match(r"~o(\d+)=(.*)$", e)
                if m:
                    op_dead.setdefault(int(m.group(1)), []).append((m.group(2), n))
                m = re.match(r"s(\d+)\.(\d+):([cx])(\d+)=(.*)$", e)
                if m:
                    saws.append((int(m.group(1)), int(m.group(2)), m.group(3), int(m.group(4)), m.group(5), n))
                if e.endswith("=v:dangling") or e.endswith("=v:corrupt") or "=v:dangling!" in e:
                    msgs.append("delivery: %s - the bound party received a reference that is not the object named in co_return "
                                "(identity mismatch)" % e)
                if e.startswith("hang:"):
                    msgs.append("lost: %s still pending after every promise was resolved or dropped" % e[5:])
                if e.startswith("-f?"):
                    msgs.append("frame: frame of %s released with a different size than allocated" % e[3:])
            if head and head[0] == "bad-op":
                continue
            if w[0] in ("new",) and len(w) > 1:
                created_top.add(int(w[1]))
            if w[0] in ("drop",) + START_OPS and len(w) > 1:
                i = int(w[1])
                created_top.add(i)
                if w[0] == "drop":
                    never_start.add(i)
                    consumed.add(i)
                elif w[0] in ("startp", "startpm"):
                    k = int(w[2])
                    ok = head[1] == "1"
                    if k in claimed and ok:
                        msgs.append("claimed-promise: start(promise) succeeded on the already claimed promise %d" % k)
                    if k not in claimed and not ok:
                        msgs.append("claimed-promise: start(promise) refused the unclaimed promise %d" % k)
                    if ok:
                        started_top[i] = n
                        ext_bound[k] = i
                        claimed.add(k)
                        consumed.add(i)
                    elif ("b%d" % i) in [e for e in evs]:
                        msgs.append("claimed-promise: coroutine %d ran although start(promise) returned false" % i)
                else:
                    started_top[i] = n
                    consumed.add(i)
                    if w[0] in ("start", "fut", "fcoro", "pool"):
                        slot_of[nslots] = i
                        nslots += 1
                    if w[0] == "startop":
                        op_started.add(i)
                        if len(head) < 2 or head[1] != "1":
                            msgs.append("claimed-promise: start(promise) refused the fresh promise of the operation of %d" % i)
                    if w[0] == "join":
                        claimed.update(range(64))
                        if len(head) > 1 and result.get(i) != head[1]:
                            msgs.append("delivery: join() of %d returned %s but the body produced %s" % (i, head[1], result.get(i)))
            if w[0] in ("set", "exc", "tset", "texc") and len(w) > 1 and len(head) > 1:
                k = int(w[1])
                if (head[1] == "1") != (k not in claimed):
                    msgs.append("claimed-promise: promise %d %s by the driver although it was %s" % (
                        k, "accepted" if head[1] == "1" else "refused", "claimed" if k in claimed else "free"))
                claimed.add(k)
            if w[0] == "dropp" and len(w) > 1:
                claimed.add(int(w[1]))
        if len(out) < len(ops):
            return msgs          # truncated trace (crash); reported by the runner
        # --- exactly-once accounting per coroutine
        allids = set(sc) | created_top | {int(k[2:]) for k in cnt if re.match(r"\+f\d+$", k)} | {int(k[1:]) for k in cnt if re.match(r"b\d+$", k)}
        for i in sorted(allids):
            al, b, r = cnt.get("+f%d" % i, 0), cnt.get("b%d" % i, 0), cnt.get("r%d" % i, 0)
            fr, ad, ld = cnt.get("-f%d" % i, 0), cnt.get("~a%d" % i, 0), cnt.get("~l%d" % i, 0)
            if al > 1:
                msgs.append("frame: coroutine %d allocated %d frames" % (i, al))
            if b > 1 or r > 1:
                msgs.append("body-once: body of coroutine %d started %d times, ended %d times" % (i, b, r))
            if fr != al:
                msgs.append("frame-once: coroutine %d: %d frame allocation(s) but %d release(s)" % (i, al, fr))
            if ad != al:
                msgs.append("args-once: coroutine %d: arguments destroyed %d times (frames: %d)" % (i, ad, al))
            if ld != b:
                msgs.append("locals-once: coroutine %d: locals destroyed %d times, body started %d times" % (i, ld, b))
            if b and r != b:
                msgs.append("body-once: body of coroutine %d started but never finished although everything was resolved" % i)
            started = i in started_top or (al and parent_kind.get(i, "u") != "u" and i not in created_top)
            if started and al and b != 1:
                msgs.append("body-once: coroutine %d was started but its body ran %d times" % (i, b))
            if not started and b:
                msgs.append("unstarted: coroutine %d ran without being started" % i)
            if b and i in started_top and first_line.get("b%d" % i, 0) < started_top[i]:
                msgs.append("unstarted: coroutine %d ran before it was started" % i)
            for a, bb, what in (("+f%d", "b%d", "body before frame"), ("b%d", "r%d", "result before body"),
                                ("r%d", "-f%d", "frame released before the body ended"), ("r%d", "~a%d", "arguments destroyed before the body ended")):
                if (a % i) in first_line and (bb % i) in first_line and first_line[bb % i] < first_line[a % i]:
                    msgs.append("order: coroutine %d: %s" % (i, what))
        # --- delivery to exactly the bound party
        for sl, i in slot_of.items():
            if sl not in slot_out:
                if not any(m.startswith("lost") for m in msgs):
                    msgs.append("delivery: the future bound to coroutine %d never became ready" % i)
            else:
                o, n = slot_out[sl]
                if result.get(i) != o:
                    msgs.append("delivery: future of coroutine %d holds %s but the body produced %s" % (i, o, result.get(i)))
                if first_line.get("r%d" % i, -1) > n:
                    msgs.append("delivery: future of coroutine %d ready before the body ended" % i)
        for i in sorted(op_started):
            cbs, dead = op_cb.get(i, []), op_dead.get(i, [])
            if any(d[0] != "ready" for d in dead):
                msgs.append("delivery: the frame of coroutine %d - the last owner of the future it was bound to - was destroyed "
                            "before the result was delivered (future pending at destruction, callback calls so far: %d)" % (
                                i, sum(1 for c in cbs if not c[0].endswith("!late"))))
            elif len(cbs) != 1 or len(dead) != 1:
                msgs.append("delivery: completion callback of the operation of coroutine %d called %d times, operation destroyed %d times" % (i, len(cbs), len(dead)))
            elif cbs[0][0] != result.get(i):
                msgs.append("delivery: completion callback of coroutine %d saw %s but the body produced %s" % (i, cbs[0][0], result.get(i)))
            elif cbs[0][1] > dead[0][1]:
                msgs.append("delivery: completion callback of coroutine %d called after its operation died" % i)
        for k, i in ext_bound.items():
            if k not in ext_out:
                msgs.append("delivery: promise %d bound to coroutine %d never resolved" % (k, i))
            elif ext_out[k][0] != result.get(i):
                msgs.append("delivery: promise %d bound to coroutine %d holds %s but the body produced %s" % (k, i, ext_out[k][0], result.get(i)))
        seen_idx = set()
        for (p, idx, kind, src, o, n) in saws:
            if (p, idx) in seen_idx:
                msgs.append("resume-once: coroutine %d completed its await #%d twice" % (p, idx))
            seen_idx.add((p, idx))
            if kind == "c":
                if result.get(src) != o:
                    msgs.append("delivery: coroutine %d received %s from child %d whose body produced %s" % (p, o, src, result.get(src)))
                if first_line.get("r%d" % src, 10 ** 9) > n:
                    msgs.append("delivery: coroutine %d resumed before child %d ended" % (p, src))
            else:
                if src not in ext_out or ext_out[src][0] != o or ext_out[src][1] > n:
                    msgs.append("delivery: coroutine %d received %s from future %d which holds %s" % (p, o, src, ext_out.get(src)))
        for i in never_start:
            if cnt.get("b%d" % i, 0):
                msgs.append("unstarted: coroutine %d destroyed unstarted but its body ran" % i)
        return msgs


# ==============================================================================================
# T-style suite: threads racing start(shared promise) under the baton scheduler (harness/h_async_t.cpp)
# ==============================================================================================

HARNESS_T = ("h_async_t", ["h_async_t.cpp"], {"extra_flags": ["-I/verif/harness/shim", "-fno-access-control"]})
T_START = ["start", "startw", "startx"]
T_RES = ["value", "exc", "drop"]


def t_line(kind, n):
    if kind in ("start", "startw", "value", "join"):
        return "t %s %d" % (kind, 10 + n)
    if kind in ("startx", "exc"):
        return "t %s %d" % (kind, 1 + n)
    return "t " + kind


def t_case(kinds, sched, ty="int"):
    return {"id": 0, "lines": ["case 0 asynct %s" % ty] + [t_line(k, j) for j, k in enumerate(kinds)]
            + ["sched " + " ".join(map(str, sched)), "end"]}


T_PAIRS = [("start", "start"), ("start", "startw"), ("startw", "startw"), ("start", "startx"), ("startx", "startw"),
           ("start", "value"), ("value", "start"), ("start", "exc"), ("start", "drop"), ("startw", "value"),
           ("drop", "startw"), ("startx", "value"), ("start", "dtor"), ("startw", "dtor")]


class RaceSuite(Suite):
    """every enumerated interleaving of the atomic operations of the real headers is replayed on the micro-step model
    lean/CoclsModel/AsyncRace.lean (same scheduler rule) and diffed line by line; the oracle is the statement of C04 for
    start(promise) evaluated on the implementation's trace"""
    name = "start-promise-race"
    harness = HARNESS_T
    driver = "drv_c04"
    corpus_prefix = "c04t_"
    chunk = 300
    timeout = 600
    nontrivial_rule = "at least two threads claim the promise and the interleaving contains a context switch between their atomic operations"

    def gen_cases(self, rng, tier):
        L2, n3, L3x = (9, 2000, 0) if tier == "quick" else (12, 50000, 9)
        # the enumeration below is complete for the 2-thread shapes: repeated calls on the same suite object (the runner's
        # deepening streams on a changed tree) only add random many-thread cases instead of repeating it
        again = getattr(self, "_enumerated", False)
        self._enumerated = True
        cases = []
        # every schedule prefix of length L2 for every 2-thread shape (each start(promise) performs 1-3 atomic operations
        # before the body, at most 6 in all: every interleaving of two contenders is a prefix of length <= 8 + default rest)
        # (a random tail keeps repeated calls with other PRNG streams from producing identical cases)
        for sh in ([] if again else T_PAIRS):
            for bits in itertools.product([0, 1], repeat=L2):
                tail = [rng.randrange(2) for _ in range(rng.choice([0, 0, 2, 4]))]
                cases.append(t_case(sh, list(bits) + tail, rng.choice(["int", "int", "int", "void", "uptr"])))
        # 3 and 4 contenders: random shapes (at least two start threads mostly), random bursty schedules
        for _ in range(n3):
            n = 3 if rng.random() < 0.75 else 4
            kinds = [rng.choice(T_START) for _ in range(rng.choice([1, 2, 2, 3]))]
            while len(kinds) < n:
                kinds.append(rng.choice(T_START + T_RES + T_RES))
            kinds = kinds[:n]
            rng.shuffle(kinds)
            if rng.random() < 0.3:
                kinds[rng.randrange(n)] = "dtor"
            sched = []
            ln = rng.randint(0, 6 * n)
            while len(sched) < ln:
                sched += [rng.randrange(n)] * (1 if rng.random() < 0.7 else rng.randint(2, 3))
            cases.append(t_case(kinds, sched[:ln], rng.choice(["int", "int", "void", "uptr"])))
        if L3x:
            for sh in [("start", "start", "start"), ("start", "startw", "value"), ("startx", "start", "drop"), ("start", "start", "dtor")]:
                for tr in itertools.product([0, 1, 2], repeat=L3x):
                    cases.append(t_case(sh, tr))
        return cases

    @staticmethod
    def parse(case, out):
        threads = [l.split() for l in case["lines"][1:] if l.split()[:1] == ["t"] and len(l.split()) > 1]
        info = {"threads": threads, "rets": {}, "obs": {}, "body_run": {}, "argd_run": {}, "count": {}, "final": None,
                "deadlock": False, "crash": None, "assert": None, "ops": [], "cleanup": False}
        for l in out:
            w = l.split()
            if not w:
                continue
            if w[0] == "ret":
                info["rets"].setdefault(int(w[1][1:]), []).append(int(w[2]))
            elif w[0] == "obs":
                info["obs"].setdefault(int(w[1][1:]), []).append(w[2] if len(w) > 2 else "-")
            elif w[0] == "body" and not info["cleanup"]:
                info["body_run"][int(w[1][1:])] = info["body_run"].get(int(w[1][1:]), 0) + 1
            elif w[0] == "argd" and not info["cleanup"]:
                info["argd_run"][int(w[1][1:])] = info["argd_run"].get(int(w[1][1:]), 0) + 1
            elif w[0] == "cleanup":
                info["cleanup"] = True
            elif w[0] == "count":
                info["count"][int(w[1][1:])] = (int(w[2].split("=")[1]), int(w[3].split("=")[1]))
            elif w[0] == "final":
                info["final"] = (w[1], w[2] if len(w) > 2 else "-")
            elif w[0] == "deadlock":
                info["deadlock"] = True
            elif w[0] == "crash":
                info["crash"] = l
            elif w[0] == "assert-failed":
                info["assert"] = l
            elif w[0] == "s":
                info["ops"].append(w)
        return info

    def nontrivial(self, case, out):
        i = self.parse(case, out)
        claimers = [t for t in i["threads"] if t[1] != "dtor"]
        tids = [w[1] for w in i["ops"] if len(w) > 3 and w[3] == "owner"]
        return len(claimers) >= 2 and sum(1 for a, b in zip(tids, tids[1:]) if a != b) >= 1

    def stats(self, cases, outs):
        shapes, types, switches, wins_by_kind = {}, {}, 0, {}
        for c in cases:
            ths = [l.split()[1] for l in c["lines"][1:] if l.startswith("t ")]
            k = " ".join(ths)
            shapes[k] = shapes.get(k, 0) + 1
            ty = c["lines"][0].split()[3] if len(c["lines"][0].split()) > 3 else "int"
            types[ty] = types.get(ty, 0) + 1
            o = outs.get(str(c["id"]), [])
            tids = [l.split()[1] for l in o if l.startswith("s ")]
            switches += sum(1 for a, b in zip(tids, tids[1:]) if a != b)
            for l in o:
                w = l.split()
                if w[:1] == ["ret"] and w[2] == "1" and int(w[1][1:]) < len(ths):
                    kk = ths[int(w[1][1:])]
                    wins_by_kind[kk] = wins_by_kind.get(kk, 0) + 1
        top = dict(sorted(shapes.items(), key=lambda kv: -kv[1])[:16])
        return {"value_types": types, "distinct_shapes": len(shapes), "top_shapes": top,
                "context_switches_total": switches, "winner_kind": wins_by_kind}

    def oracle(self, case, out):
        hdr = case["lines"][0].split()
        if len(hdr) < 3 or hdr[2] != "asynct":
            return []
        ty = hdr[3] if len(hdr) > 3 else "int"
        i = self.parse(case, out)
        if i["crash"]:
            return ["crash: the implementation crashed (%s)" % i["crash"]]
        if i["assert"]:
            return ["assert: " + i["assert"]]
        th = i["threads"]
        if i["deadlock"]:
            # which threads never finished, and was the thing they wait for completed during the run?
            fin = {int(w[1]) for w in i["ops"] if len(w) > 2 and w[2] == "fin"}
            slot_done = any(len(w) > 4 and w[2] == "xchg" and w[3] == "slot" and w[4].endswith(">ready") for w in i["ops"])
            gate_done = any(len(w) > 4 and w[2] == "xchg" and w[3] == "gate" and w[4].endswith(">ready") for w in i["ops"])
            stuck = []
            for n, t in enumerate(th):
                if n in fin:
                    continue
                if t[1] == "wait" and not slot_done:
                    continue      # the shared future is completed by the controller after the run
                if t[1] == "join" and not gate_done:
                    continue      # the gate is opened by the controller after the run
                if t[1] == "dtor" and any(m not in fin for m, u in enumerate(th) if u[1] in T_START + T_RES):
                    continue      # sequenced after the users of the promise
                stuck.append("t%d:%s" % (n, t[1]))
            if not stuck:
                return []
            return ["hang: %s never woken although the future it waits for was completed by another thread" % " ".join(stuck)]
        msgs = []
        if not th:
            return msgs
        claimers = [n for n, t in enumerate(th) if t[1] in T_START + T_RES]
        for n in claimers:
            if len(i["rets"].get(n, [])) != 1:
                msgs.append("claimed-promise: call of t%d returned %d times" % (n, len(i["rets"].get(n, []))))
        wins = [n for n in claimers if 1 in i["rets"].get(n, [])]
        if claimers and len(wins) != 1:
            msgs.append("claimed-promise: %d of %d calls on ONE promise reported success (%s)" % (
                len(wins), len(claimers), " ".join("t%d:%s" % (n, th[n][1]) for n in wins)))
        if i["final"] is None:
            return msgs + ["final: no final state reported"]
        for n, t in enumerate(th):
            body, argd = i["count"].get(n, (0, 0))
            if t[1] in T_START:
                won = 1 in i["rets"].get(n, [])
                if not won and (body or i["body_run"].get(n)):
                    msgs.append("claimed-promise: start(promise) of t%d returned false but its coroutine ran" % n)
                if not won and i["argd_run"].get(n):
                    msgs.append("claimed-promise: start(promise) of t%d returned false but its frame was destroyed by the call" % n)
                if won and body != 1:
                    msgs.append("body-once: start(promise) of t%d returned true, its body ran %d times" % (n, body))
                if body > 1:
                    msgs.append("body-once: body of t%d ran %d times" % (n, body))
                if argd != 1:
                    msgs.append("args-once: arguments of the coroutine of t%d destroyed %d times" % (n, argd))
            elif t[1] == "join":
                if body != 1 or argd != 1:
                    msgs.append("body-once: coroutine of join() thread t%d: body ran %d times, arguments destroyed %d times" % (n, body, argd))
                exp = "v" if ty == "void" else "v:" + (t[2] if len(t) > 2 else "0")
                if i["obs"].get(n) != [exp]:
                    msgs.append("delivery: join() of t%d returned %s, its body produced %s" % (n, i["obs"].get(n), exp))
            elif body or argd:
                msgs.append("body-once: thread t%d owns no coroutine but one ran" % n)
        st, val = i["final"]
        if st != "ready":
            msgs.append("delivery: the future is still pending after the promise was claimed/destroyed")
        elif len(wins) == 1 or not claimers:
            if wins:
                t = th[wins[0]]
                if t[1] in ("start", "startw", "value"):
                    exp = "v" if ty == "void" else "v:" + t[2]
                elif t[1] in ("startx", "exc"):
                    exp = "exc:" + t[2]
                else:
                    exp = "canceled"
            else:
                exp = "canceled"
            if val != exp:
                msgs.append("delivery: the future holds %s, the winner (%s) produced %s" % (
                    val, "t%d:%s" % (wins[0], th[wins[0]][1]) if wins else "nobody", exp))
        for n, t in enumerate(th):
            if t[1] == "wait" and i["obs"].get(n) != [val]:
                msgs.append("delivery: wait() of t%d observed %s, the future holds %s" % (n, i["obs"].get(n), val))
        return msgs


T_PAIRS_J = [("wait", "start"), ("start", "wait"), ("wait", "startx"), ("wait", "value"), ("wait", "exc"), ("wait", "drop"),
             ("wait", "dtor"), ("join", "open"), ("open", "join")]
T_TRIPLES_J = [("wait", "start", "start"), ("wait", "startw", "open"), ("join", "open", "start"), ("wait", "wait", "start"),
               ("join", "join", "open"), ("wait", "value", "start"), ("open", "wait", "startw")]


class JoinRaceSuite(RaceSuite):
    """the bound party blocks in wait()/join() while another thread completes the future: every interleaving of the
    subscription with the resolution; oracle only (the micro-step model of the race does not include the sync awaiter)"""
    name = "join-race"
    driver = None
    compare = False
    corpus_prefix = "c04j_"
    nontrivial_rule = "a thread blocks in wait()/join() and the interleaving contains a context switch between its subscription and the resolution"

    def gen_cases(self, rng, tier):
        L2, L3, n3 = (9, 6, 1500) if tier == "quick" else (12, 8, 30000)
        again = getattr(self, "_enumerated", False)   # see RaceSuite.gen_cases
        self._enumerated = True
        if again:
            L3 = 0
        cases = []
        for sh in ([] if again else T_PAIRS_J):
            for bits in itertools.product([0, 1], repeat=L2):
                tail = [rng.randrange(2) for _ in range(rng.choice([0, 0, 2, 4]))]
                cases.append(t_case(sh, list(bits) + tail, rng.choice(["int", "int", "void", "uptr"])))
        if L3:
            for sh in T_TRIPLES_J:
                for tr in itertools.product([0, 1, 2], repeat=L3):
                    tail = [rng.randrange(3) for _ in range(rng.choice([0, 3, 6]))]
                    cases.append(t_case(sh, list(tr) + tail))
        for _ in range(n3):
            n = rng.choice([3, 3, 4])
            kinds = [rng.choice(["wait", "wait", "join"])]
            while len(kinds) < n:
                kinds.append(rng.choice(T_START + T_RES + ["wait", "join"]))
            if any(k in ("startw", "join") for k in kinds):
                kinds[-1 if kinds[-1] not in ("join",) or n < 3 else 1] = "open"
                if not any(k in ("startw", "join") for k in kinds):
                    kinds[0] = "join"
            if not any(k in T_START + T_RES for k in kinds) and rng.random() < 0.5:
                kinds.append("dtor")
            rng.shuffle(kinds)
            nn = len(kinds)
            sched = []
            ln = rng.randint(0, 7 * nn)
            while len(sched) < ln:
                sched += [rng.randrange(nn)] * (1 if rng.random() < 0.7 else rng.randint(2, 3))
            cases.append(t_case(kinds, sched[:ln], rng.choice(["int", "int", "void", "uptr"])))
        return cases

    def nontrivial(self, case, out):
        i = self.parse(case, out)
        if not any(t[1] in ("wait", "join") for t in i["threads"]):
            return False
        tids = [w[1] for w in i["ops"]]
        return sum(1 for a, b in zip(tids, tids[1:]) if a != b) >= 2


class C04(Spec):
    pid = "C04"
    lean_modules = ["CoclsModel.Props.C04"]
    design_ref = "DESIGN.md §5 C04"
    trusted_base = ["hand-written model lean/CoclsModel/Async.lean tied to async.h/future.h by differential correspondence "
                    "(harness/h_async.cpp vs lean/Drivers/C04.lean) on generated programs",
                    "micro-step model lean/CoclsModel/AsyncRace.lean (threads racing start(promise)) tied to the unmodified headers by "
                    "step-for-step replay under the interposed-atomics baton scheduler (harness/h_async_t.cpp, shim/verif_shim.h): "
                    "sequentially consistent interleavings only",
                    "g++ 12 coroutine lowering (frame allocation through promise operator new, destruction of arguments/locals with the frame)",
                    "awaiter chain subscribe/resolve atomicity (C03) and the order in which the executor runs ready coroutines (C05) taken as specified"]
    technique = "Lean 4 invariant proof (induction over all schedules of all scripted programs) + differential correspondence with the real headers"
    level_text = ("Lean 4 theorems over an executable model of the async<T> life cycle (every start mode, co_await chains of any depth, "
                  "value/exception/cancellation, result types whose construction at co_return can throw, final_awaiter) quantified over "
                  "all programs, all result-constructor behaviours and all schedules (operation lists); "
                  "the model is tied to async.h/future.h by running generated programs through the real headers (ASan/UBSan, counting "
                  "frame storage, RAII guards) and through the model and diffing every line; property oracles run on the implementation trace")
    level_note = ("trusted: Lean kernel (axioms propext/Classical.choice/Quot.sound at most), the hand-written model, the differential "
                  "harness (sampling), the compiler's coroutine lowering. Cross-thread completions are covered by the theorems (a schedule is any "
                  "operation list) but exercised on the real code only with a helper thread / a one-thread pool whose effects are joined before "
                  "the trace line is printed.")
    assumptions = ["the promise object shared by racing start(promise) calls is destroyed at most once, after every use of it (C++ object lifetime)",
                   "an async<T> object is started at most once and only while it holds its handle (the code asserts this)",
                   "a coroutine started with start(promise) does not wait, directly or indirectly, on the future of that promise",
                   "only the driver resolves the external promises (coroutines do not race for them)"]

    def suites(self):
        return [AsyncSuite(), RaceSuite(), JoinRaceSuite()]


SPEC = C04()
