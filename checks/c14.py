"""C14 — generator aggregator: union of all sources, per-source order preserved."""
import re
from vlib.runner import Spec, Suite

HARNESS = ("h_aggregator", ["h_aggregator.cpp"], {})


# ------------------------------------------------------------------------------------------------
# scripts
# ------------------------------------------------------------------------------------------------

def parse_script(txt):
    """'y,a,t3*yl,ar' -> (pre, cyc) lists of acts ('y' | 'yl' | 'a' | 'ar' | 't3'); 'ar' = await, then fetch the argument
    again; 'yl' = yield an lvalue that outlives the yield (accumulator / script element) and look at it again afterwards"""
    pre, _, cyc = txt.partition("*")
    f = lambda t: [x for x in t.split(",") if x and x != "-"]
    return f(pre), f(cyc)


YIELDS = ("y", "yl")

# access styles (harness grammar): reference styles n i c, future styles f w x d q j and their capital twins (one future
# object re-used with result_of / operator<<)
REF_STYLES = "nic"
FUT_STYLES = "fwxdqjFWXDQJ"
BLOCKING = "niwxdjWXDJ"
MAY_PEND = "cfqFQ"
STYLE_TEXT = {"n": "next()/value()", "i": "iterator", "c": "co_await next()", "f": "co_await val.has_value()",
              "w": "if (val)", "x": "if (!val)", "d": "*val", "q": "co_await val", "j": "sync()+value()", "poll": "ready()+value()"}


def act_at(script, p):
    pre, cyc = script
    if p < len(pre):
        return pre[p]
    if not cyc:
        return None
    return cyc[(p - len(pre)) % len(cyc)]


def script_text(pre, cyc):
    t = ",".join(pre) if pre else ("-" if not cyc else "")
    if cyc:
        t += "*" + ",".join(cyc)
    return t


class Sim:
    """Book-keeping used ONLY by the generator to emit legal inputs (which sources are awaiting, whether a
    blocking access would return, which helper resolutions a blocking op needs). The verdicts come from the
    oracle below, which looks at the implementation's output only."""

    def __init__(self, scripts):
        self.sc = scripts
        self.n = len(scripts)
        self.pc = [0] * self.n
        self.st = ["fresh"] * self.n
        self.res = [None] * self.n
        self.q = []
        self.ag = "init"       # init | pop | yield | done | failed | destroyed
        self.cur = None
        self.count = 0
        self.exp = None

    def run_src(self, k):
        a = act_at(self.sc[k], self.pc[k])
        if a is None:
            self.res[k] = "done"
        else:
            self.pc[k] += 1
            if a in ("a", "ar"):
                self.st[k] = "inflight"
                return False
            self.res[k] = "val" if a in YIELDS else "exc"
        self.st[k] = "queued"
        self.q.append(k)
        return True

    def loop(self):
        while self.count > 0:
            if not self.q:
                self.ag = "pop"
                return "pending"
            k = self.q.pop(0)
            if self.res[k] == "val":
                self.st[k] = "cur"
                self.cur = k
                self.ag = "yield"
                return "v"
            if self.res[k] == "exc":
                self.exp = True
            self.st[k] = "fin"
            self.count -= 1
        self.ag = "failed" if self.exp else "done"
        return "exc" if self.exp else "end"

    def access(self):
        """returns (result, pushed_during_start) ; result in v/end/exc/pending"""
        pushed = False
        if self.ag == "init":
            self.count = self.n
            for k in range(self.n):
                pushed |= self.run_src(k)
        elif self.ag == "yield":
            pushed |= self.run_src(self.cur)
            self.cur = None
        else:
            return ("end" if self.ag == "done" else "nomore"), False
        return self.loop(), pushed

    def resolve(self, k):
        assert self.st[k] == "inflight"
        if self.run_src(k) and self.ag == "pop":
            return self.loop()
        return None

    def inflight(self):
        return [k for k in range(self.n) if self.st[k] == "inflight"]

    def clone(self):
        s = Sim(self.sc)
        s.pc, s.st, s.res, s.q = list(self.pc), list(self.st), list(self.res), list(self.q)
        s.ag, s.cur, s.count, s.exp = self.ag, self.cur, self.count, self.exp
        return s


def first_illegal(lines, upto):
    """index (into the op lines) of the first op the generator would not have emitted, or None.  Used by the oracle
    only to decide whether a *hang* counts: a blocking access may legitimately never return when every source is in
    flight and nobody completes them (such inputs only arise when a failing case is shrunk)."""
    hdr = lines[0].split()
    try:
        scripts = [parse_script(t) for t in hdr[5:]]
        if len(scripts) != int(hdr[4]):
            return 0
        sim = Sim(scripts)
        pending = False

        def res_ok(k):
            return 0 <= k < sim.n and sim.st[k] == "inflight"

        for i, op in enumerate(lines[1:upto + 2]):
            w = op.split()
            o = w[0]
            if o in ("next", "inext", "pnext"):
                if pending or sim.ag == "failed":
                    return i
                if o == "pnext" and (len(w) != 3 or w[1] not in BLOCKING):
                    return i
                r, _ = sim.access()
                if r == "pending":
                    return i
            elif o in ("fnext", "cnext"):
                if pending or sim.ag == "failed":
                    return i
                r, _ = sim.access()
                pending = r == "pending"
            elif o == "batch":
                if pending:
                    return i
                for j, acc in enumerate(w[1:]):
                    if sim.ag in ("failed",) or pending:
                        return i
                    r, _ = sim.access()
                    if r == "pending":
                        if acc[0] not in MAY_PEND or j != len(w) - 2:
                            return i
                        pending = True
            elif o == "bnext":
                if pending or sim.ag in ("done", "failed") or sim.q:
                    return i
                r, pushed = sim.access()
                if r != "pending" or pushed:
                    return i
                out = "pending"
                for k in map(int, w[2:]):
                    if not res_ok(k):
                        return i
                    x = sim.resolve(k)
                    if out == "pending" and x is not None:
                        out = x
                if out == "pending":
                    return i
            elif o in ("res", "tres"):
                k = int(w[1])
                if not res_ok(k):
                    return i
                x = sim.resolve(k)
                if pending and x is not None and x != "pending":
                    pending = False
            elif o in ("destroy", "cdestroy"):
                if pending:
                    return i
                for k in map(int, w[1:]):
                    if not res_ok(k):
                        return i
                    sim.resolve(k)
                if sim.inflight():
                    return i
                return None
            elif o == "end":
                return None
            else:
                return i
    except Exception:
        return 0
    return None


def gen_script(rng, kind, p_ar=0.0, p_yl=0.0, p_throw=0.25):
    """kind: sync-finite, async-finite, sync-inf, async-inf ; finite ones may throw at the end.
    p_ar: share of the awaits after which the source fetches its argument again (`ar`)
    p_yl: share of the yields that yield an lvalue the source looks at again (`yl`)"""
    pa = 0.0 if kind.startswith("sync") else rng.choice([0.25, 0.5])
    def acts(n, need_y=False):
        out = [("ar" if rng.random() < p_ar else "a") if rng.random() < pa else ("yl" if rng.random() < p_yl else "y")
               for _ in range(n)]
        if need_y and not any(a in YIELDS for a in out):
            out[rng.randrange(len(out))] = "yl" if rng.random() < p_yl else "y"
        return out
    if kind.endswith("inf"):
        pre = acts(rng.randint(0, 3))
        cyc = acts(rng.randint(1, 3), need_y=True)
        return pre, cyc
    pre = acts(rng.choice([0, 1, 1, 2, 2, 3, 3, 4, 5, 6]))
    if rng.random() < p_throw:
        pre.append("t%d" % rng.randint(1, 9))
    return pre, []


MODES = ["v", "v", "a", "r", "r", "s", "s", "s", "t", "t"]


def gen_case(rng, max_ops):
    n = rng.choice([0, 1, 1, 2, 2, 2, 3, 3, 3, 4, 4, 5])
    # v: no argument; a: int argument; r: argument object with tracked life time (copy/move/destroy visible);
    # s: VALUES of a tracked type whose move empties the source object; t: both
    mode = rng.choice(MODES)
    has_arg = mode in "art"
    p_ar = 0.0 if not has_arg else rng.choice([0.0, 0.5, 1.0])
    p_yl = rng.choice([0.0, 0.5, 1.0, 1.0])
    flavour = rng.random()
    # exception focus: finite sources, at least one of them throwing (after 0, 1, n values), the whole case read in ONE
    # access style and run to the end, so that every style meets the report of a failed source
    exc_focus = rng.random() < 0.2 and n > 0
    scripts = []
    for _ in range(n):
        if exc_focus:
            kind = rng.choice(["sync-finite", "async-finite"])
        elif flavour < 0.25:
            kind = rng.choice(["sync-finite", "sync-finite", "sync-inf"])
        elif flavour < 0.45:
            kind = rng.choice(["async-finite", "async-inf"])
        else:
            kind = rng.choice(["sync-finite", "async-finite", "async-finite", "sync-inf", "async-inf"])
        scripts.append(gen_script(rng, kind, p_ar, p_yl, 0.4 if exc_focus else 0.25))
    if exc_focus and not any(pre and pre[-1].startswith("t") for pre, _ in scripts):
        k = rng.randrange(n)
        pre = scripts[k][0]
        # throws after 0, 1 or all of its values
        cut = rng.choice([0, 1, len(pre)])
        scripts[k] = (pre[:cut] + ["t%d" % rng.randint(1, 9)], [])
    sim = Sim(scripts)
    lines = ["case 0 agg %s %d %s" % (mode, n, " ".join(script_text(*s) for s in scripts))]
    lines[0] = lines[0].rstrip()
    arg = 500
    thr = rng.choice([0.0, 0.3, 0.6])          # how often a second thread is used
    p_destroy = 0.0 if exc_focus else rng.choice([0.0, 0.02, 0.08])  # early destruction per step
    p_batch = rng.choice([0.0, 0.2, 0.2, 0.6])  # accesses grouped inside one consumer coroutine
    ref_ok = REF_STYLES if mode in "vs" else "nc"
    one = rng.choice(ref_ok + FUT_STYLES + "P") if exc_focus else None     # P = polled future (fnext)
    if exc_focus:
        max_ops = 200
        p_batch = 0.0 if one == "P" else rng.choice([0.0, 0.5, 1.0])

    def pick(cands):
        """a style out of cands (the case's single style if it has one and it is possible here)"""
        if one and one in cands:
            return one
        if one and one.lower() in cands:
            return one.lower()
        return rng.choice(cands)

    pending = False
    ops = 0
    after_end = 0
    while ops < max_ops:
        ops += 1
        if pending:
            fl = sim.inflight()
            if not fl:
                break      # cannot happen on a correct implementation
            k = rng.choice(fl)
            lines.append("%s %d" % ("tres" if rng.random() < thr else "res", k))
            r = sim.resolve(k)
            if r is not None and r != "pending":
                pending = False
            continue
        if sim.ag == "failed":
            break
        if sim.ag == "done":
            if after_end >= 1 or rng.random() < 0.5:
                break
            after_end += 1
            st = rng.choice(["next", "cnext", "pnext", "fnext"] + (["inext"] if mode in "vs" else []))
            if st == "pnext":
                lines.append("pnext %s %d" % (rng.choice([c for c in BLOCKING if c in ref_ok + FUT_STYLES]), arg))
            else:
                lines.append("%s %d" % (st, arg))
            arg += 1
            continue
        # parked at init / yield
        r = rng.random()
        fl = sim.inflight()
        if r < p_destroy:
            # early destruction; the in-flight sources are completed by a second thread while the destructor waits
            hs = []
            while sim.inflight():
                k = rng.choice(sim.inflight())
                hs.append(k)
                sim.resolve(k)
            # ... dropped by plain code or by a running coroutine (any consumer that uses co_await)
            lines.append((rng.choice(["destroy", "cdestroy"]) + " " + " ".join(map(str, hs))).strip())
            sim.ag = "destroyed"
            break
        if fl and r < p_destroy + 0.15:
            k = rng.choice(fl)
            lines.append("%s %d" % ("tres" if rng.random() < thr else "res", k))
            sim.resolve(k)
            continue
        # a batch: one consumer coroutine makes several accesses in a row (aggregate used from inside a coroutine)
        if rng.random() < p_batch:
            accs = []
            for _ in range(rng.randint(2, 9)):
                probe = sim.clone()
                res, _ = probe.access()
                if res == "pending":
                    accs.append("%s:%d" % (pick(MAY_PEND), arg))
                    arg += 1
                    sim.access()
                    pending = True
                    break
                accs.append("%s:%d" % (pick("nnccc" + FUT_STYLES + FUT_STYLES + ("i" if mode in "vs" else "")), arg))
                arg += 1
                sim.access()
                if res in ("end", "exc"):
                    break
            lines.append("batch " + " ".join(accs))
            continue
        # an access
        probe = sim.clone()
        q_empty = not probe.q
        res, pushed = probe.access()
        styles = ["fnext", "cnext", "B"]        # B = a batch of one access in a style that may stay pending
        if res != "pending":
            styles += ["next", "pnext", "pnext", "pnext"] + (["inext"] if mode in "vs" else [])
        elif q_empty and not pushed and rng.random() < max(thr, 0.15):
            # blocking access with a second thread completing sources
            sim.access()
            hs = []
            out = "pending"
            while out == "pending":
                k = rng.choice(sim.inflight())
                hs.append(k)
                o = sim.resolve(k)
                if o is not None:
                    out = o
            for _ in range(rng.choice([0, 0, 1, 2])):
                if sim.inflight():
                    k = rng.choice(sim.inflight())
                    hs.append(k)
                    sim.resolve(k)
            lines.append("bnext %d %s" % (arg, " ".join(map(str, hs))))
            arg += 1
            continue
        st = rng.choice(styles)
        if one:
            # the single style of the case, in the form that is possible here
            if one == "P":
                st = "fnext"
            elif one in BLOCKING and res != "pending":
                st = "pnext"
            elif one in MAY_PEND:
                st = "B"
            elif res == "pending":
                st = "B" if one.lower() in MAY_PEND else rng.choice(["fnext", "cnext"])
        if st == "pnext":
            lines.append("pnext %s %d" % (pick([c for c in BLOCKING if c in ref_ok + FUT_STYLES]), arg))
        elif st == "B":
            lines.append("batch %s:%d" % (pick(MAY_PEND), arg))
        else:
            lines.append("%s %d" % (st, arg))
        arg += 1
        res, _ = sim.access()
        pending = res == "pending"
    lines.append("end")
    return {"id": 0, "lines": lines}


# ------------------------------------------------------------------------------------------------
# trace parsing
# ------------------------------------------------------------------------------------------------

def parse_line(line):
    head, _, tail = line.partition(" ; ")
    return head.split(), tail.split()


def parse_p(words):
    for w in words:
        if w.startswith("p="):
            if w == "p=-":
                return []
            return [(int(x.rstrip("e")), x.endswith("e")) for x in w[2:].split(".")]
    return None


ACCESS = ("next", "inext", "fnext", "cnext", "bnext", "pnext")
OP_STYLE = {"next": "n", "inext": "i", "fnext": "poll", "cnext": "c", "bnext": "n"}


def style_results(case, out):
    """[(style letter, result)] of every access of the case that completed ('poll' = fnext), from the trace"""
    res = []
    pend_style = None
    for op, line in zip(case["lines"][1:], out):
        w = op.split()
        head, evs = parse_line(line)
        if not head or head[0] != w[0]:
            continue
        rs = [x for x in head[1:] if not x.startswith("p=")]
        if w[0] == "batch":
            for acc, r in zip(w[1:], rs):
                if r == "pending":
                    pend_style = acc[0]
                else:
                    res.append((acc[0], r))
        elif w[0] == "pnext" and rs:
            res.append((w[1], rs[0]))
        elif w[0] in OP_STYLE and rs:
            if rs[0] == "pending":
                pend_style = OP_STYLE[w[0]]
            else:
                res.append((OP_STYLE[w[0]], rs[0]))
        for e in evs:
            if e.startswith("got=") and pend_style:
                res.append((pend_style, e[4:]))
                pend_style = None
    return res


class AggSuite(Suite):
    name = "aggregator"
    harness = HARNESS
    driver = "drv_c14"
    corpus_prefix = "c14_"
    chunk = 40
    timeout = 240
    nontrivial_rule = "at least 2 sources and at least 3 values consumed, or an asynchronous completion, exception or early destruction"

    def gen_cases(self, rng, tier):
        n = 8000 if tier == "quick" else 500000
        cases = []
        for i in range(n):
            r = rng.random()
            max_ops = rng.randint(2, 10) if r < 0.25 else rng.randint(8, 40) if r < 0.9 else rng.randint(40, 90)
            cases.append(gen_case(rng, max_ops))
        return cases

    def nontrivial(self, case, out):
        hdr = case["lines"][0].split()
        n = int(hdr[4])
        vals = sum(1 for l in out for w in l.split() if w.startswith("v:") or w.startswith("got=v:"))
        special = any(l.split()[0] in ("res", "tres", "bnext", "destroy", "cdestroy", "batch", "pnext") for l in case["lines"][1:]) or \
            any("exc:" in l for l in out)
        return (n >= 2 and vals >= 3) or special

    def stats(self, cases, outs):
        ops, nsrc, kinds = {}, {}, {"finite": 0, "infinite": 0, "async": 0, "throwing": 0, "fetching_argument_again_after_await": 0}
        modes = {"v": 0, "a": 0, "r": 0, "s": 0, "t": 0}
        results = {"v": 0, "end": 0, "exc": 0, "pending": 0}
        kinds["yielding_an_lvalue_they_look_at_again"] = 0
        kinds["throwing_before_first_value"] = kinds["throwing_after_1_value"] = kinds["throwing_after_2_or_more_values"] = 0
        by_style = {}             # style -> {v, end, exc}
        lv_looks = lv_looks_tracked = moved_out = 0
        early = drained = codrained = late = late_after_other_access = 0
        instyles = {}
        for c in cases:
            hdr = c["lines"][0].split()
            modes[hdr[3]] = modes.get(hdr[3], 0) + 1
            nsrc[hdr[4]] = nsrc.get(hdr[4], 0) + 1
            for t in hdr[5:]:
                pre, cyc = parse_script(t)
                kinds["infinite" if cyc else "finite"] += 1
                kinds["async"] += 1 if "a" in pre + cyc or "ar" in pre + cyc else 0
                kinds["fetching_argument_again_after_await"] += 1 if hdr[3] != "v" and "ar" in pre + cyc else 0
                kinds["throwing"] += 1 if any(a.startswith("t") for a in pre) else 0
                kinds["yielding_an_lvalue_they_look_at_again"] += 1 if "yl" in pre + cyc else 0
                if any(a.startswith("t") for a in pre):
                    ny = sum(1 for a in pre if a in YIELDS)
                    kinds["throwing_before_first_value" if ny == 0 else "throwing_after_1_value" if ny == 1
                          else "throwing_after_2_or_more_values"] += 1
            for l in c["lines"][1:-1]:
                k = l.split()[0]
                ops[k] = ops.get(k, 0) + 1
                if k == "batch":
                    for a in l.split()[1:]:
                        instyles[a[0]] = instyles.get(a[0], 0) + 1
                if k in ("destroy", "cdestroy"):
                    early += 1
                    drained += 1 if len(l.split()) > 1 else 0
                    codrained += 1 if len(l.split()) > 1 and k == "cdestroy" else 0
            for st, r in style_results(c, outs.get(str(c["id"]), [])):
                d = by_style.setdefault(st, {"v": 0, "end": 0, "exc": 0})
                key = "v" if r.startswith("v:") else "exc" if r.startswith("exc:") else "end" if r == "end" else None
                if key:
                    d[key] += 1
                if key == "v" and st in FUT_STYLES + "poll" and hdr[3] in "st":
                    moved_out += 1
            charged_at = {}       # source -> index of the access line that charged it last
            for li, l in enumerate(outs.get(str(c["id"]), [])):
                if " ; " in l:
                    evs = l.partition(" ; ")[2].split()
                    for w in evs:
                        if re.match(r"a\d+=", w):
                            charged_at[w[1:w.index("=")]] = li
                    for w in evs:
                        if re.match(r"k\d+=", w):
                            lv_looks += 1
                            lv_looks_tracked += 1 if hdr[3] in "st" else 0
                    for w in evs:
                        if re.match(r"r\d+=", w):
                            late += 1
                            k = w[1:w.index("=")]
                            # another argument has been handed to the aggregate since this source was charged
                            if any(v > charged_at.get(k, -1) for kk, v in charged_at.items() if kk != k):
                                late_after_other_access += 1
                for w in l.split():
                    w = w[4:] if w.startswith("got=") else w
                    if w.startswith("v:"):
                        results["v"] += 1
                    elif w in ("end", "pending") and l.split()[0] in ACCESS + ("res", "tres", "batch"):
                        results[w] += 1
                    elif w.startswith("exc:"):
                        results["exc"] += 1
        return {"ops": ops, "sources_per_case": nsrc, "source_kinds": kinds,
                "modes(v int,a int+int arg,r int+tracked arg,s tracked VALUE type whose move empties the source,t tracked value+tracked arg)": modes,
                "results": results,
                "accesses_inside_one_consumer_coroutine(n next,i iterator,c co_await next,f co_await has_value,w if(val),x if(!val),d *val,q co_await val,j sync+value; capital = future re-used with result_of/<<)": instyles,
                "results_by_access_style(poll = fnext)": by_style,
                "yielded_lvalues_looked_at_again_by_their_source": lv_looks,
                "yielded_lvalues_looked_at_again_that_are_move_sensitive_objects": lv_looks_tracked,
                "move_sensitive_values_moved_out_of_the_future_by_the_consumer": moved_out,
                "early_destructions": early, "destructions_waiting_for_inflight_sources": drained,
                "destructions_by_a_running_coroutine_waiting_for_inflight_sources": codrained,
                "argument_fetched_again_after_await": late,
                "argument_fetched_again_after_a_later_argument_went_to_another_source": late_after_other_access}

    def oracle(self, case, out):
        """the statement of C14 evaluated on the implementation's trace.  The j-th value of source k is
        (k+1)*1000+j, so the per-source subsequences can be read off the consumed values."""
        msgs = []
        hdr = case["lines"][0].split()
        mode, n = hdr[3], int(hdr[4])
        scripts = [parse_script(t) for t in hdr[5:]]
        if len(scripts) != n:
            return msgs
        ops = case["lines"][1:]
        consumed = [0] * n            # number of values received from each source
        last_src = None               # source of the value returned last
        first_access = True
        ended_result = None           # 'end' or 'exc:c' once the consumer saw the end
        pend = False                  # an access is outstanding
        pos = [(0, False)] * n
        has_arg = mode in ("a", "r", "t")
        last_arg = {}                 # source -> the argument it received last
        lv_cursor = [(0, 0)] * n      # per source: (next act to scan, yields before it) for the `yl` values

        prefix = [[0] for _ in range(n)]      # prefix[k][p] = number of yields among the first p acts of source k

        def produced(k, upto):
            pk = prefix[k]
            while len(pk) <= upto:
                pk.append(pk[-1] + (1 if act_at(scripts[k], len(pk) - 1) in YIELDS else 0))
            return pk[upto]

        def thrown_codes():
            # sources whose body ended with a throw
            res = []
            for k in range(n):
                p, e = pos[k]
                if e and p > 0 and (act_at(scripts[k], p - 1) or "").startswith("t"):
                    res.append(int(act_at(scripts[k], p - 1)[1:]))
            return res

        def next_lvalue(k):
            """the value source k put into the next lvalue it yields (`yl` acts in script order)"""
            p, ny = lv_cursor[k]
            for _ in range(100000):
                a = act_at(scripts[k], p)
                if a is None:
                    return None
                p += 1
                if a in YIELDS:
                    ny += 1
                    if a == "yl":
                        lv_cursor[k] = (p, ny)
                        return (k + 1) * 1000 + ny - 1
            return None

        def on_result(r, where):
            nonlocal last_src, ended_result, pend
            if r.startswith("v:") and not r[2:].isdigit():
                # the consumer was handed a moved-from / destroyed object instead of a value
                msgs.append("union: the consumer received a %s object instead of a value of a source (%s)"
                            % ({"moved": "moved-from", "dead": "destroyed"}.get(r[2:], r[2:]), where))
                pend = False
                last_src = None
            elif r.startswith("v:"):
                v = int(r[2:])
                k, j = v // 1000 - 1, v % 1000
                if not (0 <= k < n):
                    msgs.append("union: value %d does not come from any source (%s)" % (v, where))
                    return
                if j < consumed[k]:
                    msgs.append("duplicate: value %d of source %d delivered again (%s)" % (v, k, where))
                elif j > consumed[k]:
                    msgs.append("order: source %d delivered value #%d before #%d (%s)" % (k, j, consumed[k], where))
                else:
                    consumed[k] += 1
                if ended_result:
                    msgs.append("end: a value was delivered after the aggregate had ended")
                last_src = k
                pend = False
            elif r == "end" or r.startswith("exc:"):
                pend = False
                if ended_result is None:
                    ended_result = r
                    # only when all sources have ended
                    for k in range(n):
                        if not pos[k][1]:
                            msgs.append("end: aggregate ended (%s) although source %d has not ended" % (r, k))
                    # every value exactly once: nothing lost
                    for k in range(n):
                        if consumed[k] != produced(k, pos[k][0]):
                            msgs.append("lost: aggregate ended but source %d yielded %d values and %d were delivered"
                                        % (k, produced(k, pos[k][0]), consumed[k]))
                    codes = thrown_codes()
                    if r == "end" and codes:
                        msgs.append("exception: a source threw (codes %s) but the aggregate ended without reporting it" % codes)
                    if r.startswith("exc:") and int(r[4:]) not in codes:
                        msgs.append("exception: consumer got %s but the sources threw %s" % (r, codes))
                last_src = None
            elif r == "pending":
                pend = True

        for opi, (op, line) in enumerate(zip(ops, out)):
            w = op.split()
            head, evs = parse_line(line)
            if not head or head[0] == "bad-op":
                continue
            if "hang" in head[1:]:
                # the harness's watchdog: the operation never returned.  Counts when the input was one the sources
                # could serve (see first_illegal); then the aggregate failed to deliver / to end / to be destroyed
                if first_illegal(case["lines"], opi) is None:
                    msgs.append("hang: `%s` never returned although the sources could serve it (no value delivered, "
                                "aggregate neither ended nor was destroyed)" % op)
                break
            if "abort" in head[1:]:
                if first_illegal(case["lines"], opi) is None:
                    msgs.append("crash: `%s` ran into a library assertion (abort); replay to see it on stderr" % op)
                break
            p = parse_p(head)
            if p is not None and len(p) == n:
                pos = p
            args_seen = []
            for m in (re.match(r"a(\d+)=(\w+)$", e) for e in evs):
                if not m:
                    continue
                if m.group(2).isdigit():
                    args_seen.append((int(m.group(1)), int(m.group(2))))
                else:
                    # `dead`: the object behind the reference has been destroyed, `moved`: it has been moved from
                    args_seen.append((int(m.group(1)), -1))
                    msgs.append("arg-routing: `%s`: source %s was handed a %s argument object instead of the argument of the access"
                                % (op, m.group(1), {"dead": "destroyed", "moved": "moved-from"}.get(m.group(2), m.group(2))))
            args_seen.sort()
            before = dict(last_arg)
            for k, a in args_seen:
                last_arg[k] = a
            # a source may look at its argument for as long as it works on the step (the generator hands out a reference):
            # whenever it does, it must find the argument that was routed to it
            for m in (re.match(r"r(\d+)=(\w+)$", e) for e in evs):
                if not m:
                    continue
                k = int(m.group(1))
                ok_vals = {str(x) for x in (before.get(k), last_arg.get(k)) if x is not None and x >= 0}
                if m.group(2) not in ok_vals:
                    msgs.append("arg-routing: `%s`: source %d fetched its argument again after an await and found %s, the argument routed to it was %s"
                                % (op, k, {"dead": "a destroyed object", "moved": "a moved-from object"}.get(m.group(2), m.group(2)),
                                   last_arg.get(k)))
            # every value a source yields is delivered, not consumed: a source that yields an lvalue it keeps using
            # (accumulator, element of a stored script) finds it as it left it, whatever the consumer's access style
            for m in (re.match(r"k(\d+)=(\w+)$", e) for e in evs):
                if not m:
                    continue
                k = int(m.group(1))
                if not 0 <= k < n:
                    continue
                want = next_lvalue(k)
                if m.group(2) != str(want):
                    msgs.append("union: `%s`: source %d yielded an lvalue holding %s (an object it keeps using) and found %s in it "
                                "afterwards: the aggregate must deliver the sources' values, not take them away"
                                % (op, k, want, {"moved": "a moved-from object", "dead": "a destroyed object"}.get(m.group(2), m.group(2))))
            expect_args = []
            if w[0] == "batch" and head[0] == "batch":
                results = [x for x in head[1:] if not x.startswith("p=")]
                for acc, r in zip(w[1:], results):
                    if has_arg and r != "nomore" and ended_result is None:
                        a = int(acc[2:])
                        if first_access:
                            expect_args += [(k, a) for k in range(n)]
                        elif last_src is not None:
                            expect_args.append((last_src, a))
                    first_access = False
                    on_result(r, op)
            if w[0] in ACCESS and head[0] == w[0] and len(head) >= 2:
                r = head[1]
                if has_arg and r != "nomore" and ended_result is None:
                    a = int(w[2] if w[0] == "pnext" else w[1])
                    if first_access:
                        expect_args = [(k, a) for k in range(n)]
                    elif last_src is not None:
                        expect_args = [(last_src, a)]
                first_access = False
                on_result(r, op)
            for e in evs:
                if e.startswith("got="):
                    if not pend:
                        msgs.append("duplicate: an access completed twice (%s)" % e)
                    on_result(e[4:], op)
            if has_arg and args_seen != sorted(expect_args):
                msgs.append("arg-routing: `%s` delivered arguments %s, expected %s (argument goes to the source returned last)"
                            % (op, args_seen, sorted(expect_args)))
            # at most one value of every source can be waiting in the aggregator
            for k in range(n):
                d = produced(k, pos[k][0]) - consumed[k]
                if d > 1 and ended_result is None:
                    msgs.append("lost: source %d has yielded %d values, only %d delivered" % (k, produced(k, pos[k][0]), consumed[k]))
            # ends when all sources have ended: no access may stay pending then
            if pend and n == sum(1 for x in pos if x[1]) and w[0] not in ("end", "destroy", "cdestroy"):
                msgs.append("end: access still pending although all %d sources have ended" % n)
            if w[0] in ("destroy", "cdestroy", "end") and head[0] == w[0]:
                if "unsettled" in evs:
                    if n == sum(1 for x in pos if x[1]):
                        msgs.append("end: access never completed although all sources have ended")
                    break
                if len(head) >= 3 and (head[1] != "frames=0" or head[2] != "guards=0"):
                    msgs.append("leak: after destruction %s %s" % (head[1], head[2]))
                break
        return msgs


FACT_RE = re.compile(r"(\w+)=(-?\w+)")


class StressSuite(Suite):
    """Real threads: one resolver thread per asynchronous source completes its awaits as fast as it can while the
    consumer blocks in next()/iterator/future.sync() on the main thread, so queue pushes race with the running or
    parked aggregator and the aggregator resumes on foreign threads.  The interleaving is not reproducible, so the
    harness prints schedule-independent facts only and there is no model comparison."""
    name = "aggregator-threads"
    harness = HARNESS
    driver = None
    compare = False
    corpus_prefix = "c14mt_"
    chunk = 10
    timeout = 240
    nontrivial_rule = "at least 2 sources, at least one of them asynchronous"

    def gen_cases(self, rng, tier):
        n = 3000 if tier == "quick" else 60000
        cases = []
        for i in range(n):
            ns = rng.choice([1, 2, 2, 3, 3, 4, 5])
            mode = rng.choice(MODES)
            p_ar = 0.0 if mode in "vs" else rng.choice([0.0, 0.5, 1.0])
            p_yl = rng.choice([0.0, 0.5, 1.0, 1.0])
            # a third of the cases: finite sources only, one of them throwing (after 0, 1, n values): the run reaches the
            # end and the consumer's style has to report the exception
            to_end = rng.random() < 0.33
            scripts = []
            for k in range(ns):
                kind = rng.choice(["async-inf", "async-inf", "async-finite", "async-finite", "sync-finite", "sync-inf"])
                if to_end:
                    kind = rng.choice(["async-finite", "async-finite", "sync-finite"])
                if k == 0 and kind.startswith("sync"):
                    kind = "async-" + kind.split("-")[1]
                pre, cyc = gen_script(rng, kind, p_ar, p_yl, 0.5 if to_end else 0.25)
                if not cyc and rng.random() < 0.5:      # longer finite sources
                    body = pre[:-1] if pre and pre[-1].startswith("t") else pre
                    tail = pre[len(body):]
                    pre = (body * rng.randint(2, 6))[:40] + tail
                scripts.append((pre, cyc))
            if to_end and rng.random() < 0.5 and not any(pre and pre[-1].startswith("t") for pre, _ in scripts):
                k = rng.randrange(ns)
                pre = scripts[k][0]
                scripts[k] = (pre[:rng.choice([0, 1, len(pre)])] + ["t%d" % rng.randint(1, 9)], [])
                if k == 0 and not any(a in ("a", "ar") for a in scripts[0][0]):
                    scripts[0] = (["a"] + scripts[0][0], [])
            limit = 800 if to_end else rng.choice([20, 100, 300, 800])
            # 0 next()/value(), 1 iterator, 2 gen()+sync()+value(), 3 coroutine co_await next(), 4 coroutine blocking next(),
            # 5 coroutine `val = gen(); while (co_await val.has_value()) { *val; val.result_of(gen); }`, 6 `if (!val) break; *val`,
            # 7 coroutine `co_await gen()`, 8 `*gen()`, 9 `if (val) *val` on one future re-used with operator<<
            style = rng.choice([0, 2, 3, 4, 5, 5, 6, 7, 8, 9] + ([1] if mode in "vs" else []))
            lines = [("case 0 agg %s %d %s" % (mode, ns, " ".join(script_text(*x) for x in scripts))).rstrip(),
                     "stress %d %d %d" % (limit, style, rng.randint(1, 10 ** 6))]
            if rng.random() < 0.5:
                lines.append("sdestroy %d" % rng.randint(1, 10 ** 6))
            lines.append("end")
            cases.append({"id": 0, "lines": lines})
        return cases

    def normalize(self, lines):
        # the positions reached by the sources depend on the schedule
        return [re.sub(r" p=\S+", "", l) for l in lines]

    def nontrivial(self, case, out):
        return int(case["lines"][0].split()[4]) >= 2

    def stats(self, cases, outs):
        res, styles, nsrc, values = {}, {}, {}, 0
        modes, late = {}, 0
        for c in cases:
            hdr = c["lines"][0].split()
            modes[hdr[3]] = modes.get(hdr[3], 0) + 1
            late += 1 if hdr[3] in "art" and any("ar" in parse_script(t)[0] + parse_script(t)[1] for t in hdr[5:]) else 0
            nsrc[c["lines"][0].split()[4]] = nsrc.get(c["lines"][0].split()[4], 0) + 1
            w = c["lines"][1].split()
            styles[w[2]] = styles.get(w[2], 0) + 1
            o = outs.get(str(c["id"]), [])
            if o:
                f = dict(FACT_RE.findall(o[0]))
                res[f.get("result", "?")] = res.get(f.get("result", "?"), 0) + 1
                values += int(f.get("got", 0)) if f.get("got", "0").isdigit() else 0
        exc_by_style = {}
        lv_cases = 0
        for c in cases:
            o = outs.get(str(c["id"]), [])
            hdr = c["lines"][0].split()
            lv_cases += 1 if any("yl" in parse_script(t)[0] + parse_script(t)[1] for t in hdr[5:]) else 0
            if o and dict(FACT_RE.findall(o[0])).get("result") == "exc":
                st = c["lines"][1].split()[2]
                exc_by_style[st] = exc_by_style.get(st, 0) + 1
        return {"sources_per_case": nsrc,
                "access_style(0 next,1 iterator,2 gen()+sync+value,3 coroutine co_await next,4 coroutine blocking next,5 coroutine co_await has_value + result_of,"
                "6 if(!val),7 coroutine co_await gen(),8 *gen(),9 if(val) + operator<<)": styles, "results": res,
                "exception_of_a_source_reported_by_style": exc_by_style,
                "cases_with_sources_yielding_an_lvalue_they_look_at_again": lv_cases,
                "values_consumed": values, "modes(v int,a int+int arg,r int+tracked arg,s tracked value,t tracked value+arg)": modes,
                "cases_with_sources_fetching_their_argument_again_after_await": late,
                "destroyed_with_resolver_threads_running": sum(1 for c in cases if c["lines"][2].startswith("sdestroy"))}

    def oracle(self, case, out):
        msgs = []
        hdr = case["lines"][0].split()
        n = int(hdr[4])
        scripts = [parse_script(t) for t in hdr[5:]]
        w = case["lines"][1].split()
        if w[0] != "stress" or len(scripts) != n:
            return msgs
        limit = int(w[1])
        if not out or not out[0].startswith("stress ") or "hang" in out[0].split():
            return ["hang: the consumer never got its values although the sources were being completed"]
        if "abort" in out[0].split():
            return ["crash: the stress run ran into a library assertion (abort)"]
        f = dict(FACT_RE.findall(out[0]))
        num = lambda k: int(f.get(k, "0"))
        if num("dup"):
            msgs.append("duplicate: %d values were delivered twice" % num("dup"))
        if num("order_bad"):
            msgs.append("order: %d values arrived before an earlier value of the same source" % num("order_bad"))
        if num("unknown"):
            msgs.append("union: %d values do not come from any source" % num("unknown"))
        if num("lost"):
            msgs.append("lost: %d sources have yielded values that were never delivered" % num("lost"))
        if num("argbad"):
            msgs.append("arg-routing: %d times a source fetched its argument again after an await and did not find the argument "
                        "it had been given (every access of the stress run carries another argument)" % num("argbad"))
        infinite = any(cyc for _, cyc in scripts)
        total = sum(sum(1 for a in pre if a in YIELDS) for pre, _ in scripts)
        throws = any(pre and pre[-1].startswith("t") for pre, _ in scripts)
        if infinite or total >= limit:
            if f.get("result") != "cut" or num("got") != limit:
                msgs.append("end: expected %d values, got result=%s after %d" % (limit, f.get("result"), num("got")))
        else:
            want = "exc" if throws else "end"
            if f.get("result") != want:
                msgs.append(("exception" if throws or f.get("result") == "exc" else "end") +
                            ": all sources are finite (%d values, throwing=%s) but the result is %s" % (total, throws, f.get("result")))
            if num("got") != total:
                msgs.append("lost: the sources yield %d values, %d were delivered before the end" % (total, num("got")))
            if num("notended"):
                msgs.append("end: the aggregate ended while %d sources had not ended" % num("notended"))
            if f.get("result") == "exc" and not num("excok"):
                msgs.append("exception: the reported exception was not thrown by any source")
        kb = sum(int(x) for l in out for x in re.findall(r"keptbad=(\d+)", l))
        if kb:
            msgs.append("union: %d times a source that had yielded an lvalue it keeps using (accumulator, script element) found it "
                        "changed afterwards: the aggregate must deliver the sources' values, not take them away" % kb)
        for l in out[1:]:
            ws = l.split()
            if ws and ws[0] in ("sdestroy", "end") and "hang" in ws[1:]:
                msgs.append("hang: destruction never returned")
            elif ws and ws[0] in ("sdestroy", "end") and len(ws) >= 3 and (ws[1] != "frames=0" or ws[2] != "guards=0"):
                msgs.append("leak: after destruction %s %s" % (ws[1], ws[2]))
        return msgs


class C14(Spec):
    pid = "C14"
    lean_modules = ["CoclsModel.Props.C14"]
    design_ref = "DESIGN.md §5 C14"
    trusted_base = ["hand-written model lean/CoclsModel/Aggregator.lean (+ the value / access-style layer AggregatorValues.lean: where the yielded "
                    "objects live, generator::unblock_future, the reading functions of future<T>) tied to generator_aggregator.h / generator.h / future.h "
                    "by differential correspondence (harness/h_aggregator.cpp vs lean/Drivers/C14.lean) on generated source scripts and access sequences",
                    "the completion queue (queue.h, C09) abstracted as a FIFO whose parked popper is woken by the next push; "
                    "generator.h (C13) and the promise/future layer (C01/C02) taken as specified"]
    technique = "Lean 4 invariant proof (induction over all operation lists of a small-step model) + differential correspondence with the real headers + thread stress"
    level_text = ("Lean 4 theorems over an executable small-step model of generator_aggregator (one step per queue lock region; completions of "
                  "asynchronous sources interleave at every step): per-source order / exactly once, union at the end, ends iff all sources ended, "
                  "exception keeps the others and is rethrown last, argument routing (incl. every later fetch of the argument through the reference "
                  "the source holds: it finds the argument routed to it, never a destroyed object or another source's argument), destructor drain waits "
                  "for every in-flight source in every destroying context and never aborts; on the value / access-style layer (values are objects that live in the "
                  "sources, the aggregate holds a pointer; nine documented access styles: next()/value(), iterator, co_await next(), and the future of gen() read by "
                  "co_await has_value(), if(val), !val, *val, co_await val, sync()+value()): no style takes a value away from its source (a source finds the lvalue "
                  "it yielded unchanged), the consumer reads exactly the delivered values, the end and a source's exception reach the consumer in every style "
                  "(necessity witnesses: a moving unblock_future, a has_value() that is false for an exception) — for every "
                  "number of sources, every script (finite or infinite) and every operation list; as-is variants of the two repaired steps (/repo 2ec61ae, "
                  "2010fed) with witness theorems; the model is tied to the headers by running both on "
                  "generated cases (0-5 scripted sources, sync/iterator/future/coroutine access from plain code and from inside one long-running consumer "
                  "coroutine (active coro_queue, blocking and co_await styles mixed; futures fresh or re-used with result_of / operator<<), VALUES of type int and of "
                  "a move-sensitive tracked type (sources yielding temporaries or lvalues they look at again; the consumer moves the value out of the future), sources "
                  "throwing after 0, 1, n values read to the end in every style, arguments of type int and of a non-trivially-copyable type whose "
                  "copies, moves and destruction are tracked, sources that fetch their argument again after an await, completions from the consumer "
                  "thread or a second thread, early destruction with in-flight sources from plain code and from a running coroutine, under ASan/LSan) "
                  "and diffing every line; property oracles run on the implementation trace")
    level_note = ("trusted: Lean kernel (axioms propext/Classical.choice/Quot.sound at most), the hand-written model, the differential harness "
                  "(sampling), queue.h / generator.h / future layer (C09/C13/C01). Thread interleavings are covered by the theorems (any interleaving of "
                  "aggregator steps and source completions is an op list) but exercised on the real code only in serialised form (second thread joined, or "
                  "blocking consumer + resolving thread where the outcome is schedule-independent) and by a thread stress suite (one resolver thread per "
                  "asynchronous source, schedule-independent facts checked by the oracle).")
    assumptions = ["the aggregate is destroyed only while it is not being accessed (parked at co_yield, before the first access, or after the end), "
                   "as generator_aggregator.h states (from plain code or from a running coroutine; the drain blocks the thread either way)",
                   "a source looks at its argument only between its resumption and its next co_yield (while it works on the step the "
                   "argument belongs to), at resumption and/or after its asynchronous waits",
                   "when several sources throw, only the exception examined last is reported (the code keeps one exception_ptr); "
                   "with infinite sources next to a throwing one the exception is never reported because the aggregate never ends",
                   "a source's asynchronous operation completes at most once and only while the source is suspended on it"]

    def suites(self):
        return [AggSuite(), StressSuite()]


SPEC = C14()
