"""Scenario generator and trace parser shared by C01 and C02 (harness/h_chain.cpp, lean/Drivers/C01.lean)."""
import itertools
import re
from vlib.runner import Suite

HARNESS = ("h_chain", ["h_chain.cpp"], {"extra_flags": ["-fno-access-control", "-I/verif/harness/shim"]})
TYPES = ["int", "void", "uptr", "ref", "counted", "vec"]
PWD_TYPES = ["int", "uptr", "counted", "vec"]      # payload types a promise_with_default<T> is instantiated with
PWD_V, PWD_VP = 77, 78                             # compile-time defaults of promise_with_default_v / _vp in the harness
RKINDS = ["value", "exc", "drop"]
WKINDS = ["coro", "sync", "cb", "hasv"]


def thread_line(rng, kind, n):
    if kind == "value":
        return "r value %d" % (10 + n)
    if kind == "exc":
        return "r exc %d" % (1 + n)
    if kind == "drop":
        return "r drop"
    if kind == "throwv":
        return "r throwv"
    if kind == "d":
        return "d"
    return "w " + kind


def make_case(threads, sched, T="int"):
    return {"id": 0, "lines": ["case 0 chain %s" % T] + threads + ["sched " + " ".join(map(str, sched)), "end"]}


def random_sched(rng, n, length):
    out = []
    while len(out) < length:
        t = rng.randrange(n)
        burst = 1 if rng.random() < 0.6 else rng.randint(2, 5)
        out += [t] * burst
    return out[:length]


def gen_random(rng, count, min_res, max_res, min_wait, max_wait):
    cases = []
    for i in range(count):
        nres = rng.randint(min_res, max_res)
        nwait = rng.randint(min_wait, max_wait)
        kinds = [rng.choice(RKINDS) for _ in range(nres)] + [rng.choice(WKINDS) for _ in range(nwait)]
        force_assign = force_bind = False
        r0 = rng.random()
        if nres == 0 and r0 < 0.35:
            force_assign = True          # nobody invokes the promise: its life ends by move-assignment of an empty promise
        elif nres == 0 and r0 < 0.7:
            force_bind = True            # ... or through promise::bind(): the bound function is called / moved and called / dropped
        elif rng.random() < 0.75 or nres == 0:
            kinds.append("d")
        rng.shuffle(kinds)
        threads = [thread_line(rng, k, j) for j, k in enumerate(kinds)]
        n = len(threads)
        sched = random_sched(rng, n, rng.randint(0, 8 * n))
        T = rng.choice(TYPES)
        if force_bind and T == "ref":
            T = "int"
        if nres and rng.random() < 0.06:
            # a payload type whose construction throws inside set_value(), after the claim
            T = "thrower"
            threads = [("r throwv" if (t.startswith("r ") and rng.random() < 0.5) else t) for t in threads]
        c = make_case(threads, sched, T)
        pwd = None
        if T in PWD_TYPES and not force_bind and rng.random() < 0.35:
            # the promise object is a promise_with_default (its destruction resolves with a default value instead of no-value):
            # the plain class with a run-time default, or (int only) the _v / _vp classes with a compile-time default
            variant = rng.choice(["def", "def", "defv", "defvp"]) if T == "int" else "def"
            pwd = (variant, {"def": 40 + rng.randrange(9), "defv": PWD_V, "defvp": PWD_VP}[variant])
            c["lines"].insert(1, "pwd %s %d" % pwd)
        if "d" not in kinds and pwd and rng.random() < 0.5:
            # the controller move-assigns the promise into a fresh promise_with_default (own default va) and destroys that one:
            # the future must get the default of the object that owned it
            va = pwd[1] if pwd[0] != "def" else 60 + rng.randrange(9)
            c["lines"].insert(len(c["lines"]) - 2, "assign-from %d" % va)
        elif "d" not in kinds and (force_assign or rng.random() < 0.5):
            # the controller ends the promise's life by move-assigning an empty promise over it (must drop the future)
            c["lines"].insert(len(c["lines"]) - 2, "assign-end")
        elif "d" not in kinds and pwd is None and T not in ("ref", "thrower") and (force_bind or rng.random() < 0.6):
            # the controller ends the promise's life through promise::bind(): the promise moves into a function object that is
            # called (one more resolver call, after all threads), moved and called, or destroyed uncalled (must drop the future);
            # `throw`: copying the bound argument throws while the function object is built (the promise is gone with it)
            c["lines"].insert(len(c["lines"]) - 2, "bind-end %s %d" % (rng.choice(["call", "move", "drop", "throw"]), 30 + rng.randrange(9)))
        cases.append(c)
    return cases


def gen_exhaustive_pairs(length=11):
    """all schedules (as 0/1 strings of the given length) of every 2-thread shape and of resolver+waiter+dtor"""
    cases = []
    shapes = []
    for a in RKINDS + ["d"]:
        for b in WKINDS:
            shapes.append([a, b])
    for a, b in itertools.combinations_with_replacement(RKINDS, 2):
        shapes.append([a, b])
    for sh in shapes:
        threads = [thread_line(None, k, j) for j, k in enumerate(sh)]
        for bits in itertools.product([0, 1], repeat=length):
            cases.append(make_case(threads, list(bits)))
    return cases


def gen_exhaustive_triples(rng, length=9, shapes_n=12):
    cases = []
    for _ in range(shapes_n):
        sh = [rng.choice(RKINDS), rng.choice(WKINDS), rng.choice(WKINDS + RKINDS + ["d"])]
        threads = [thread_line(None, k, j) for j, k in enumerate(sh)]
        for tr in itertools.product([0, 1, 2], repeat=length):
            cases.append(make_case(threads, list(tr)))
    return cases


def parse(case, out):
    """-> dict with threads (kinds), rets, obs, final, released, flags"""
    threads = [l.split() for l in case["lines"][1:] if l.split()[0] in ("r", "w", "d")]
    for l in case["lines"][1:]:
        w = l.split()
        # (the controller's end phase does not happen when the scheduled threads deadlock)
        if w[0] == "bind-end" and w[1] in ("call", "move") and "deadlock" not in out:
            threads.append(["r", "value", w[2], "(bound function called by the controller)"])
    info = {"threads": threads, "rets": {}, "obs": {}, "final": None, "released": {}, "deadlock": False,
            "crash": False, "assert": None, "ops": [], "dtor_resolved": False, "counted": None, "anomalies": []}
    for l in out:
        w = l.split()
        if not w:
            continue
        if w[0] == "ret":
            info["rets"].setdefault(int(w[1][1:]), []).append(1 if w[2] == "threw" else int(w[2]))
        elif w[0] == "obs":
            info["obs"].setdefault(int(w[1][1:]), []).append(w[2])
        elif w[0] == "final":
            info["final"] = (w[1], w[2], w[3])
        elif w[0] == "waiter":
            info["released"][int(w[1][1:])] = int(w[2].split("=")[1])
        elif w[0] == "deadlock":
            info["deadlock"] = True
        elif w[0] == "crash":
            info["crash"] = True
        elif w[0] == "assert-failed":
            info["assert"] = l
        elif w[0] == "s":
            info["ops"].append(l)
            # ~promise: `load owner ptr`; ~promise_with_default: `xchg owner ptr>null` (its set_value(def) claims)
            if (w[2:5] == ["load", "owner", "ptr"] or w[2:5] == ["xchg", "owner", "ptr>null"]) \
                    and int(w[1]) < len(threads) and threads[int(w[1])][0] == "d":
                info["dtor_resolved"] = True
        elif w[0] in ("counted", "thrower"):
            info["counted"] = l
        elif w[0] == "anomaly":
            info["anomalies"].append(l)
    return info


def end_outcome(case, T):
    """what the end of the promise's life (destruction, or move-assignment of another promise over it) resolves the future to
    when no call has won: no-value for a plain promise, the default value for a promise_with_default (also after it was
    move-assigned into another promise_with_default object: the default travels with the ownership)"""
    lines = [l.split() for l in case["lines"]]
    pwd = next((l for l in lines if l[0] == "pwd"), None)
    if pwd is None:
        return "canceled"
    return "v:" + pwd[2]


def expected_result(case, info, T):
    """the result the statement demands: the payload of the unique winner (a call that reported success, else the end of the
    promise's life); None when the trace has no unique winner (reported separately)"""
    wins = [t for t, r in info["rets"].items() if 1 in r]
    if len(wins) > 1:
        return None
    if len(wins) == 1:
        return expected_outcome(info["threads"][wins[0]], T)
    return end_outcome(case, T)


def expected_outcome(tline, T):
    if tline[1] == "throwv":
        return "canceled"
    if tline[1] == "value":
        return "v" if T == "void" else "v:" + tline[2]
    if tline[1] == "exc":
        return "exc:" + tline[2]
    return "canceled"


class ChainSuite(Suite):
    harness = HARNESS
    driver = "drv_c01"
    chunk = 400
    timeout = 600
    nontrivial_rule = "the effective interleaving (sequence of synchronising operations) differs from every other case and contains a context switch"

    def distinct_key(self, case, out):
        return case["lines"][0].split()[3] + "|" + "|".join(l for l in case["lines"][1:-1] if not l.startswith("sched")) + "|" + "|".join(l for l in out if l.startswith("s "))

    def nontrivial(self, case, out):
        tids = [l.split()[1] for l in out if l.startswith("s ")]
        return sum(1 for a, b in zip(tids, tids[1:]) if a != b) >= 2

    def stats(self, cases, outs):
        shapes, types, switches, dl = {}, {}, 0, 0
        for c in cases:
            k = " ".join(sorted((l.split()[1] if l.split()[0] in ("r", "w") else l.split()[0]) for l in c["lines"][1:-2]))
            shapes[k] = shapes.get(k, 0) + 1
            T = c["lines"][0].split()[3]
            types[T] = types.get(T, 0) + 1
            o = outs.get(str(c["id"]), [])
            tids = [l.split()[1] for l in o if l.startswith("s ")]
            switches += sum(1 for a, b in zip(tids, tids[1:]) if a != b)
            dl += 1 if "deadlock" in o else 0
        top = dict(sorted(shapes.items(), key=lambda kv: -kv[1])[:12])
        # API spellings / resolver kinds selected by the input (see harness/h_chain.cpp)
        sp = {"bind-end": 0, "pwd def": 0, "pwd defv": 0, "pwd defvp": 0, "pwd destroyed by a d thread": 0, "assign-from": 0, "assign-end": 0,
              "value via operator()": 0, "value via static set/resolve (derived class)": 0, "throwv": 0}
        syncs = ["wait", "force_wait", "sync+value", "force_sync+value", "join", "operator*"]
        excs = ["operator()(temporary)", "operator()(named)", "set_value(const named)", "set_exception", "unhandled_exception"]
        for c in cases:
            ls = [l.split() for l in c["lines"][1:-1]]
            th = [l for l in ls if l[0] in ("r", "w", "d")]
            for l in ls:
                if l[0] == "pwd":
                    sp["pwd " + l[1]] += 1
                    if any(t[0] == "d" for t in th):
                        sp["pwd destroyed by a d thread"] += 1
                elif l[0] == "bind-end":
                    sp["bind-end"] += 1
                    sp["bind-end " + l[1]] = sp.get("bind-end " + l[1], 0) + 1
                elif l[0] in ("assign-from", "assign-end"):
                    sp[l[0]] += 1
                    if l[0] == "assign-end" and any(x[0] == "pwd" for x in ls):
                        sp["assign-end over a pwd (assign-over)"] = sp.get("assign-end over a pwd (assign-over)", 0) + 1
            for i, t in enumerate(th):
                if t[:2] == ["w", "sync"]:
                    k = "sync waiter via " + syncs[i % 6]
                    sp[k] = sp.get(k, 0) + 1
                elif t[:2] == ["r", "value"]:
                    sp["value via static set/resolve (derived class)" if int(t[2]) % 3 == 2 else "value via operator()"] += 1
                elif t[:2] == ["r", "exc"]:
                    k = "exc via " + excs[int(t[2]) % 5]
                    sp[k] = sp.get(k, 0) + 1
                elif t[:2] == ["r", "throwv"]:
                    sp["throwv"] += 1
        return {"value_types": types, "distinct_shapes": len(shapes), "top_shapes": top,
                "context_switches_total": switches, "deadlocks_reported": dl, "spellings": sp}
