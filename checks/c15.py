"""C15 — signal: every waiting listener gets every value; disconnect wakes all."""
import re
from vlib.runner import Spec, Suite

HARNESS = ("h_signal", ["h_signal.cpp"], {})

FLAVOURS = ["val", "rv", "lv", "conv"]
# obj cases (signal<reading>): the same four overloads with a value whose construction THROWS.  val = const lvalue through the
# in-place overload (copy), rv = rvalue overload (move), conv = in-place construction from arguments; lvx = lvalue reference to
# an object that cannot be copied: nothing is constructed, the call cannot fail.
FAILING = ["valx", "rvx", "convx"]


def must_fail(obj, fl):
    return obj and fl in FAILING


def parse_line(line):
    """'head ; e1 e2' -> (head words, {listener id: [event text in order]}, {listener id: 'L'|'C'})"""
    head, _, tail = line.partition(" ; ")
    evs, kinds = {}, {}
    for e in tail.split():
        m = re.match(r"([LC])(\d+):(.*)$", e)
        if not m:
            raise ValueError("unparsable event %r" % e)
        i = int(m.group(2))
        evs.setdefault(i, []).append(m.group(3))
        kinds[i] = m.group(1)
    return head.split(), evs, kinds


class Prop:
    """The statement of C15 evaluated on one implementation trace.

    Bookkeeping is the property's own vocabulary: who is *waiting* (awaiting the emitter / connected and not yet
    answered false), who is connected, what was emitted.  A listener whose suspend point was not flushed before the
    next collector call / before disconnection (the test broke the documented contract) is `tainted`: the property
    then only demands that it is resumed exactly once with *some* emitted value or the cancellation."""

    def __init__(self, void, hook=False, obj=False):
        self.void = void
        self.obj = obj
        self.failed = 0               # collector calls that threw
        self.failed_waiting = 0       # listeners (coroutines + callbacks) waiting at such a call
        self.dead_reads = 0
        self.hook_pending = hook      # no signal yet: created by the first listener's hook_up()
        self.alive = True
        self.hs = [True]
        self.ls = {}          # id -> dict
        self.next_id = 0
        self.held = []        # list of lists of ids
        self.emitted = set()
        self.msgs = []
        self.unflushed_emits = 0
        self.deliveries = 0
        self.cancels = 0

    # ---- helpers -------------------------------------------------------------------------------
    def waiting(self, kind):
        return sorted(i for i, l in self.ls.items() if l["kind"] == kind and l["state"] == "waiting")

    def pop(self, evs, i):
        q = evs.get(i)
        if q:
            return q.pop(0)
        return None

    def new_listener(self, script):
        i = self.next_id
        self.next_id += 1
        self.ls[i] = {"kind": "L", "script": "" if script == "-" else script, "pc": 0, "state": "new", "exp": None, "tainted": False,
                      "conn": True}       # conn: its emitter denotes the signal (False: an emitter without state)
        return i

    def await_emitter(self, i, evs, connected=True):
        l = self.ls[i]
        if not connected:
            l["conn"] = False
        if l["conn"] and self.alive:
            l["state"] = "waiting"
            return
        e = self.pop(evs, i)
        if e != "canceled":
            self.msgs.append("await-disconnected: L%d awaited a disconnected emitter and observed %s instead of "
                             "await_canceled_exception at once" % (i, e))
        else:
            self.cancels += 1
        l["state"] = "done"

    def after_value(self, i, evs):
        l = self.ls[i]
        a = l["script"][l["pc"]] if l["pc"] < len(l["script"]) else "r"
        l["pc"] += 1
        if a == "x":
            l["state"] = "done"
        elif a == "g":
            l["state"] = "gated"
        else:
            self.await_emitter(i, evs)

    def resume(self, i, evs):
        """listener i (released) is resumed now: it must observe exactly what it was released with"""
        l = self.ls[i]
        e = self.pop(evs, i)
        if e is None:
            self.msgs.append("lost: L%d was waiting, was released, but did not run when its suspend point was flushed" % i)
            l["state"] = "lost"
            return
        exp = l["exp"]
        if not l["tainted"]:
            if e != exp:
                self.msgs.append("wrong-value: L%d released with %s observed %s" % (i, exp, e))
        else:
            # outside the contract a listener may even be handed the copy that a later failed by-value call destroyed
            if e == "vdead":
                self.dead_reads += 1
            elif e != "canceled" and not (e.startswith("v") and e[1:].isdigit() and int(e[1:]) in self.emitted):
                self.msgs.append("wrong-value: L%d observed %s which was never emitted" % (i, e))
        if e == "canceled":
            l["state"] = "done"
            self.cancels += 1
        else:
            self.deliveries += 1
            self.after_value(i, evs)

    def taint_outstanding(self):
        n = 0
        for l in self.ls.values():
            if l["state"] == "released":
                l["tainted"] = True
                n += 1
        return n

    def emit(self, v, evs, relcount):
        """one collector call; returns the list of coroutine listeners released by it"""
        if self.taint_outstanding():
            self.unflushed_emits += 1
        self.emitted.add(v)
        txt = "v%d" % v
        for c in self.waiting("C"):
            l = self.ls[c]
            e = self.pop(evs, c)
            if e == "deadcall":
                # the value was "delivered" by calling a callable that no longer exists (connect() of an lvalue callable which
                # its owner has destroyed since): the connected callback did not get the value
                self.msgs.append("dead-callback: %s was delivered to connected callback C%d by calling a callable that had been "
                                 "destroyed (the connection does not own its callback)" % (txt, c))
            elif e != txt:
                self.msgs.append("missed: connected callback C%d was not called with %s (observed %s)" % (c, txt, e))
            else:
                self.deliveries += 1
            if l["left"] > 0:
                l["left"] -= 1
            else:
                e2 = self.pop(evs, c)
                if e2 != "free":
                    self.msgs.append("callback-release: C%d answered false but was not released (observed %s)" % (c, e2))
                l["state"] = "done"
        w = self.waiting("L")
        if relcount is not None and relcount != len(w):
            self.msgs.append("missed: collector call released %d of the %d waiting coroutine listeners" % (relcount, len(w)))
        for i in w:
            self.ls[i]["state"] = "released"
            self.ls[i]["exp"] = txt
            self.ls[i]["tainted"] = False
        return w

    def emit_failed(self, fl):
        """one collector call that threw (its value could not be constructed): a failed emission delivers nothing and loses
        nobody - whoever was waiting is still waiting (nothing to do here: any observation made during this operation is
        flagged as `duplicate` at the end of the operation, anybody lost shows at the next call / at disconnection).  It is a
        collector call all the same: listeners of an earlier call that have not been flushed are outside the contract."""
        if self.taint_outstanding():
            self.unflushed_emits += 1
        self.failed += 1
        self.failed_waiting += len(self.waiting("L")) + len(self.waiting("C"))
        if not must_fail(self.obj, fl):
            self.msgs.append("missed: a collector call (%s) whose value can be constructed failed with an exception: nothing was "
                             "delivered to the %d waiting listener(s)" % (fl, len(self.waiting("L")) + len(self.waiting("C"))))

    def disconnect(self, evs):
        """the last handle is gone; returns the coroutine listeners that have to be resumed with the cancellation"""
        self.taint_outstanding()
        self.alive = False
        for c in self.waiting("C"):
            e = self.pop(evs, c)
            if e != "free":
                self.msgs.append("callback-release: C%d still connected at disconnection was not released (observed %s)" % (c, e))
            self.ls[c]["state"] = "done"
        w = self.waiting("L")
        for i in w:
            self.ls[i]["state"] = "released"
            self.ls[i]["exp"] = "canceled"
            self.ls[i]["tainted"] = False
        return w

    def drop_one(self, k, evs):
        self.hs[k] = False
        if not any(self.hs):
            return self.disconnect(evs)
        return []

    # ---- one operation --------------------------------------------------------------------------
    def op(self, w, head, evs):
        k = w[0]
        if self.hook_pending and k != "end":
            if k in ("hlisten", "hlisten0"):
                # hook_up contract: the coroutine is subscribed BEFORE the registration function gets the collector, so a
                # value the registration function emits synchronously finds it waiting.  Those calls are made inside the
                # listener's own await_suspend: it can only run after that returned (flush at the end of this operation),
                # and a second call / dropping the collector in between is outside the Flushed contract (tainted).
                self.hook_pending = False
                keep = k == "hlisten"
                i = self.new_listener(w[1])
                self.await_emitter(i, evs)
                m = re.match(r"rel=([\d,!]+)$", head[2]) if len(head) > 2 else None
                counts = m.group(1).split(",") if m else []
                queued, n = [], 0
                for tok in w[2:]:
                    if tok == "keep":
                        keep = True
                    elif tok == "drop":
                        keep = False
                    elif tok.count(":") == 2:
                        if n < len(counts) and counts[n] == "!":
                            self.emit_failed(tok.split(":")[1])
                        else:
                            queued += self.emit(int(tok.split(":")[2]), evs, int(counts[n]) if n < len(counts) and counts[n].isdigit() else None)
                        n += 1
                if not keep:
                    queued += self.drop_one(0, evs)
                for j in queued:
                    self.resume(j, evs)
            return
        if k in ("listen", "alisten"):
            i = self.new_listener(w[1])
            self.await_emitter(i, evs)
        elif k == "assign":
            # emitter::operator= while the listener is busy elsewhere: only what its emitter denotes changes; the harness
            # says bad-op when the target is not at its gate / has no reachable emitter / the source does not exist
            if head and head[0] == "assign":
                l = self.ls.get(int(w[1]))
                if l is None or l["kind"] != "L" or l["state"] != "gated":
                    self.msgs.append("harness: assign accepted for a listener that is not busy at its gate")
                elif w[2] == "live":
                    l["conn"] = True
                elif w[2] in ("none", "moved"):
                    l["conn"] = False
                elif w[2] == "copy":
                    l["conn"] = self.ls[int(w[3])]["conn"]
        elif k == "connect0":
            # connect() through a signal object that has no state: nothing to wait for, released at once, never called
            i = self.next_id
            self.next_id += 1
            self.ls[i] = {"kind": "C", "left": int(w[1]), "state": "done"}
            e = self.pop(evs, i)
            if e != "free":
                self.msgs.append("callback-release: C%d connected through a signal without state was not released at once "
                                 "(observed %s)" % (i, e))
        elif k == "listen0":
            i = self.new_listener(w[1])
            self.await_emitter(i, evs, connected=False)
        elif k == "tlisten":
            for sc in w[1:]:
                i = self.new_listener(sc)
                self.await_emitter(i, evs)
        elif k in ("connect", "connectl"):
            # connectl: the callable is an lvalue which the caller destroys as soon as connect() has returned; the callback is
            # connected (and waiting) all the same: it is released when it answers false or at disconnection, not before
            if self.alive:
                i = self.next_id
                self.next_id += 1
                self.ls[i] = {"kind": "C", "left": int(w[1]), "state": "waiting"}
                if evs.get(i) and evs[i][0] == "free":
                    evs[i].pop(0)
                    self.msgs.append("callback-release: C%d was released while it is connected and waiting (the connection does "
                                     "not own its callback: it went away with the caller's object)" % i)
        elif k == "emit":
            if self.alive and len(head) > 1 and head[1] == "threw":
                self.emit_failed(w[1])        # no suspend point was returned: nothing is held
            elif self.alive:
                m = re.match(r"rel=(\d+)$", head[1]) if len(head) > 1 else None
                rel = self.emit(int(w[2]), evs, int(m.group(1)) if m else None)
                if len(w) > 3 and w[3] == "hold":
                    self.held.append(rel)
                else:
                    for i in rel:
                        self.resume(i, evs)
        elif k == "flush":
            if self.held:
                for i in self.held.pop(0):
                    self.resume(i, evs)
        elif k == "burst":
            counts = head[1][4:].split(",") if len(head) > 1 and head[1].startswith("rel=") else []
            queued = []
            for n, tok in enumerate(w[1:]):
                if tok == "X":
                    if self.alive:
                        self.hs = [False] * len(self.hs)
                        queued += self.disconnect(evs)
                    continue
                if not self.alive:
                    continue
                mode, fl, v = tok.split(":")
                if n < len(counts) and counts[n] == "!":
                    self.emit_failed(fl)
                    continue
                cnt = int(counts[n]) if n < len(counts) and counts[n].isdigit() else None
                rel = self.emit(int(v), evs, cnt)
                queued += rel
                if mode == "a" and rel:
                    for i in queued:
                        self.resume(i, evs)
                    queued = []
            for i in queued:
                self.resume(i, evs)
        elif k in ("newcol", "newsig"):
            if self.alive:
                self.hs.append(True)
        elif k == "drop":
            kk = int(w[1])
            if kk < len(self.hs) and self.hs[kk]:
                for i in self.drop_one(kk, evs):
                    self.resume(i, evs)
        elif k == "wake":
            i = int(w[1])
            if i in self.ls and self.ls[i].get("state") == "gated":
                self.await_emitter(i, evs)
        elif k == "end":
            while self.held:
                for i in self.held.pop(0):
                    self.resume(i, evs)
            if self.alive:
                self.hs = [False] * len(self.hs)
                for i in self.disconnect(evs):
                    self.resume(i, evs)
            for i in sorted(i for i, l in self.ls.items() if l.get("state") == "gated"):
                self.await_emitter(i, evs)
            m = re.match(r"live=(\d+)$", head[1]) if len(head) > 1 else None
            m2 = re.match(r"cbs=(\d+)$", head[2]) if len(head) > 2 else None
            if not m or int(m.group(1)) != 0:
                self.msgs.append("hang: %s listener coroutine(s) still suspended after the last handle is gone" % (m.group(1) if m else "?"))
            if not m2 or int(m2.group(1)) != 0:
                self.msgs.append("callback-release: %s callback instance(s) never released" % (m2.group(1) if m2 else "?"))
        # exactly once: nothing else may have been observed during this operation
        for i, q in evs.items():
            if q:
                self.msgs.append("duplicate: listener %d observed %s although it was not waiting (or observed it twice)" % (i, q))


def run_prop(case, out):
    hdr = case["lines"][0].split()
    p = Prop(void=len(hdr) > 3 and hdr[3] == "void", hook=len(hdr) > 4 and hdr[4] == "hook", obj=len(hdr) > 3 and hdr[3] == "obj")
    for opl, line in zip(case["lines"][1:], out):
        w = opl.split()
        head, evs, kinds = parse_line(line)
        if head and head[0] == "bad-op" and w[0] not in ("emit", "connect", "connectl", "newcol", "newsig", "drop", "wake", "flush", "assign") and not p.hook_pending:
            p.msgs.append("harness: unexpected bad-op for %r" % opl)
        p.op(w, head, evs)
        for i, kd in kinds.items():
            if i in p.ls and p.ls[i]["kind"] != kd:
                p.msgs.append("harness: event kind mismatch for listener %d" % i)
    if len(out) < len(case["lines"]) - 1:
        p.msgs.append("harness: truncated output")
    return p


class SigSuite(Suite):
    name = "signal-sequential"
    harness = HARNESS
    driver = "drv_c15"
    corpus_prefix = "c15_"
    chunk = 40
    nontrivial_rule = "at least one value delivered to a waiting listener and at least one cancellation"

    def gen_case(self, rng, big=False, kind=None):
        void = rng.random() < 0.25
        flushed = rng.random() < 0.6
        hook = rng.random() < 0.12
        nops = rng.randint(4, 12) if rng.random() < 0.3 else rng.randint(10, 40)
        if big:
            nops = rng.randint(40, 120)
        if kind is None:
            kind = "void" if void else "obj" if rng.random() < 0.45 else "int"
        void, obj = kind == "void", kind == "obj"
        pfail = rng.choice([0.1, 0.25, 0.25, 0.5]) if obj else 0.0
        lines = ["case 0 sig %s%s" % (kind, " hook" if hook else "")]
        v = [10]
        st = {"nlist": 0, "dead": False}
        gate_ids = []       # listeners whose script contains a gate
        hs = [True]

        def val():
            if void:
                return 0
            v[0] += 1
            return v[0]

        def script():
            r = rng.random()
            if r < 0.35:
                return "-"
            if r < 0.5:
                return "r" * rng.randint(0, 3) + "x"
            if r < 0.65:
                return "g" * rng.randint(1, 3)
            return "".join(rng.choice("rrrgx") for _ in range(rng.randint(1, 6)))

        def flav():
            if obj:
                r = rng.random()
                if r < pfail:
                    return rng.choice(FAILING)
                if r < pfail + 0.05:
                    return "lvx"
            return rng.choice(FLAVOURS)

        def listen(kind="listen"):
            if kind == "listen" and rng.random() < 0.2:
                kind = "alisten"
            sc = script()
            if "g" in sc:
                gate_ids.append(st["nlist"])
            lines.append("%s %s" % (kind, sc))
            st["nlist"] += 1

        def connect():
            # a third of the callbacks are passed as an lvalue functor which the caller destroys right after connect()
            lines.append("%s %d" % ("connectl" if rng.random() < 0.33 else "connect", rng.choice([0, 0, 1, 2, 3, 5, 100])))
            if not st["dead"]:
                st["nlist"] += 1

        if hook:
            # registration function: replays 0/1/2 values synchronously (any flavour), keeps or drops the collector
            reg = ["e:%s:%d" % (flav(), val()) for _ in range(rng.choice([0, 0, 1, 1, 1, 2]))]
            dropit = rng.random() < 0.15
            listen("hlisten0" if dropit and rng.random() < 0.5 else "hlisten")
            if lines[-1].startswith("hlisten0"):
                lines[-1] += "".join(" " + t for t in reg)
            else:
                lines[-1] += "".join(" " + t for t in reg) + (" drop" if dropit else rng.choice(["", " keep"]))
            if dropit:
                st["dead"] = True
                hs[0] = False
        # start with a few listeners most of the time
        for _ in range(rng.choice([0, 1, 2, 2, 3, 5, 8] if not big else [4, 8, 12])):
            if rng.random() < 0.7:
                listen()
            else:
                connect()
        after_death = 0
        for _ in range(nops):
            if st["dead"]:
                after_death += 1
                if after_death > 3 and rng.random() < 0.5:
                    break
            r = rng.random()
            if r < 0.34:
                if flushed:
                    if rng.random() < 0.15:
                        # held, but flushed before the next collector call: still within the contract
                        lines.append("emit %s %d hold" % (flav(), val()))
                        for _ in range(rng.randint(0, 2)):
                            k = rng.random()
                            if k < 0.4:
                                lines.append("listen %s" % script_nogate(rng))
                                st["nlist"] += 1
                            elif k < 0.7:
                                connect()
                            elif not st["dead"]:
                                lines.append("newcol")
                                hs.append(True)
                        lines.append("flush")
                    else:
                        lines.append("emit %s %d" % (flav(), val()))
                elif rng.random() < 0.5:
                    lines.append("emit %s %d" % (flav(), val()))
                else:
                    lines.append("emit %s %d hold" % (flav(), val()))
            elif r < 0.46:
                listen()
            elif r < 0.52:
                n = rng.randint(1, 4)
                scs = [script() for _ in range(n)]
                for j, sc in enumerate(scs):
                    if "g" in sc:
                        gate_ids.append(st["nlist"] + j)
                lines.append("tlisten " + " ".join(scs))
                st["nlist"] += n
            elif r < 0.60:
                connect()
            elif r < 0.68:
                toks = []
                for _ in range(rng.randint(1, 5)):
                    if not flushed and rng.random() < 0.06:
                        toks.append("X")
                    else:
                        mode = "a" if flushed or rng.random() < 0.5 else "d"
                        toks.append("%s:%s:%d" % (mode, flav(), val()))
                lines.append("burst " + " ".join(toks))
                if "X" in toks:
                    st["dead"] = True
                    hs[:] = [False] * len(hs)
            elif r < 0.75:
                if gate_ids and rng.random() < 0.9:
                    lines.append("wake %d" % rng.choice(gate_ids))
                else:
                    lines.append("wake %d" % rng.randint(0, max(st["nlist"], 1)))
            elif r < 0.81:
                if not st["dead"] or rng.random() < 0.2:
                    lines.append(rng.choice(["newcol", "newsig"]))
                    if not st["dead"]:
                        hs.append(True)
            elif r < 0.88:
                livek = [k for k, a in enumerate(hs) if a]
                if livek and (len(livek) > 1 or rng.random() < (0.15 if big else 0.3)):
                    k = rng.choice(livek)
                    hs[k] = False
                    lines.append("drop %d" % k)
                    if not any(hs):
                        st["dead"] = True
                elif rng.random() < 0.1:
                    lines.append("drop %d" % rng.randint(0, len(hs)))
            elif r < 0.905:
                lines.append("flush")
            elif r < 0.92:
                if gate_ids and rng.random() < 0.9:
                    tgt = rng.choice(gate_ids)
                else:
                    tgt = rng.randint(0, max(st["nlist"], 1))
                src = rng.choice(["live", "live", "none", "moved", "self", "copy %d" % rng.randint(0, max(st["nlist"], 1))])
                lines.append("assign %d %s%s" % (tgt, src, " mv" if src in ("live", "none", "moved") and rng.random() < 0.3 else ""))
                if rng.random() < 0.7:
                    lines.append("wake %d" % tgt)
            elif r < 0.94:
                lines.append("listen0 %s" % script())
                st["nlist"] += 1
            elif r < 0.95:
                lines.append("connect0 %d" % rng.choice([0, 1, 5]))
                st["nlist"] += 1
            else:
                listen()
                if not st["dead"]:
                    lines.append("emit %s %d" % (flav(), val()))
        lines.append("end")
        return {"id": 0, "lines": lines}

    def gen_cases(self, rng, tier):
        n = 4000 if tier == "quick" else 150000
        return [self.gen_case(rng, big=(i % 25 == 24)) for i in range(n)]

    def nontrivial(self, case, out):
        txt = " ".join(out)
        return ":v" in txt and ":canceled" in txt

    def stats(self, cases, outs):
        ops, flav = {}, {}
        st = {"cases_void": 0, "cases_int": 0, "values_delivered": 0, "cancellations": 0, "callback_frees": 0,
              "emits_with_unflushed_listeners": 0, "cases_with_contract_violation": 0, "max_listeners": 0,
              "thread_subscribed_listeners": 0, "bad_ops": 0, "cases_obj": 0, "failed_emissions": 0,
              "listeners_waiting_at_failed_emissions": 0, "cases_with_failed_emission_then_delivery_or_cancel": 0,
              "destroyed_value_reads_outside_contract": 0}
        for c in cases:
            hdr = c["lines"][0].split()
            st["cases_void" if len(hdr) > 3 and hdr[3] == "void" else "cases_obj" if len(hdr) > 3 and hdr[3] == "obj" else "cases_int"] += 1
            for l in c["lines"][1:-1]:
                w = l.split()
                ops[w[0]] = ops.get(w[0], 0) + 1
                if w[0] == "emit":
                    flav[w[1] + ("/hold" if len(w) > 3 else "")] = flav.get(w[1] + ("/hold" if len(w) > 3 else ""), 0) + 1
                if w[0] == "burst":
                    for t in w[1:]:
                        key = "burst/" + (t if t == "X" else t[0] + ":" + t.split(":")[1])
                        flav[key] = flav.get(key, 0) + 1
                if w[0] == "tlisten":
                    st["thread_subscribed_listeners"] += len(w) - 1
                if w[0] == "assign":
                    key = "assign/" + w[2] + ("/mv" if w[-1] == "mv" else "")
                    flav[key] = flav.get(key, 0) + 1
                if w[0] in ("hlisten", "hlisten0"):
                    ne = sum(1 for t in w[2:] if t.count(":") == 2)
                    key = "hook_up/%d-emits-in-registration/%s" % (ne, "drop" if (w[0] == "hlisten0" or "drop" in w[2:]) else "keep")
                    flav[key] = flav.get(key, 0) + 1
            o = outs.get(str(c["id"]), [])
            txt = " ".join(o)
            st["callback_frees"] += txt.count(":free")
            st["bad_ops"] += sum(1 for l in o if l.startswith("bad-op"))
            st["assigns_accepted"] = st.get("assigns_accepted", 0) + sum(1 for l in o if l.startswith("assign"))
            try:
                p = run_prop(c, o)
                st["values_delivered"] += p.deliveries
                st["cancellations"] += p.cancels
                st["emits_with_unflushed_listeners"] += p.unflushed_emits
                st["cases_with_contract_violation"] += 1 if p.unflushed_emits else 0
                st["max_listeners"] = max(st["max_listeners"], p.next_id)
                st["failed_emissions"] += p.failed
                st["listeners_waiting_at_failed_emissions"] += p.failed_waiting
                st["destroyed_value_reads_outside_contract"] += p.dead_reads
                st["cases_with_failed_emission_then_delivery_or_cancel"] += 1 if p.failed_waiting and (p.deliveries or p.cancels) else 0
            except Exception:
                pass
        st["ops"] = ops
        st["emit_flavours"] = flav
        return st

    def oracle(self, case, out):
        msgs = run_prop(case, out).msgs
        if msgs:
            self.oracle_failed = True
        return msgs


class RaceSuite(Suite):
    """real threads: listeners / callbacks subscribe on their own threads while the collector thread emits or destroys
    the last handle.  No model run (the interleaving is the OS's); the oracle is the property on the canonical summary."""
    name = "signal-race"
    harness = HARNESS
    driver = None
    compare = False
    corpus_prefix = "c15race_"
    chunk = 6
    nontrivial_rule = "at least two subscriber threads"

    def gen_cases(self, rng, tier):
        n = 300 if tier == "quick" else 8000
        cases = []
        for _ in range(n):
            nsub = rng.randint(1, 6)
            ncb = rng.choice([0, 0, 1, 2])
            if rng.random() < 0.65:
                hdr = "case 0 race emit %d %d %d %d" % (nsub, ncb, rng.choice([0, 1, 3, 10, 50]), rng.randint(1, 10 ** 6))
            else:
                hdr = "case 0 race drop %d %d %d" % (nsub, ncb, rng.randint(1, 10 ** 6))
            cases.append({"id": 0, "lines": [hdr, "end"]})
        return cases

    def normalize(self, lines):
        return [l for l in lines if not l.startswith("#")]

    def nontrivial(self, case, out):
        w = case["lines"][0].split()
        return int(w[4]) + int(w[5]) >= 2

    def stats(self, cases, outs):
        st = {"emit_races": 0, "drop_races": 0, "subscriber_threads": 0, "callback_threads": 0}
        for c in cases:
            w = c["lines"][0].split()
            st["emit_races" if w[3] == "emit" else "drop_races"] += 1
            st["subscriber_threads"] += int(w[4])
            st["callback_threads"] += int(w[5])
        return st

    def oracle(self, case, out):
        msgs = []
        w = case["lines"][0].split()
        nsub, ncb = int(w[4]), int(w[5])
        seen = set()
        for l in out:
            f = l.split()
            kv = dict(x.split("=") for x in f[1:] if "=" in x)
            if f[0] == "end":
                seen.add("end")
                if kv.get("live") != "0":
                    msgs.append("hang: %s listener coroutine(s) never resumed after the last handle was destroyed" % kv.get("live"))
                continue
            seen.add(f[0])
            if kv.get("contiguous") != "1":
                msgs.append("missed: %s observed a sequence with a gap, a duplicate or out of order although it only re-awaits" % f[0])
            if kv.get("upto_last") != "1":
                msgs.append("missed: %s did not observe the values up to the last one emitted" % f[0])
            if kv.get("inrange") != "1":
                msgs.append("wrong-value: %s observed a value that was never emitted" % f[0])
            if f[0].startswith("L"):
                if kv.get("canceled") != "1":
                    msgs.append("hang: %s observed %s cancellations at disconnection instead of exactly one" % (f[0], kv.get("canceled")))
                if kv.get("after_cancel") != "0":
                    msgs.append("duplicate: %s observed a value after the cancellation" % f[0])
            else:
                if kv.get("frees") != "1" or kv.get("live") != "0":
                    msgs.append("callback-release: %s released %s times, %s instances alive" % (f[0], kv.get("frees"), kv.get("live")))
        want = {"L%d" % i for i in range(nsub)} | {"C%d" % i for i in range(ncb)} | {"end"}
        if seen != want:
            msgs.append("harness: missing summary lines %s" % sorted(want - seen))
        return msgs


T_HARNESS = ("h_signal_t", ["h_signal_t.cpp"], {"extra_flags": ["-fno-access-control", "-I/verif/harness/shim"]})


def linearise(case, out):
    """Baton trace -> the equivalent sequential history in the grammar of h_signal.cpp, ordered by the linearisation
    points (first successful CAS of a listener = `listen`/`connect`, the collector's exchange = `emit`, the
    destructor's exchange = `drop`).  Observations are attached to the operation that caused them: a value to the
    collector call that emitted it (values are unique), a cancellation to the disconnection (or to the listener's own
    `listen` when it found the emitter already disconnected), a release to the call on which the callback answered false
    or to the disconnection.  Returns (S-case, S-output) or raises ValueError on an unparsable trace."""
    threads = [l.split() for l in case["lines"] if l.startswith("t ")]
    kind = {i: t[1] for i, t in enumerate(threads)}
    arg = {i: (t[2] if len(t) > 2 else "-") for i, t in enumerate(threads)}
    ops = []            # [op text, head, {tid: [event]}]
    sid = {}            # thread id -> listener id in the sequential history
    pending = {}        # collector tid -> value announced, exchange not yet seen
    emit_at, rel_of = {}, {}
    drop_at = None
    nvals = {}
    final = None

    def new_listener(tid):
        sid[tid] = len(sid)
        if kind[tid] == "cb":
            ops.append(["connect %s" % arg[tid], "connect C%d" % sid[tid], {}])
        else:
            ops.append(["listen %s" % arg[tid], "listen L%d" % sid[tid], {}])
        return len(ops) - 1

    col_dropped = [False]

    def disconnect():
        ops.append(["drop 0", "drop last=1", {}])
        return len(ops) - 1

    def must_be_disconnected(line):
        """an observation that only a disconnection explains, but no chain detachment by a destructor was seen (it may
        have found the chain empty without writing): legal only once the collector thread has let its handles go"""
        if not col_dropped[0]:
            raise ValueError("%s while the collector thread still holds its handles" % line)
        return disconnect()

    for line in out:
        w = line.split()
        if not w:
            continue
        if w[0] == "op":
            if w[2] == "emit":
                pending[w[1]] = int(w[3])
            elif w[2] == "drop":
                col_dropped[0] = True
            elif w[2] == "reg":
                # hook_up contract: the coroutine is already waiting when the registration function gets the collector;
                # if its subscription has not been seen yet, the history is the one the contract promises
                if int(w[1]) not in sid:
                    new_listener(int(w[1]))
            elif w[1] == "ctl" and drop_at is None:
                col_dropped[0] = True
                drop_at = disconnect()
        elif w[0] == "ret":
            rel_of[int(w[3])] = w[4]
        elif w[0] == "s":
            tag = next((x for x in w[2:3] if re.match(r"a\d+$", x)), None)
            rest = w[3:] if tag else w[2:]
            if len(rest) < 3 or rest[1] == "pub":
                continue
            # what the operation wrote to the chain head (semantic, not by operation name): null = the chain was detached
            # (collector call / destructor), a listener = that listener is subscribed
            wrote = rest[2].split(">")[1] if rest[0] in ("xchg", "cas+") and ">" in rest[2] else rest[2] if rest[0] == "store" else None
            if wrote is None and rest[0] == "load" and rest[2] == "null" and w[1] in pending:
                wrote = "null"      # a collector call that only looks at an empty chain has detached the empty chain
            if wrote is None:
                continue
            if wrote == "null":
                if w[1] in pending:
                    v = pending.pop(w[1])
                    ops.append(["emit rv %d" % v, None, {}])
                    emit_at[v] = len(ops) - 1
                elif drop_at is None:
                    drop_at = disconnect()
                else:
                    raise ValueError("the chain was detached a second time after the disconnection")
            elif tag is not None:
                tid = int(tag[1:])
                if tid not in sid:
                    new_listener(tid)
        elif w[0] == "obs":
            tid = int(w[1][1:])
            what = w[2]
            if tid not in sid:
                if drop_at is None and what == "canceled":
                    drop_at = must_be_disconnected(line)
                at = new_listener(tid)          # never subscribed: it found the emitter disconnected
            elif what.startswith("v"):
                v = int(what[1:])
                if v not in emit_at:
                    raise ValueError("value %d observed but never emitted" % v)
                at = emit_at[v]
                nvals[tid] = (nvals.get(tid, (0, 0))[0] + 1, v)
            elif what == "free" and kind[tid] == "cb" and nvals.get(tid, (0, 0))[0] == int(arg[tid]) + 1:
                at = emit_at[nvals[tid][1]]
            else:
                if drop_at is None:
                    drop_at = must_be_disconnected(line)
                at = drop_at
            ops[at][2].setdefault(tid, []).append(what)
        elif w[0] == "final":
            final = w[1:]
        elif w[0] in ("deadlock", "crash", "assert-failed"):
            raise ValueError(line)
    if final is None:
        raise ValueError("no final line")
    lines, sout = ["case 0 sig int"], []
    for text, head, evs in ops:
        if head is None:
            v = int(text.split()[2])
            head = "emit " + rel_of.get(v, "rel=?")
        lines.append(text)
        es = []
        for tid in sorted(evs, key=lambda t: sid[t]):
            pre = ("C" if kind[tid] == "cb" else "L") + str(sid[tid]) + ":"
            es += [pre + e for e in evs[tid]]
        sout.append(head + (" ; " + " ".join(es) if es else ""))
    lines.append("end")
    sout.append("end " + " ".join(final))
    return {"id": 0, "lines": lines}, sout


class BatonSuite(Suite):
    """real threads under the baton scheduler (deterministic): listeners and callbacks subscribe on their own threads
    while the collector thread emits / destroys the handles, one scheduling point after every CAS / exchange on the
    chain.  The trace is linearised into the sequential grammar; the property is evaluated on that history, and the
    same history is run through the Lean model (accept mode: the model follows the implementation's linearisation)."""
    name = "signal-baton"
    harness = T_HARNESS
    driver = None
    compare = False
    corpus_prefix = "c15t_"
    chunk = 25
    nontrivial_rule = "a subscription's CAS and a collector / destructor exchange are interleaved (neither thread ran alone)"

    SUBS = ["sub -", "sub x", "sub rx", "sub rrx", "cb 0", "cb 1", "cb 9"]

    def __init__(self):
        self.lin = {}
        self.model_diffs = []
        self.model_checked = 0

    def gen_cases(self, rng, tier):
        cases = []

        def mk(threads, sched):
            hook = any(t.startswith("hook") for t in threads)
            return {"id": 0, "lines": ["case 0 sigt" + (" hook" if hook else "")] + ["t " + t for t in threads]
                    + ["sched " + " ".join(map(str, sched)), "end"]}

        n = 1200 if tier == "quick" else 30000
        for _ in range(n):
            nsub = rng.choice([1, 1, 2, 2, 3, 4])
            col = ["e"] * rng.randint(0, 4)
            if rng.random() < 0.6:
                col.insert(rng.randint(0, len(col)), "d") if rng.random() < 0.3 else col.append("d")
            threads = ["col " + " ".join(col)] + [rng.choice(self.SUBS) for _ in range(nsub)]
            if rng.random() < 0.25:
                # hook_up(): the signal is created by this listener's first co_await; its registration function hands the
                # collector to the other threads, which may use it at once
                threads[1] = "hook " + rng.choice(["-", "-", "x", "rx"])
            rng.shuffle(threads)
            nt = len(threads)
            sched = []
            while len(sched) < rng.randint(0, 10 * nt):
                sched += [rng.randrange(nt)] * (1 if rng.random() < 0.6 else rng.randint(2, 4))
            cases.append(mk(threads, sched))
        if tier != "quick":
            # every schedule of length 9 of collector + one subscriber, and of length 7 with two subscribers
            import itertools
            for colp in ("e e d", "e d", "d e", "e e"):
                for sub in self.SUBS:
                    for sc in itertools.product((0, 1), repeat=9):
                        cases.append(mk(["col " + colp, sub], sc))
            for colp in ("e e d", "e d", "e e"):
                for sub in ("hook -", "hook x", "hook rx"):
                    for sc in itertools.product((0, 1), repeat=9):
                        cases.append(mk(["col " + colp, sub], sc))
            for sc in itertools.product((0, 1, 2), repeat=7):
                cases.append(mk(["col e e d", "hook -", "sub -"], sc))
                cases.append(mk(["col e d", "hook x", "cb 1"], sc))
            for colp in ("e e d", "e d"):
                for s1, s2 in (("sub -", "cb 0"), ("sub x", "sub -"), ("cb 1", "cb 0"), ("sub rx", "cb 1")):
                    for sc in itertools.product((0, 1, 2), repeat=7):
                        cases.append(mk(["col " + colp, s1, s2], sc))
        return cases

    def nontrivial(self, case, out):
        first = {}
        for l in out:
            w = l.split()
            if w and w[0] == "s" and any(k in w for k in ("cas+", "xchg")):
                first.setdefault(w[1], len(first))
        return len(first) >= 2

    def oracle(self, case, out):
        cid = str(case["id"])
        self.lin.pop(cid, None)
        for l in out:
            if l.startswith("crash") or l.startswith("assert-failed") or l.startswith("deadlock"):
                self.oracle_failed = True
                return ["crash: %s under the schedule (see the trace)" % l]
        try:
            scase, sout = linearise(case, out)
        except ValueError as e:
            self.oracle_failed = True
            return ["trace: no history of subscriptions, collector calls and one disconnection explains the trace: %s" % e]
        self.lin[cid] = (case, scase, sout)
        msgs = run_prop(scase, sout).msgs
        if msgs:
            self.oracle_failed = True
        return msgs

    def stats(self, cases, outs):
        """input distribution + the accept-mode model comparison of every linearised history"""
        from vlib import core
        st = {"threads": {}, "collector_programs": {}, "schedule_len_max": 0, "ops_logged": 0, "cas_failures": 0,
              "subscribe_after_disconnect": 0, "destructor_on_subscriber_thread": 0}
        for c in cases:
            for l in c["lines"]:
                w = l.split()
                if w[0] == "t":
                    key = " ".join(w[1:]) if w[1] != "col" else "col"
                    st["threads"][key] = st["threads"].get(key, 0) + 1
                    if w[1] == "col":
                        k = " ".join(w[2:])
                        st["collector_programs"][k] = st["collector_programs"].get(k, 0) + 1
                elif w[0] == "sched":
                    st["schedule_len_max"] = max(st["schedule_len_max"], len(w) - 1)
            o = outs.get(str(c["id"]), [])
            colt = [str(i) for i, l in enumerate(x for x in c["lines"] if x.startswith("t ")) if l.split()[1] == "col"]
            for l in o:
                w = l.split()
                if w and w[0] == "s":
                    st["ops_logged"] += 1
                    st["cas_failures"] += "cas-" in w
                    if "xchg" in w and w[1] not in colt:
                        st["destructor_on_subscriber_thread"] += 1
        todo = [self.lin[str(c["id"])] for c in cases if str(c["id"]) in self.lin]
        st["subscribe_after_disconnect"] = sum(1 for _, sc, so in todo for l in so if l.startswith("listen") and ":canceled" in l)
        self.model_diffs = []
        self.model_checked = 0
        if todo:
            scs = []
            for i, (c, sc, so) in enumerate(todo):
                scs.append({"id": i, "lines": ["case %d sig int" % i] + sc["lines"][1:]})
            try:
                mo = core.run_cases(core.driver_exe("drv_c15"), scs, chunk=400, timeout=300)
            except Exception as e:     # no driver: reported by the sequential suite already
                mo = {}
            for i, (c, sc, so) in enumerate(todo):
                m = mo.get(str(i))
                if m is None or m["rc"] != 0:
                    continue
                self.model_checked += 1
                d = core.first_diff(m["out"], so)
                if d is not None:
                    self.model_diffs.append({"case": c["lines"], "linearised": sc["lines"], "impl_linearised": so, "model": m["out"],
                                             "diff": "line %d: model `%s` impl `%s`" % d})
        st["linearised_histories_run_through_model"] = self.model_checked
        st["model_disagreements"] = len(self.model_diffs)
        return st


def script_nogate(rng):
    return rng.choice(["-", "x", "rx", "rrx", "-"])


class C15(Spec):
    pid = "C15"
    lean_modules = ["CoclsModel.Props.C15"]
    design_ref = "DESIGN.md §5 C15"
    trusted_base = ["hand-written model lean/CoclsModel/Signal.lean tied to signal.h/awaiter.h by differential correspondence: "
                    "harness/h_signal.cpp vs lean/Drivers/C15.lean on generated sequential histories (every line diffed), and the "
                    "linearised traces of harness/h_signal_t.cpp (real threads under the baton shim) run through the same driver",
                    "linearisation rule of the baton traces (checks/c15.py:linearise): first successful CAS = subscription, exchange = "
                    "collector call / destructor",
                    "C++20 coroutine machinery, std::shared_ptr/weak_ptr, suspend_point flushing and coro_queue (C05/C06) taken as specified"]
    technique = "Lean 4 invariant proof (induction over all operation lists) + differential correspondence with the real headers"
    level_text = ("Lean 4 theorems over an executable model of signal<T>'s shared state (awaiter chain, current-value pointer, owned "
                  "copy, strong-reference count) with scripted coroutine listeners and connected callbacks: broadcast (every waiting "
                  "listener, exactly once, that value), no-miss for re-awaiting listeners, callback call/release accounting, disconnect "
                  "wakes all, awaiting a disconnected emitter fails at once, and a by-value collector call whose value construction "
                  "throws (in-place / const lvalue / rvalue overloads) delivers nothing and loses nobody: the next call and the "
                  "disconnection reach everybody who was waiting, the stale _cur_val is never read - for every operation list "
                  "(with any number of failed calls anywhere) under the documented Flushed contract, the counting and callback theorems for every operation list without it, plus the negative lemma; the closed "
                  "forms used in the proofs are proved equal to the awaiter-by-awaiter loops the driver executes; the model is tied to "
                  "signal.h by running both on generated histories (sequential: every line diffed; threads under a deterministic baton "
                  "scheduler: linearised trace through the model) and property oracles run on every implementation trace")
    level_note = ("trusted: Lean kernel (axioms propext/Classical.choice/Quot.sound at most), the hand-written model, the differential "
                  "harnesses (sampling + exhaustive small schedules in the thorough tier), the C++ coroutine machinery, "
                  "shared_ptr/weak_ptr and suspend_point/coro_queue (C05/C06). One model step = one public call: a subscription is "
                  "its publishing CAS, a collector call its exchange; other threads' subscriptions commute with the walk that follows "
                  "the exchange (they only push onto the new chain), which the baton suite exercises at CAS/exchange granularity and "
                  "the race suite with free-running threads. Memory-order questions of the chain belong to C03.")
    assumptions = ["Flushed: the suspend point returned by a collector call is discarded in a normal thread or co_awaited before "
                   "the next collector call and before the last handle is destroyed (documented contract, signal.h:86-93,131-133,156-160)",
                   "collector calls are serialised by the caller (documented: collector is not MT-safe), and the handle used for a call "
                   "outlives the flush of the suspend point it returned",
                   "a listener coroutine is not destroyed while it is subscribed (the API has no unsubscribe)",
                   "callbacks do not throw and do not call the collector re-entrantly"]

    def __init__(self):
        self._suites = [SigSuite(), BatonSuite(), RaceSuite()]

    def suites(self):
        return self._suites

    def extra_checks(self, ctx):
        """a linearised baton history on which model and implementation differ (no oracle failed on it)"""
        if any(getattr(s, "oracle_failed", False) for s in self._suites):
            return          # a failing input exists and is reported by the oracle
        for s in self._suites:
            diffs = getattr(s, "model_diffs", None)
            if diffs:
                ctx["violations"].append({"kind": "unproved", "msg": "no-failing-input-found",
                                          "payload": {"suite": s.name, "case": diffs[0]["case"], "correspondence": diffs[0],
                                                      "disagreements": len(diffs)},
                                          "signature": {"suite": s.name, "msg": "model-disagreement"}})


SPEC = C15()
