"""C10 — bounded queue: back-pressure without losing or duplicating items."""
import itertools
import re
from vlib.runner import Spec, Suite

HARNESS = ("h_queue", ["h_queue.cpp"], {})


def parse_events(line):
    """'head ; e1 e2' -> (head words, [(kind, id, outcome)])"""
    head, _, tail = line.partition(" ; ")
    evs = []
    for e in tail.split():
        m = re.match(r"(pop|push)#(\d+)=(.*)", e)
        if m:
            evs.append((m.group(1), int(m.group(2)), m.group(3)))
    return head.split(), evs


THROW_OPS = ("popthrow", "cothrow", "pushthrow", "pushmv", "upushthrow")


def fault_plan(w, gi):
    """(g, n) of `popthrow g [n]` / `cothrow g [n]` (gi = 1), `pushmv v g [n]` / `upushthrow c [g [n]]` (gi = 2)"""
    g = int(w[gi]) if len(w) > gi else 1
    n = int(w[gi + 1]) if len(w) > gi + 1 else 1
    return g, n


def admission_ok(push_evs, blocked, max_fail):
    """C10 for the pushes a delivering pop completed, `blocked` = the blocked push ids in arrival order: "blocked pushes
    complete in arrival order, one per pop" - the completed ones are the oldest ones, in order; all of them but the last were
    failed by their own item (possible only while hand-overs throw: at most `max_fail`), the last one is admitted - or every
    blocked push failed.  Returns (message | None, ids failed, id admitted | None)."""
    ids = [i for i, o in push_evs]
    if ids != blocked[:len(ids)]:
        return "blocked-fifo: pop completed the pushes %s, blocked (oldest first) were %s" % (ids, blocked), [], None
    if not blocked:
        return None, [], None
    outs = [o for i, o in push_evs]
    failed = [i for i, o in push_evs if o == "itemerr"]
    if any(o not in ("ok", "itemerr") for o in outs):
        return "blocked-fifo: pop completed blocked pushes with %s" % outs, [], None
    if len(failed) > max_fail:
        return ("blocked-fifo: pop failed the blocked pushes %s with their item's exception although at most %d hand-overs "
                "throw" % (failed, max_fail)), [], None
    if outs.count("ok") > 1:
        return "blocked-fifo: pop admitted %d blocked pushes" % outs.count("ok"), [], None
    if "ok" in outs and outs[-1] != "ok":
        return "blocked-fifo: pop failed a blocked push behind the one it admitted: %s" % push_evs, [], None
    if "ok" not in outs and len(ids) < len(blocked):
        return ("blocked-fifo: pop did not admit the oldest blocked push that could be admitted (completed %s, blocked %s)"
                % (push_evs, blocked)), [], None
    return None, failed, (ids[-1] if "ok" in outs else None)


class LQSuite(Suite):
    name = "lq-sequential"
    harness = HARNESS
    driver = "drv_c10"
    corpus_prefix = "c10_"
    nontrivial_rule = "at least one push blocked or one pop parked"

    @staticmethod
    def _mk(limit, cfg, ops):
        lines = ["case 0 lq %d%s" % (limit, (" " + cfg) if cfg else "")]
        v = 100
        for o in ops:
            if o == "push":
                lines.append("push %d" % v)
                v += 1
            elif o.startswith("pushmv"):
                w = o.split()
                lines.append("pushmv %d %s" % (v, " ".join(w[1:])))
                v += 1
            else:
                lines.append(o)
        lines.append("end")
        return {"id": 0, "lines": lines}

    def gen_cases(self, rng, tier):
        cases = []
        cfgs = ["", "cp", "nl"]
        # 1. the retry scenario: fill the queue, block k producers, one pop under every small fault plan (delivery, admission
        #    of the first / second blocked producer ...), from a plain call and from a coroutine, then pops until drained
        k_ = 0
        for limit in (1, 2, 3, 4):
            for k in range(0, 4):
                for g in (1, 2, 3):
                    for n in (1, 2, 3):
                        if n == 3 and tier == "quick" and (limit + k + g) % 2:
                            continue
                        for kind in ("popthrow", "cothrow"):
                            ops = ["push"] * (limit + k) + ["%s %d %d" % (kind, g, n), "size"] + ["pop"] * (limit + k + 1)
                            cases.append(self._mk(limit, cfgs[k_ % 3], ops))
                            k_ += 1
        # 2. every short history over the throwing operations
        alpha = ["push", "pop", "popthrow 1", "popthrow 2", "cothrow 1", "pushthrow", "pushmv 1"]
        for limit in (1, 2):
            for n in range(2, (4 if tier == "quick" else 5) - (limit - 1) + 1):
                for ops in itertools.product(alpha, repeat=n):
                    if any(o.split()[0] in THROW_OPS for o in ops) and any(o.startswith("push") for o in ops):
                        cases.append(self._mk(limit, cfgs[k_ % 3], list(ops) + ["pop", "pop"]))
                        k_ += 1
        # 3. random histories; every second one with throwing items
        n = 400 if tier == "quick" else 12000
        for i in range(n):
            limit = rng.choice([1, 1, 2, 2, 3, 4])
            nops = rng.randint(3, 14) if rng.random() < 0.3 else rng.randint(10, 45)
            # bias: producer-heavy, consumer-heavy or balanced phases
            # one case in four: Lock = primitives::no_lock (single-threaded use is its contract; same behaviour expected),
            # one in four: the copy-only item type
            lines = ["case 0 lq %d%s" % (limit, " nl" if i % 4 == 3 else (" cp" if i % 4 == 1 else ""))]
            throwing = i % 2 == 0
            tp = rng.choice([0.1, 0.25, 0.5]) if throwing else 0.0
            v = 100
            bias = rng.choice([0.3, 0.5, 0.7])
            for k in range(nops):
                if rng.random() < 0.15:
                    bias = rng.choice([0.2, 0.5, 0.8])
                r = rng.random()
                plan = "%d %d" % (rng.choice([1, 1, 2, 2, 3]), rng.choice([1, 1, 1, 2, 3]))
                if r < 0.78:
                    if rng.random() < bias:
                        if rng.random() < tp:
                            if rng.random() < 0.5:
                                lines.append("pushthrow")
                            else:
                                lines.append("pushmv %d %s" % (v, plan))
                                v += 1
                        else:
                            lines.append("push %d" % v)
                            v += 1
                    elif rng.random() < tp:
                        lines.append("%s %s" % (rng.choice(["popthrow", "cothrow"]), plan))
                    else:
                        lines.append("pop")
                elif r < 0.86:
                    if rng.random() < tp:
                        lines.append("upushthrow %d %s" % (rng.randint(1, 9), plan))
                    else:
                        lines.append("upush %d" % rng.randint(1, 9))
                elif r < 0.92:
                    lines.append("upop %d" % rng.randint(1, 9))
                elif r < 0.97:
                    lines.append("size")
                else:
                    lines.append("empty")
            if rng.random() < 0.2:
                lines.append("destroy")
            lines.append("end")
            cases.append({"id": 0, "lines": lines})
        return cases

    def nontrivial(self, case, out):
        return any(" pending" in l for l in out)

    def stats(self, cases, outs):
        ops = {}
        blocked = parked = threw = failed_adm = 0
        for c in cases:
            for l in c["lines"][1:-1]:
                k = l.split()[0]
                ops[k] = ops.get(k, 0) + 1
            o = outs.get(str(c["id"]), [])
            blocked += sum(1 for l in o if l.startswith("push#") and l.split()[1] == "pending")
            parked += sum(1 for l in o if l.startswith("pop#") and l.split()[1] == "pending")
            threw += sum(1 for l in o if l.split(" ;")[0].endswith(" threw"))
            failed_adm += sum(l.count("=itemerr") for l in o)
        return {"ops": ops, "pushes_blocked": blocked, "pops_parked": parked, "calls_that_threw": threw,
                "blocked_pushes_failed_by_their_item": failed_adm,
                "lock_no_lock_cases": sum(1 for c in cases if c["lines"][0].split()[4:5] == ["nl"]),
                "copy_only_item_cases": sum(1 for c in cases if c["lines"][0].split()[4:5] == ["cp"]),
                "limits": sorted({c["lines"][0].split()[3] for c in cases if len(c["lines"][0].split()) > 3})}

    def oracle(self, case, out):
        """the statement of C10 evaluated on the implementation's trace (values are unique per case).  Items may throw:
        `pushthrow` (refuses construction), `popthrow` / `cothrow` / `pushmv` / `upushthrow` (hand-overs throw during the call).
        A call that throws must leave everything as it was (the retry gets the same item); a blocked push may be failed
        by its own item when a pop admits it - then the item is withdrawn and the next blocked push is admitted."""
        msgs = []
        hdr = case["lines"][0].split()
        if hdr[2] != "lq":
            return msgs
        limit = int(hdr[3])
        ops = case["lines"][1:]
        push_val = {}        # push id -> value
        push_state = {}      # push id -> 'ok' | 'pending' | 'exc' | 'canceled' | 'itemerr'
        pop_state = {}       # pop id -> outcome string or 'pending'
        queue = []           # values accepted and not yet handed out, oldest first
        alive = True
        for op, line in zip(ops, out):
            w = op.split()
            head, evs = parse_events(line)
            pend_push = sorted(i for i, s in push_state.items() if s == "pending")
            pend_pop = sorted(i for i, s in pop_state.items() if s == "pending")
            n_items = len(queue)
            threw = len(head) > 1 and head[-1] == "threw"
            if not alive:
                pass
            elif threw:
                # failure atomicity: the call left by an exception - no future, and nothing else may have changed
                if w[0] not in THROW_OPS:
                    msgs.append("spurious: `%s` threw although no item throws" % op)
                if w[0] == "pushthrow" and pend_pop:
                    # the oldest waiting consumer had been taken for the hand-over: it may complete as canceled
                    if any((k, i, o) != ("pop", pend_pop[0], "canceled") for k, i, o in evs):
                        msgs.append("atomic: a push that threw resolved %s" % evs)
                elif evs:
                    msgs.append("atomic: `%s` threw and resolved %s - a call that throws must change nothing" % (op, evs))
            elif w[0] == "pushthrow":
                msgs.append("spurious: the push of an item that refuses construction returned normally (%s)" % " ".join(head))
            elif w[0] in ("push", "pushmv"):
                m = re.match(r"push#(\d+)", head[0])
                pid = int(m.group(1))
                push_val[pid] = int(w[1])
                st = head[1]
                if pend_pop:
                    if st != "ok":
                        msgs.append("backpressure: push did not complete although a consumer was waiting")
                    if not any(k == "pop" and i == pend_pop[0] and o == "v:%s" % w[1] for k, i, o in evs):
                        msgs.append("order: push with waiting consumers did not go to the oldest one")
                    push_state[pid] = "ok"
                    # the item goes straight to the consumer
                    queue.append(int(w[1]))
                    queue.pop(0)
                elif n_items < limit:
                    if st != "ok":
                        msgs.append("backpressure: push blocked with %d < limit %d items waiting" % (n_items, limit))
                    queue.append(int(w[1]))
                else:
                    if st != "pending":
                        msgs.append("backpressure: push completed with %d >= limit %d items waiting" % (n_items, limit))
                if not pend_pop:
                    push_state[pid] = "ok" if st == "ok" else "pending"
            elif w[0] in ("pop", "popthrow", "cothrow"):
                m = re.match(r"pop#(\d+)", head[0])
                pp = int(m.group(1))
                st = head[1]
                pop_state[pp] = st
                if st.startswith("v:"):
                    if not queue:
                        msgs.append("spurious: pop returned %s although nothing is waiting" % st)
                    else:
                        v = queue.pop(0)
                        if st != "v:%d" % v:
                            msgs.append("order: pop#%d got %s, the oldest waiting item is %d" % (pp, st, v))
                    max_fail = fault_plan(w, 1)[1] if w[0] != "pop" else 0
                    pevs = [(i, o) for k, i, o in evs if k == "push"]
                    bad, failed, admitted = admission_ok(pevs, pend_push, max_fail)
                    if bad:
                        msgs.append(bad)
                    elif admitted is not None:
                        queue.append(push_val[admitted])
                elif st == "pending":
                    if n_items > 0 or pend_push:
                        msgs.append("lost: pop parked although items were available")
                else:
                    msgs.append("spurious: pop returned %s" % st)
            elif w[0] in ("upush", "upushthrow"):
                r = head[1]
                if pend_push:
                    if r != "1" or not any(k == "push" and i == pend_push[0] and o.startswith("exc") for k, i, o in evs):
                        msgs.append("unblock_push: did not fail exactly the oldest blocked push")
                    if len(evs) != 1:
                        msgs.append("unblock_push: affected other futures")
                elif r != "0" or evs:
                    msgs.append("unblock_push: reported success/effect with nothing blocked")
            elif w[0] == "size":
                if int(head[1]) > limit:
                    msgs.append("size: size() %s exceeds limit %d" % (head[1], limit))
                if int(head[1]) != n_items:
                    msgs.append("size: size() %s but %d items are waiting" % (head[1], n_items))
            elif w[0] == "empty":
                if (head[1] == "1") != (n_items == 0):
                    msgs.append("size: empty() %s but %d items are waiting" % (head[1], n_items))
            if w[0] in ("destroy", "end"):
                alive = False
            for k, i, o in evs:
                if k == "pop":
                    if pop_state.get(i) != "pending":
                        msgs.append("duplicate: pop#%d resolved twice or never issued" % i)
                    pop_state[i] = o
                else:
                    if push_state.get(i) != "pending":
                        msgs.append("duplicate: push#%d resolved twice or never issued" % i)
                    push_state[i] = "ok" if o == "ok" else o
            # back-pressure, at rest: nobody is blocked in front of a free slot
            if alive and any(s == "pending" for s in push_state.values()) and len(queue) < limit:
                msgs.append("backpressure: pushes %s are blocked although only %d < limit %d items are waiting (after `%s`)"
                            % (sorted(i for i, s in push_state.items() if s == "pending"), len(queue), limit, op))
            if w[0] in ("destroy", "end"):
                break
        # conservation and order: items handed out, in pop arrival order, = prefix of the surviving pushes
        got = [int(pop_state[i][2:]) for i in sorted(pop_state) if pop_state[i].startswith("v:")]
        if -666 in got:
            msgs.append("corrupt: a pop received a destroyed or moved-from item: %s" % got)
        surv = [push_val[i] for i in sorted(push_val) if push_state.get(i) in ("ok", "pending")]
        if len(set(got)) != len(got):
            msgs.append("duplicate: an item was delivered twice: %s" % got)
        elif got != surv[:len(got)]:
            msgs.append("order: delivered %s is not the prefix of the pushed sequence %s" % (got, surv))
        if any(s == "pending" for s in list(pop_state.values()) + list(push_state.values())):
            msgs.append("hang: a future is still pending after the queue was destroyed")
        seen, res = set(), []
        for m in msgs:
            if m not in seen:
                seen.add(m)
                res.append(m)
        return res


SLQ_EV = re.compile(r"(pop|push)#(\d+)=(.*)")


class SLQSuite(Suite):
    """interleavings on the real header: limited_queue<int> instantiated with a parking Lock (its template parameter).
    Every operation runs on its own thread and parks (a) after a lock region that moved a promise out of `_awaiters` /
    `_blocked` - `deliver k` then lets the k-th parked call perform its out-of-lock resolution (the model's `Op.deliver`) -
    and (b) in front of any *second* lock() of the same operation (`midcall`), so that the following operations run
    inside the window an implementation opens when it splits a lock region.  Every line shows how many lock regions the
    operation entered (`r=`); the model says 1 per operation, 0 per resolution."""
    name = "lq-scheduled"
    harness = HARNESS
    driver = "drv_c10"
    corpus_prefix = "c10s_"
    chunk = 60
    nontrivial_rule = "at least one resolution was delayed past another operation's lock region"

    @staticmethod
    def _mk(limit, ops, cfg=""):
        lines = ["case 0 slq %d%s" % (limit, (" " + cfg) if cfg else "")]
        v = 100
        for o in ops:
            w = o.split()
            if w[-1] == "push":
                lines.append("%s %d" % (o, v))
                v += 1
            elif "pushmv" in w[:2]:
                k = w.index("pushmv")
                lines.append(" ".join(w[:k + 1] + [str(v)] + w[k + 1:]))
                v += 1
            else:
                lines.append(o)
        lines.append("end")
        return {"id": 0, "lines": lines}

    def gen_cases(self, rng, tier):
        cases = []
        alpha = ["push", "pop", "upush 3", "upop 4", "deliver 0", "deliver 1"]
        maxlen = {1: 5, 2: 5} if tier == "quick" else {1: 7, 2: 6}
        for limit in (1, 2):
            for n in range(2, maxlen[limit] + 1):
                for ops in itertools.product(alpha, repeat=n):
                    if ops.count("push") >= 1 and "pop" in ops:
                        cases.append(self._mk(limit, ops))
        # operations issued while another one is inside its lock region (they block and take effect after it)
        ext = alpha + ["hold size", "hold pop"]
        for limit in (1, 2):
            for n in range(2, (5 if tier == "quick" else 6) - (limit - 1) + 1):
                for ops in itertools.product(ext, repeat=n):
                    h = [k for k, o in enumerate(ops) if o.startswith("hold")]
                    if h and h[0] < n - 1 and "push" in ops:
                        cases.append(self._mk(limit, ops))
        # throwing items: every short interleaving of pushes, pops under a fault plan (delivery / admission of a blocked
        # producer throws), refusing items and delayed resolutions
        talpha = ["push", "pop", "popthrow 1", "popthrow 2", "cothrow 1", "pushthrow", "deliver 0", "deliver 1"]
        k_ = 0
        for limit in (1, 2):
            for n in range(2, (5 if tier == "quick" else 6) - (limit - 1) + 1):
                for ops in itertools.product(talpha, repeat=n):
                    if any(o.split()[0] in THROW_OPS for o in ops) and ops.count("push") >= 1:
                        cases.append(self._mk(limit, ops, "cp" if k_ % 3 == 1 else ""))
                        k_ += 1
        # the admission loop under every small fault plan, the resolutions delayed past the next operations
        for limit in (1, 2, 3):
            for k in range(1, 4):
                for g in (1, 2, 3):
                    for n in (1, 2):
                        for tail in (["deliver 0", "pop", "pop"], ["pop", "deliver 0", "pop"], ["push", "pop", "deliver 1", "deliver 0"],
                                     ["upush 3", "size", "deliver 0", "deliver 0"]):
                            ops = ["push"] * (limit + k) + ["popthrow %d %d" % (g, n)] + tail + ["pop"] * (limit + k)
                            cases.append(self._mk(limit, ops, "cp" if k_ % 3 == 1 else ""))
                            k_ += 1
        n = 2000 if tier == "quick" else 50000
        for i in range(n):
            limit = rng.choice([1, 1, 2, 2, 3, 4])
            tp = rng.choice([0.0, 0.0, 0.15, 0.35])
            plan = lambda: "%d %d" % (rng.choice([1, 1, 2, 2, 3]), rng.choice([1, 1, 1, 2, 3]))
            holdp = rng.choice([0.0, 0.08, 0.2])
            held = False
            nops = rng.randint(4, 14) if rng.random() < 0.3 else rng.randint(10, 60)
            bias = rng.choice([0.4, 0.5, 0.6])
            lazy = rng.choice([0.1, 0.3, 0.6])
            items = blocked = parked = infl = 0
            ops = []
            for k in range(nops):
                if rng.random() < 0.15:
                    bias = rng.choice([0.25, 0.5, 0.75])
                r = rng.random()
                if infl and (infl >= 5 or rng.random() > lazy):
                    j = rng.randrange(infl)
                    ops.append("deliver %d" % j)
                    infl -= 1
                    if held and j == 0:
                        held = False
                elif held or rng.random() < holdp:
                    # the lock is (or becomes) held: whatever is issued now blocks; only the count of parked calls is tracked
                    o = rng.choice(["push", "pop", "pop", "upush %d" % rng.randint(1, 9), "upop %d" % rng.randint(1, 9), "size"]
                                   + (["popthrow " + plan(), "pushthrow", "cothrow " + plan()] if tp else []))
                    ops.append(o if held else "hold " + o)
                    held = True
                    infl += 1
                elif r < 0.72:
                    # (the counts below only steer the generator; with throwing items they are approximate)
                    if rng.random() < bias:
                        if rng.random() < tp:
                            if rng.random() < 0.5:
                                ops.append("pushthrow")
                                if parked:
                                    parked -= 1
                                    infl += 1
                                continue
                            ops.append("pushmv " + plan())
                        else:
                            ops.append("push")
                        if parked:
                            parked -= 1
                            infl += 1
                        elif items < limit:
                            items += 1
                        else:
                            blocked += 1
                    else:
                        if rng.random() < tp:
                            pl = plan()
                            ops.append("%s %s" % (rng.choice(["popthrow", "popthrow", "cothrow"]), pl))
                            if items and pl.startswith("1 "):
                                continue
                        else:
                            ops.append("pop")
                        if items:
                            if blocked:
                                blocked -= 1
                                infl += 1
                            else:
                                items -= 1
                        else:
                            parked += 1
                elif r < 0.80:
                    if rng.random() < tp:
                        ops.append("upushthrow %d %s" % (rng.randint(1, 9), plan()))
                        continue
                    ops.append("upush %d" % rng.randint(1, 9))
                    if blocked:
                        blocked -= 1
                        infl += 1
                elif r < 0.86:
                    ops.append("upop %d" % rng.randint(1, 9))
                    if parked:
                        parked -= 1
                        infl += 1
                elif r < 0.92:
                    ops.append("size")
                elif r < 0.95:
                    ops.append("empty")
                else:
                    j = rng.randint(0, 3)
                    ops.append("deliver %d" % j)      # possibly no such call: must be a no-op
                    if j < infl:
                        infl -= 1
            if rng.random() < 0.25:
                ops.append("destroy")
            cases.append(self._mk(limit, ops, "cp" if tp and i % 3 == 1 else ""))
        return cases

    def nontrivial(self, case, out):
        open_ = 0
        for l in out:
            h = l.split(" ;")[0]
            if h.startswith("deliver r=") and h.rsplit(":", 1)[-1] not in ("paused", "midcall", "blocked"):
                open_ -= 1
            elif open_ > 0 and not h.startswith("end") and not h.startswith("deliver"):
                return True
            if any(h.split()[1:2] == [x] for x in ("paused", "midcall", "holding", "blocked")):
                open_ += 1
        return False

    def stats(self, cases, outs):
        ops, limits = {}, {}
        paused = delayed = max_inflight = 0
        for c in cases:
            lim = c["lines"][0].split()[3]
            limits[lim] = limits.get(lim, 0) + 1
            for l in c["lines"][1:-1]:
                w = l.split()[0]
                ops[w] = ops.get(w, 0) + 1
            cur = 0
            for l in outs.get(str(c["id"]), []):
                h = l.split(" ;")[0]
                if " paused" in h:
                    paused += 1
                    cur += 1
                    max_inflight = max(max_inflight, cur)
                elif h.startswith("deliver ") and not h.startswith("deliver none"):
                    cur -= 1
                elif cur:
                    delayed += 1
        threw = sum(1 for c in cases for l in outs.get(str(c["id"]), []) if re.search(r"[ :]threw( |$)", l.split(" ;")[0]))
        failed_adm = sum(l.count("=itemerr") for c in cases for l in outs.get(str(c["id"]), []))
        return {"limits": limits, "ops": ops, "calls_that_threw": threw, "blocked_pushes_failed_by_their_item": failed_adm,
                "copy_only_item_cases": sum(1 for c in cases if c["lines"][0].split()[4:5] == ["cp"]),
                "calls_parked_before_resolution": paused,
                "max_resolutions_in_flight": max_inflight, "lock_regions_run_while_a_resolution_was_in_flight": delayed}

    def oracle(self, case, out):
        """C10 on an interleaved trace.  An operation takes effect on the line that shows its result (an operation that
        was holding or blocked: on its `deliver` line - its linearisation point).  While every operation is one lock
        region, each line is checked against what the statement prescribes for that lock step (back-pressure decision,
        FIFO of items / blocked pushes / waiting pops, unblock_*).  Always, whenever no call is in progress: a push future
        is pending only while exactly `limit` items wait, a pop future only while nothing waits and nothing is blocked;
        every item delivered at most once, intact.
        Throwing items (`pushthrow`, `pushmv`, `popthrow`, `cothrow`, `upushthrow`): a call that shows `threw` has no future and
        must have changed nothing; a pop that delivers may fail the oldest blocked pushes with their own item's exception
        (`itemerr`, at most as many as hand-overs throw) before it admits the next one (`admission_ok`)."""
        msgs = []
        hdr = case["lines"][0].split()
        if hdr[2] != "slq":
            return msgs
        limit = int(hdr[3])
        ops = case["lines"][1:]
        push_val, push_state, pop_state = {}, {}, {}     # states: 'incall' | 'pending' | outcome
        push_order, pop_order = [], []                   # ids in linearisation order
        queue, blocked, waiters = [], [], []             # strict bookkeeping: values queued, push ids blocked, pop ids parked
        parked = []                                      # calls in progress, in the order in which they parked
        state = {"concurrent": False, "finished": False}

        def settle_future(kind, i, o):
            st = pop_state if kind == "pop" else push_state
            if st.get(i) not in ("pending", "incall"):
                msgs.append("duplicate: %s#%d resolved twice or never issued (%s)" % (kind, i, o))
            st[i] = o
            if kind == "pop" and o == "v:-666":
                msgs.append("corrupt: pop#%d received a destroyed or moved-from item" % i)

        def quiescent_check(where):
            """no call in progress: evaluate the invariants from the futures alone"""
            ok_push = sum(1 for s_ in push_state.values() if s_ == "ok")
            got_ = sum(1 for s_ in pop_state.values() if s_.startswith("v:"))
            n = ok_push - got_
            pp = sorted(i for i, s_ in push_state.items() if s_ == "pending")
            pq = sorted(i for i, s_ in pop_state.items() if s_ == "pending")
            if n > limit:
                msgs.append("size: %d items are waiting, limit %d (%s)" % (n, limit, where))
            if pp and n < limit:
                msgs.append("backpressure: push %s pending although only %d < limit %d items are waiting - nobody owes it a "
                            "wake-up (%s)" % (pp, n, limit, where))
            if pq and (n > 0 or pp):
                msgs.append("lost: pop %s parked although %d items are waiting and pushes %s are blocked (%s)" % (pq, n, pp, where))

        ALIAS = {"popthrow": "pop", "cothrow": "pop", "pushmv": "push", "pushthrow": "push", "upushthrow": "upush"}

        def takers(kinds):
            return sum(1 for c in parked if c["type"] in ("deferred", "midcall") and ALIAS.get(c["w"][0], c["w"][0]) in kinds)

        def apply(w, label, status):
            """the operation `w` takes effect now, returning / parking with `status`"""
            strict = not state["concurrent"]
            paused = status == "paused"
            if status == "threw":
                # failure atomicity: no future, nothing changed (whatever the call resolved is flagged as spurious by the caller)
                if w[0] not in THROW_OPS:
                    msgs.append("spurious: `%s` threw although no item throws" % " ".join(w))
                if w[0] in ("popthrow", "cothrow"):
                    pop_state[int(label[4:])] = "threw"
                elif w[0] == "pushmv":
                    push_state[int(label[5:])] = "threw"
                return
            if w[0] == "pushthrow":
                if status == "nothrow":
                    msgs.append("spurious: the push of an item that refuses construction returned normally")
                elif strict and paused and waiters:
                    # the oldest waiting consumer had been taken for the hand-over: it completes as canceled
                    tgt = waiters.pop(0)
                    parked.append({"type": "resolve", "tag": "pushthrow", "events": [("pop", tgt, "canceled")],
                                   "ret": "pushthrow:threw", "own": None})
                elif paused:
                    if strict:
                        msgs.append("spurious: a refused push took a promise with nobody waiting")
                    parked.append({"type": "resolve", "loose": True, "pushthrow": True})
                return
            if w[0] in ("push", "pushmv"):
                i = int(label[5:])
                push_val[i] = int(w[1])
                push_order.append(i)
                push_state[i] = "incall" if paused else status
                if strict:
                    if waiters:
                        tgt = waiters.pop(0)
                        if not paused:
                            msgs.append("backpressure: push with a consumer waiting must hand its item over (%s)" % status)
                        parked.append({"type": "resolve", "tag": "order", "events": [("pop", tgt, "v:%s" % w[1])],
                                       "ret": "push#%d:ok" % i, "own": ("push", i, "ok")})
                    elif len(queue) < limit:
                        if status != "ok":
                            msgs.append("backpressure: push %s with %d < limit %d items waiting" % (status, len(queue), limit))
                        queue.append(int(w[1]))
                    else:
                        if status != "pending":
                            msgs.append("backpressure: push %s with %d >= limit %d items waiting" % (status, len(queue), limit))
                        blocked.append(i)
                elif paused:
                    parked.append({"type": "resolve", "loose": True})
            elif w[0] in ("pop", "popthrow", "cothrow"):
                i = int(label[4:])
                pop_order.append(i)
                pop_state[i] = "incall" if paused else status
                if status == "v:-666":
                    msgs.append("corrupt: pop#%d received a destroyed or moved-from item" % i)
                if strict:
                    if queue:
                        v = queue.pop(0)
                        if blocked:
                            # which blocked pushes the fault plan hits is decided under the lock but shown only when the call
                            # resolves them: book the plan's own reading (hand-over 1 = delivery, 2.. = one per admission
                            # candidate) and let the resolution line confirm it - any other *legal* outcome (admission_ok)
                            # only ends the strict bookkeeping
                            g, n = fault_plan(w, 1) if w[0] != "pop" else (0, 0)
                            nfail = min(n, len(blocked)) if g == 2 else 0
                            snapshot = list(blocked)
                            events = [("push", blocked.pop(0), "itemerr") for _ in range(nfail)]
                            if blocked:
                                b = blocked.pop(0)
                                queue.append(push_val[b])
                                events.append(("push", b, "ok"))
                            if not paused:
                                msgs.append("blocked-fifo: pop with pushes blocked must admit the oldest one (%s)" % status)
                            parked.append({"type": "resolve", "tag": "blocked-fifo", "events": events,
                                           "ret": "pop#%d:v:%d" % (i, v), "own": ("pop", i, "v:%d" % v),
                                           "blocked": snapshot, "max_fail": n if w[0] != "pop" else 0})
                        elif status != "v:%d" % v:
                            seen_ = [int(s_[2:]) for j, s_ in pop_state.items() if j != i and s_.startswith("v:")]
                            dup = status.startswith("v:") and status[2:].isdigit() and int(status[2:]) in seen_
                            msgs.append("%s: pop#%d got %s, the oldest waiting item is %d" % ("duplicate" if dup else "order", i, status, v))
                    else:
                        if status != "pending":
                            msgs.append("lost: pop on an empty queue returned %s" % status)
                        waiters.append(i)
                elif paused:
                    parked.append({"type": "resolve", "loose": True})
            elif w[0] in ("upush", "upop", "upushthrow"):
                w = ["upush"] + w[1:] if w[0] == "upushthrow" else w
                lst = blocked if w[0] == "upush" else waiters
                fk = "push" if w[0] == "upush" else "pop"
                if strict:
                    if lst and paused:
                        tgt = lst.pop(0)
                        parked.append({"type": "resolve", "tag": "unblock_%s" % fk, "events": [(fk, tgt, "exc:%s" % w[1])],
                                       "ret": "%s:1" % w[0], "own": None})
                    elif lst:
                        # a concurrent call that is still in progress may legitimately take it first
                        other = ("pop", "upush") if w[0] == "upush" else ("push", "upop")
                        if status != "0" or len(lst) > takers(other):
                            msgs.append("unblock_%s: returned %s although %s %s are waiting (nothing else could have taken "
                                        "them)" % (fk, status, fk, lst))
                    elif status != "0":
                        msgs.append("unblock_%s: reported %s with nothing to unblock" % (fk, status))
                        if paused:
                            parked.append({"type": "resolve", "loose": True})
                elif paused:
                    parked.append({"type": "resolve", "loose": True})
            elif w[0] == "size":
                if strict and status.isdigit() and int(status) != len(queue):
                    msgs.append("size: size() %s but %d items are waiting" % (status, len(queue)))
                if status.isdigit() and int(status) > limit:
                    msgs.append("size: size() %s exceeds limit %d" % (status, limit))
            elif w[0] == "empty":
                if strict and (status == "1") != (not queue):
                    msgs.append("size: empty() %s but %d items are waiting" % (status, len(queue)))

        for op, line in zip(ops, out):
            w = op.split()
            if w[0] == "hold" and len(w) > 1:
                w = w[1:]
            headtxt, _, tail = line.partition(" ; ")
            head = headtxt.split()
            evs = []
            for e in tail.split():
                m = SLQ_EV.match(e)
                if not m:
                    raise ValueError("unparsable event %r" % e)
                evs.append((m.group(1), int(m.group(2)), m.group(3)))
            evset = sorted(evs)
            if w[0] in ("destroy", "end"):
                state["finished"] = True
                if any(c["type"] != "resolve" for c in parked):
                    state["concurrent"] = True      # deferred calls take effect during the flush, in an order not shown
                canceled_push = sorted(i for k, i, o in evs if k == "push" and o == "canceled")
                # (a pop canceled by a refused push whose resolution was still parked was not waiting in the queue any more)
                refused = {i for c in parked if c["type"] == "resolve" and not c.get("loose")
                           for k, i, o in c["events"] if k == "pop" and o == "canceled"}
                unknown_refusal = any(c.get("pushthrow") or (c["type"] != "resolve" and c["w"][0] == "pushthrow") for c in parked)
                canceled_pop = sorted(i for k, i, o in evs if k == "pop" and o == "canceled" and i not in refused)
                if not state["concurrent"] and all(c["type"] == "resolve" and not c.get("loose") for c in parked):
                    want = []
                    for c in parked:
                        want += list(c["events"]) + ([c["own"]] if c["own"] else [])
                    want += [("push", i, "canceled") for i in blocked] + [("pop", i, "canceled") for i in waiters]
                    if sorted(want) != evset:
                        msgs.append("destroy: expected %s, got %s" % (sorted(want), evset))
                for k, i, o in evs:
                    st = pop_state if k == "pop" else push_state
                    if i not in st:
                        st[i] = "incall"        # a deferred call that took effect during the flush
                    settle_future(k, i, o)
                # a deferred throwing call that took effect during the flush and threw leaves no future behind
                for c in parked:
                    if c["type"] != "resolve" and c["w"][0] in ("popthrow", "cothrow", "pushmv"):
                        st = push_state if c["w"][0] == "pushmv" else pop_state
                        i = int(c["label"].split("#")[1])
                        if st.get(i) == "incall":
                            st[i] = "threw"
                # the moment after the last call returned and before the queue died
                for i in canceled_push:
                    push_state[i] = "pending"
                for i in canceled_pop:
                    pop_state[i] = "pending"
                if not unknown_refusal:
                    quiescent_check("at destruction")
                for i in canceled_push:
                    push_state[i] = "canceled"
                for i in canceled_pop:
                    pop_state[i] = "canceled"
                break
            if head[0] == "bad-op":
                continue
            if w[0] == "deliver":
                k = int(w[1])
                if head[1] == "none":
                    if not state["concurrent"] and k < len(parked):
                        msgs.append("harness: deliver %d found no call" % k)
                elif head[1] == "held":
                    pass
                else:
                    r = head[1]
                    ret = head[2][4:] if len(head) > 2 and head[2].startswith("ret=") else ""
                    lab, _, st = ret.partition(":")
                    c = parked.pop(k) if k < len(parked) else None
                    if c is None:
                        state["concurrent"] = True
                    elif st in ("midcall", "blocked") or (st == "paused" and c["type"] == "resolve"):
                        if st != "blocked":
                            state["concurrent"] = True
                        if st == "midcall" and c["type"] == "deferred":
                            c["type"] = "midcall"
                        parked.append(c)
                    elif c["type"] == "resolve":
                        if r != "r=0":
                            state["concurrent"] = True
                        if lab.startswith("push#"):
                            if st == "pending":
                                push_state[int(lab[5:])] = "pending"
                            else:
                                settle_future("push", int(lab[5:]), st)
                        elif lab.startswith("pop#"):
                            if st == "pending":
                                pop_state[int(lab[4:])] = "pending"
                            else:
                                settle_future("pop", int(lab[4:]), st)
                        if not state["concurrent"] and not c.get("loose"):
                            if ret != c["ret"]:
                                msgs.append("%s: the parked call must return %s, got %s" % (c["tag"], c["ret"], ret))
                            if evset != sorted(c["events"]):
                                alt = None
                                if c.get("max_fail") and all(k_ == "push" for k_, i, o in evs):
                                    alt = admission_ok(sorted((i, o) for k_, i, o in evs), c["blocked"], c["max_fail"])[0]
                                if c.get("max_fail") and alt is None:
                                    state["concurrent"] = True      # legal, but not what was booked: no strict bookkeeping any more
                                else:
                                    msgs.append("%s: the parked call must resolve exactly %s, got %s" % (c["tag"], sorted(c["events"]), evset))
                    else:
                        want_r = "r=0" if c.get("holding") else "r=1"
                        if c["type"] == "midcall" or r != want_r:
                            state["concurrent"] = True
                        apply(c["w"], c["label"], st)
                        if evs and not state["concurrent"]:
                            msgs.append("spurious: `%s` (delivered) resolved %s" % (" ".join(c["w"]), evset))
            else:
                label, status = head[0], (head[1] if len(head) > 1 else "")
                r = head[2] if len(head) > 2 else ""
                if w[0] in ("push", "pushmv"):
                    push_state[int(label[5:])] = "incall"
                    push_val[int(label[5:])] = int(w[1])
                elif w[0] in ("pop", "popthrow", "cothrow"):
                    pop_state[int(label[4:])] = "incall"
                if status in ("holding", "blocked", "midcall"):
                    if status == "midcall":
                        state["concurrent"] = True
                    parked.append({"type": "midcall" if status == "midcall" else "deferred", "w": w, "label": label,
                                   "holding": status == "holding"})
                else:
                    if r not in ("r=1", "r=0"):
                        state["concurrent"] = True      # more lock regions than the operation has
                    apply(w, label, status)
                    if evs and not state["concurrent"]:
                        msgs.append("spurious: `%s` resolved %s" % (op, evset))
            for k_, i, o in evs:
                settle_future(k_, i, o)
            if not parked and not any(s_ == "incall" for s_ in list(push_state.values()) + list(pop_state.values())):
                quiescent_check("after `%s`" % op)
        if not state["finished"]:
            msgs.append("hang: the trace ends before the queue was destroyed (%d lines for %d ops)" % (len(out), len(ops)))
        elif any(s_ in ("pending", "incall") for s_ in list(pop_state.values()) + list(push_state.values())):
            msgs.append("hang: a future is still pending after the queue was destroyed")
        got = [int(pop_state[i][2:]) for i in pop_order if pop_state.get(i, "").startswith("v:")]
        surv = [push_val[i] for i in push_order if push_state.get(i) == "ok"]
        allgot = [int(s_[2:]) for s_ in pop_state.values() if s_.startswith("v:")]
        if len(set(allgot)) != len(allgot):
            msgs.append("duplicate: an item was delivered twice: %s" % sorted(allgot))
        elif not set(allgot) <= set(push_val.values()) | {-666}:
            msgs.append("spurious: delivered %s, pushed %s" % (sorted(allgot), sorted(push_val.values())))
        elif not state["concurrent"] and len(got) == len(allgot) and got != surv[:len(got)]:
            msgs.append("order: delivered %s (by pop arrival) is not the prefix of the accepted pushes %s" % (got, surv))
        seen, res = set(), []
        for m in msgs:
            if m not in seen:
                seen.add(m)
                res.append(m)
        return res


class C10(Spec):
    pid = "C10"
    lean_modules = ["CoclsModel.Props.C10"]
    design_ref = "DESIGN.md §5 C10"
    trusted_base = ["hand-written model lean/CoclsModel/LimitedQueue.lean tied to queue.h by differential correspondence "
                    "(harness/h_queue.cpp vs lean/Drivers/C10.lean) on generated sequential histories and on scheduled interleavings "
                    "(every short history for limits 1-2 + random), including the number of lock regions per operation",
                    "throwing items: the harness item types (move-only and copy-only, heap-owning, lifetime-tracking) throw from their "
                    "constructor from arguments (`pushthrow`) or from the g-th .. (g+n-1)-th move/copy construction the calling thread performs "
                    "during one call (`popthrow`/`cothrow`/`pushmv`/`upushthrow`), always before anything is moved (strong guarantee)",
                    "std::queue / std::mutex / promise resolution (C01/C02) taken as specified"]
    technique = "Lean 4 invariant proof (induction over all operation lists) + differential correspondence with the real header"
    level_text = ("Lean 4 theorems over an executable model of limited_queue (one step per lock region, out-of-lock resolutions as "
                  "separate steps): conservation/exactly-once, order, size<=limit, back-pressure, blocked-FIFO, unblock_push, one outcome "
                  "per future, failed-push <=> withdrawn-item, for every limit>=1 and every operation list - including operations on items "
                  "that refuse construction or whose g-th hand-over (move/copy construction) throws, for every fault plan: failure atomicity "
                  "of pop / push / unblock_push (a call that throws changed nothing; retry delivers the same item), admission loop of pop "
                  "(a blocked producer whose item throws on the way into the queue is failed with that exception, the next one admitted); "
                  "the model is tied to queue.h by running both on generated histories and diffing every line; property oracles run on "
                  "the implementation trace")
    level_note = ("trusted: Lean kernel (axioms propext/Classical.choice/Quot.sound at most), the hand-written model, the differential "
                  "harness (sampling), std::queue/std::mutex and the promise/future layer (C01/C02). Thread interleavings are covered by the "
                  "theorem (any interleaving of lock regions is an op list); on the real code they are exercised sequentially and by the "
                  "scheduled suite (limited_queue instantiated with a parking Lock: out-of-lock resolutions delayed past other lock regions, "
                  "any second lock region of one operation becomes an interleaving point, lock regions per operation compared with the model).")
    assumptions = ["limit >= 1", "the queue is not destroyed while another thread is inside one of its methods",
                   "an item constructor that throws (from arguments, by move, by copy) leaves its source unchanged (strong guarantee); "
                   "allocation failures of the containers themselves (std::deque / std::vector growth) are not modelled"]

    def suites(self):
        return [LQSuite(), SLQSuite()]


SPEC = C10()
