"""C10 — bounded queue: back-pressure without losing or duplicating items."""
import itertools
import re
from vlib.runner import Spec, Suite

HARNESS = ("h_queue", ["h_queue.cpp"], {})


def parse_events(line):
    """'head ; e1 e2' -> (head words, [(kind, id, outcome)])"""
    head, _, tail = line.partition(" ; ")
    evs = []
    for e in tail.split():
        m = re.match(r"(pop|push)#(\d+)=(.*)", e)
        if m:
            evs.append((m.group(1), int(m.group(2)), m.group(3)))
    return head.split(), evs


class LQSuite(Suite):
    name = "lq-sequential"
    harness = HARNESS
    driver = "drv_c10"
    corpus_prefix = "c10_"
    nontrivial_rule = "at least one push blocked or one pop parked"

    def gen_cases(self, rng, tier):
        n = 400 if tier == "quick" else 12000
        cases = []
        for i in range(n):
            limit = rng.choice([1, 1, 2, 2, 3, 4])
            nops = rng.randint(3, 14) if rng.random() < 0.3 else rng.randint(10, 45)
            # bias: producer-heavy, consumer-heavy or balanced phases
            # one case in four: Lock = primitives::no_lock (single-threaded use is its contract; same behaviour expected)
            lines = ["case 0 lq %d%s" % (limit, " nl" if i % 4 == 3 else "")]
            v = 100
            bias = rng.choice([0.3, 0.5, 0.7])
            for k in range(nops):
                if rng.random() < 0.15:
                    bias = rng.choice([0.2, 0.5, 0.8])
                r = rng.random()
                if r < 0.78:
                    if rng.random() < bias:
                        lines.append("push %d" % v)
                        v += 1
                    else:
                        lines.append("pop")
                elif r < 0.86:
                    lines.append("upush %d" % rng.randint(1, 9))
                elif r < 0.92:
                    lines.append("upop %d" % rng.randint(1, 9))
                elif r < 0.97:
                    lines.append("size")
                else:
                    lines.append("empty")
            if rng.random() < 0.2:
                lines.append("destroy")
            lines.append("end")
            cases.append({"id": 0, "lines": lines})
        return cases

    def nontrivial(self, case, out):
        return any(" pending" in l for l in out)

    def stats(self, cases, outs):
        ops = {}
        blocked = parked = 0
        for c in cases:
            for l in c["lines"][1:-1]:
                k = l.split()[0]
                ops[k] = ops.get(k, 0) + 1
            o = outs.get(str(c["id"]), [])
            blocked += sum(1 for l in o if l.startswith("push#") and l.split()[1] == "pending")
            parked += sum(1 for l in o if l.startswith("pop#") and l.split()[1] == "pending")
        return {"ops": ops, "pushes_blocked": blocked, "pops_parked": parked,
                "lock_no_lock_cases": sum(1 for c in cases if c["lines"][0].split()[4:5] == ["nl"]),
                "limits": sorted({c["lines"][0].split()[3] for c in cases if len(c["lines"][0].split()) > 3})}

    def oracle(self, case, out):
        """the statement of C10 evaluated on the implementation's trace (values are unique per case)"""
        msgs = []
        hdr = case["lines"][0].split()
        if hdr[2] != "lq":
            return msgs
        limit = int(hdr[3])
        ops = case["lines"][1:]
        push_val = {}        # push id -> value
        push_state = {}      # push id -> 'ok' | 'pending' | 'exc' | 'canceled'
        pop_state = {}       # pop id -> outcome string or 'pending'
        n_items = 0          # items accepted and not yet handed out
        alive = True
        for op, line in zip(ops, out):
            w = op.split()
            head, evs = parse_events(line)
            pend_push = sorted(i for i, s in push_state.items() if s == "pending")
            pend_pop = sorted(i for i, s in pop_state.items() if s == "pending")
            if w[0] == "push" and alive:
                m = re.match(r"push#(\d+)", head[0])
                pid = int(m.group(1))
                push_val[pid] = int(w[1])
                st = head[1]
                if pend_pop:
                    if st != "ok":
                        msgs.append("backpressure: push did not complete although a consumer was waiting")
                    if not any(k == "pop" and i == pend_pop[0] and o == "v:%s" % w[1] for k, i, o in evs):
                        msgs.append("order: push with waiting consumers did not go to the oldest one")
                elif n_items < limit:
                    if st != "ok":
                        msgs.append("backpressure: push blocked with %d < limit %d items waiting" % (n_items, limit))
                    n_items += 1
                else:
                    if st != "pending":
                        msgs.append("backpressure: push completed with %d >= limit %d items waiting" % (n_items, limit))
                push_state[pid] = "ok" if st == "ok" else "pending"
            elif w[0] == "pop" and alive:
                m = re.match(r"pop#(\d+)", head[0])
                pp = int(m.group(1))
                st = head[1]
                pop_state[pp] = st
                if st.startswith("v:"):
                    n_items -= 1
                    if pend_push:
                        if not any(k == "push" and i == pend_push[0] and o == "ok" for k, i, o in evs):
                            msgs.append("blocked-fifo: pop did not admit the oldest blocked push")
                        if sum(1 for k, i, o in evs if k == "push") != 1:
                            msgs.append("blocked-fifo: pop admitted %d blocked pushes" % sum(1 for k, i, o in evs if k == "push"))
                        n_items += 1
                elif st == "pending":
                    if n_items > 0 or pend_push:
                        msgs.append("lost: pop parked although items were available")
            elif w[0] == "upush" and alive:
                r = head[1]
                if pend_push:
                    if r != "1" or not any(k == "push" and i == pend_push[0] and o.startswith("exc") for k, i, o in evs):
                        msgs.append("unblock_push: did not fail exactly the oldest blocked push")
                    if len(evs) != 1:
                        msgs.append("unblock_push: affected other futures")
                elif r != "0" or evs:
                    msgs.append("unblock_push: reported success/effect with nothing blocked")
            elif w[0] == "size" and alive:
                if int(head[1]) > limit:
                    msgs.append("size: size() %s exceeds limit %d" % (head[1], limit))
                if int(head[1]) != n_items:
                    msgs.append("size: size() %s but %d items are waiting" % (head[1], n_items))
            elif w[0] in ("destroy", "end"):
                alive = False
            for k, i, o in evs:
                if k == "pop":
                    if pop_state.get(i) != "pending":
                        msgs.append("duplicate: pop#%d resolved twice or never issued" % i)
                    pop_state[i] = o
                else:
                    if push_state.get(i) != "pending":
                        msgs.append("duplicate: push#%d resolved twice or never issued" % i)
                    push_state[i] = "ok" if o == "ok" else o
            if w[0] in ("destroy", "end"):
                break
        # conservation and order: items handed out, in pop arrival order, = prefix of the surviving pushes
        got = [int(pop_state[i][2:]) for i in sorted(pop_state) if pop_state[i].startswith("v:")]
        if -666 in got:
            msgs.append("corrupt: a pop received a destroyed or moved-from item: %s" % got)
        surv = [push_val[i] for i in sorted(push_val) if push_state.get(i) in ("ok", "pending")]
        if len(set(got)) != len(got):
            msgs.append("duplicate: an item was delivered twice: %s" % got)
        elif got != surv[:len(got)]:
            msgs.append("order: delivered %s is not the prefix of the pushed sequence %s" % (got, surv))
        if any(s == "pending" for s in list(pop_state.values()) + list(push_state.values())):
            msgs.append("hang: a future is still pending after the queue was destroyed")
        return msgs


SLQ_EV = re.compile(r"(pop|push)#(\d+)=(.*)")


class SLQSuite(Suite):
    """interleavings on the real header: limited_queue<int> instantiated with a parking Lock (its template parameter).
    Every operation runs on its own thread and parks (a) after a lock region that moved a promise out of `_awaiters` /
    `_blocked` - `deliver k` then lets the k-th parked call perform its out-of-lock resolution (the model's `Op.deliver`) -
    and (b) in front of any *second* lock() of the same operation (`midcall`), so that the following operations run
    inside the window an implementation opens when it splits a lock region.  Every line shows how many lock regions the
    operation entered (`r=`); the model says 1 per operation, 0 per resolution."""
    name = "lq-scheduled"
    harness = HARNESS
    driver = "drv_c10"
    corpus_prefix = "c10s_"
    chunk = 60
    nontrivial_rule = "at least one resolution was delayed past another operation's lock region"

    @staticmethod
    def _mk(limit, ops):
        lines = ["case 0 slq %d" % limit]
        v = 100
        for o in ops:
            if o.split()[-1] == "push":
                lines.append("%s %d" % (o, v))
                v += 1
            else:
                lines.append(o)
        lines.append("end")
        return {"id": 0, "lines": lines}

    def gen_cases(self, rng, tier):
        cases = []
        alpha = ["push", "pop", "upush 3", "upop 4", "deliver 0", "deliver 1"]
        maxlen = {1: 5, 2: 5} if tier == "quick" else {1: 7, 2: 6}
        for limit in (1, 2):
            for n in range(2, maxlen[limit] + 1):
                for ops in itertools.product(alpha, repeat=n):
                    if ops.count("push") >= 1 and "pop" in ops:
                        cases.append(self._mk(limit, ops))
        # operations issued while another one is inside its lock region (they block and take effect after it)
        ext = alpha + ["hold size", "hold pop"]
        for limit in (1, 2):
            for n in range(2, (5 if tier == "quick" else 6) - (limit - 1) + 1):
                for ops in itertools.product(ext, repeat=n):
                    h = [k for k, o in enumerate(ops) if o.startswith("hold")]
                    if h and h[0] < n - 1 and "push" in ops:
                        cases.append(self._mk(limit, ops))
        n = 2000 if tier == "quick" else 50000
        for i in range(n):
            limit = rng.choice([1, 1, 2, 2, 3, 4])
            holdp = rng.choice([0.0, 0.08, 0.2])
            held = False
            nops = rng.randint(4, 14) if rng.random() < 0.3 else rng.randint(10, 60)
            bias = rng.choice([0.4, 0.5, 0.6])
            lazy = rng.choice([0.1, 0.3, 0.6])
            items = blocked = parked = infl = 0
            ops = []
            for k in range(nops):
                if rng.random() < 0.15:
                    bias = rng.choice([0.25, 0.5, 0.75])
                r = rng.random()
                if infl and (infl >= 5 or rng.random() > lazy):
                    j = rng.randrange(infl)
                    ops.append("deliver %d" % j)
                    infl -= 1
                    if held and j == 0:
                        held = False
                elif held or rng.random() < holdp:
                    # the lock is (or becomes) held: whatever is issued now blocks; only the count of parked calls is tracked
                    o = rng.choice(["push", "pop", "pop", "upush %d" % rng.randint(1, 9), "upop %d" % rng.randint(1, 9), "size"])
                    ops.append(o if held else "hold " + o)
                    held = True
                    infl += 1
                elif r < 0.72:
                    if rng.random() < bias:
                        ops.append("push")
                        if parked:
                            parked -= 1
                            infl += 1
                        elif items < limit:
                            items += 1
                        else:
                            blocked += 1
                    else:
                        ops.append("pop")
                        if items:
                            if blocked:
                                blocked -= 1
                                infl += 1
                            else:
                                items -= 1
                        else:
                            parked += 1
                elif r < 0.80:
                    ops.append("upush %d" % rng.randint(1, 9))
                    if blocked:
                        blocked -= 1
                        infl += 1
                elif r < 0.86:
                    ops.append("upop %d" % rng.randint(1, 9))
                    if parked:
                        parked -= 1
                        infl += 1
                elif r < 0.92:
                    ops.append("size")
                elif r < 0.95:
                    ops.append("empty")
                else:
                    j = rng.randint(0, 3)
                    ops.append("deliver %d" % j)      # possibly no such call: must be a no-op
                    if j < infl:
                        infl -= 1
            if rng.random() < 0.25:
                ops.append("destroy")
            cases.append(self._mk(limit, ops))
        return cases

    def nontrivial(self, case, out):
        open_ = 0
        for l in out:
            h = l.split(" ;")[0]
            if h.startswith("deliver r=") and h.rsplit(":", 1)[-1] not in ("paused", "midcall", "blocked"):
                open_ -= 1
            elif open_ > 0 and not h.startswith("end") and not h.startswith("deliver"):
                return True
            if any(h.split()[1:2] == [x] for x in ("paused", "midcall", "holding", "blocked")):
                open_ += 1
        return False

    def stats(self, cases, outs):
        ops, limits = {}, {}
        paused = delayed = max_inflight = 0
        for c in cases:
            lim = c["lines"][0].split()[3]
            limits[lim] = limits.get(lim, 0) + 1
            for l in c["lines"][1:-1]:
                w = l.split()[0]
                ops[w] = ops.get(w, 0) + 1
            cur = 0
            for l in outs.get(str(c["id"]), []):
                h = l.split(" ;")[0]
                if " paused" in h:
                    paused += 1
                    cur += 1
                    max_inflight = max(max_inflight, cur)
                elif h.startswith("deliver ") and not h.startswith("deliver none"):
                    cur -= 1
                elif cur:
                    delayed += 1
        return {"limits": limits, "ops": ops, "calls_parked_before_resolution": paused,
                "max_resolutions_in_flight": max_inflight, "lock_regions_run_while_a_resolution_was_in_flight": delayed}

    def oracle(self, case, out):
        """C10 on an interleaved trace.  An operation takes effect on the line that shows its result (an operation that
        was holding or blocked: on its `deliver` line - its linearisation point).  While every operation is one lock
        region, each line is checked against what the statement prescribes for that lock step (back-pressure decision,
        FIFO of items / blocked pushes / waiting pops, unblock_*).  Always, whenever no call is in progress: a push future
        is pending only while exactly `limit` items wait, a pop future only while nothing waits and nothing is blocked;
        every item delivered at most once, intact."""
        msgs = []
        hdr = case["lines"][0].split()
        if hdr[2] != "slq":
            return msgs
        limit = int(hdr[3])
        ops = case["lines"][1:]
        push_val, push_state, pop_state = {}, {}, {}     # states: 'incall' | 'pending' | outcome
        push_order, pop_order = [], []                   # ids in linearisation order
        queue, blocked, waiters = [], [], []             # strict bookkeeping: values queued, push ids blocked, pop ids parked
        parked = []                                      # calls in progress, in the order in which they parked
        state = {"concurrent": False, "finished": False}

        def settle_future(kind, i, o):
            st = pop_state if kind == "pop" else push_state
            if st.get(i) not in ("pending", "incall"):
                msgs.append("duplicate: %s#%d resolved twice or never issued (%s)" % (kind, i, o))
            st[i] = o
            if kind == "pop" and o == "v:-666":
                msgs.append("corrupt: pop#%d received a destroyed or moved-from item" % i)

        def quiescent_check(where):
            """no call in progress: evaluate the invariants from the futures alone"""
            ok_push = sum(1 for s_ in push_state.values() if s_ == "ok")
            got_ = sum(1 for s_ in pop_state.values() if s_.startswith("v:"))
            n = ok_push - got_
            pp = sorted(i for i, s_ in push_state.items() if s_ == "pending")
            pq = sorted(i for i, s_ in pop_state.items() if s_ == "pending")
            if n > limit:
                msgs.append("size: %d items are waiting, limit %d (%s)" % (n, limit, where))
            if pp and n < limit:
                msgs.append("backpressure: push %s pending although only %d < limit %d items are waiting - nobody owes it a "
                            "wake-up (%s)" % (pp, n, limit, where))
            if pq and (n > 0 or pp):
                msgs.append("lost: pop %s parked although %d items are waiting and pushes %s are blocked (%s)" % (pq, n, pp, where))

        def takers(kinds):
            return sum(1 for c in parked if c["type"] in ("deferred", "midcall") and c["w"][0] in kinds)

        def apply(w, label, status):
            """the operation `w` takes effect now, returning / parking with `status`"""
            strict = not state["concurrent"]
            paused = status == "paused"
            if w[0] == "push":
                i = int(label[5:])
                push_val[i] = int(w[1])
                push_order.append(i)
                push_state[i] = "incall" if paused else status
                if strict:
                    if waiters:
                        tgt = waiters.pop(0)
                        if not paused:
                            msgs.append("backpressure: push with a consumer waiting must hand its item over (%s)" % status)
                        parked.append({"type": "resolve", "tag": "order", "events": [("pop", tgt, "v:%s" % w[1])],
                                       "ret": "push#%d:ok" % i, "own": ("push", i, "ok")})
                    elif len(queue) < limit:
                        if status != "ok":
                            msgs.append("backpressure: push %s with %d < limit %d items waiting" % (status, len(queue), limit))
                        queue.append(int(w[1]))
                    else:
                        if status != "pending":
                            msgs.append("backpressure: push %s with %d >= limit %d items waiting" % (status, len(queue), limit))
                        blocked.append(i)
                elif paused:
                    parked.append({"type": "resolve", "loose": True})
            elif w[0] == "pop":
                i = int(label[4:])
                pop_order.append(i)
                pop_state[i] = "incall" if paused else status
                if status == "v:-666":
                    msgs.append("corrupt: pop#%d received a destroyed or moved-from item" % i)
                if strict:
                    if queue:
                        v = queue.pop(0)
                        if blocked:
                            b = blocked.pop(0)
                            queue.append(push_val[b])
                            if not paused:
                                msgs.append("blocked-fifo: pop with pushes blocked must admit the oldest one (%s)" % status)
                            parked.append({"type": "resolve", "tag": "blocked-fifo", "events": [("push", b, "ok")],
                                           "ret": "pop#%d:v:%d" % (i, v), "own": ("pop", i, "v:%d" % v)})
                        elif status != "v:%d" % v:
                            seen_ = [int(s_[2:]) for j, s_ in pop_state.items() if j != i and s_.startswith("v:")]
                            dup = status.startswith("v:") and status[2:].isdigit() and int(status[2:]) in seen_
                            msgs.append("%s: pop#%d got %s, the oldest waiting item is %d" % ("duplicate" if dup else "order", i, status, v))
                    else:
                        if status != "pending":
                            msgs.append("lost: pop on an empty queue returned %s" % status)
                        waiters.append(i)
                elif paused:
                    parked.append({"type": "resolve", "loose": True})
            elif w[0] in ("upush", "upop"):
                lst = blocked if w[0] == "upush" else waiters
                fk = "push" if w[0] == "upush" else "pop"
                if strict:
                    if lst and paused:
                        tgt = lst.pop(0)
                        parked.append({"type": "resolve", "tag": "unblock_%s" % fk, "events": [(fk, tgt, "exc:%s" % w[1])],
                                       "ret": "%s:1" % w[0], "own": None})
                    elif lst:
                        # a concurrent call that is still in progress may legitimately take it first
                        other = ("pop", "upush") if w[0] == "upush" else ("push", "upop")
                        if status != "0" or len(lst) > takers(other):
                            msgs.append("unblock_%s: returned %s although %s %s are waiting (nothing else could have taken "
                                        "them)" % (fk, status, fk, lst))
                    elif status != "0":
                        msgs.append("unblock_%s: reported %s with nothing to unblock" % (fk, status))
                        if paused:
                            parked.append({"type": "resolve", "loose": True})
                elif paused:
                    parked.append({"type": "resolve", "loose": True})
            elif w[0] == "size":
                if strict and status.isdigit() and int(status) != len(queue):
                    msgs.append("size: size() %s but %d items are waiting" % (status, len(queue)))
                if status.isdigit() and int(status) > limit:
                    msgs.append("size: size() %s exceeds limit %d" % (status, limit))
            elif w[0] == "empty":
                if strict and (status == "1") != (not queue):
                    msgs.append("size: empty() %s but %d items are waiting" % (status, len(queue)))

        for op, line in zip(ops, out):
            w = op.split()
            if w[0] == "hold" and len(w) > 1:
                w = w[1:]
            headtxt, _, tail = line.partition(" ; ")
            head = headtxt.split()
            evs = []
            for e in tail.split():
                m = SLQ_EV.match(e)
                if not m:
                    raise ValueError("unparsable event %r" % e)
                evs.append((m.group(1), int(m.group(2)), m.group(3)))
            evset = sorted(evs)
            if w[0] in ("destroy", "end"):
                state["finished"] = True
                if any(c["type"] != "resolve" for c in parked):
                    state["concurrent"] = True      # deferred calls take effect during the flush, in an order not shown
                canceled_push = sorted(i for k, i, o in evs if k == "push" and o == "canceled")
                canceled_pop = sorted(i for k, i, o in evs if k == "pop" and o == "canceled")
                if not state["concurrent"] and all(c["type"] == "resolve" and not c.get("loose") for c in parked):
                    want = []
                    for c in parked:
                        want += list(c["events"]) + ([c["own"]] if c["own"] else [])
                    want += [("push", i, "canceled") for i in blocked] + [("pop", i, "canceled") for i in waiters]
                    if sorted(want) != evset:
                        msgs.append("destroy: expected %s, got %s" % (sorted(want), evset))
                for k, i, o in evs:
                    st = pop_state if k == "pop" else push_state
                    if i not in st:
                        st[i] = "incall"        # a deferred call that took effect during the flush
                    settle_future(k, i, o)
                # the moment after the last call returned and before the queue died
                for i in canceled_push:
                    push_state[i] = "pending"
                for i in canceled_pop:
                    pop_state[i] = "pending"
                quiescent_check("at destruction")
                for i in canceled_push:
                    push_state[i] = "canceled"
                for i in canceled_pop:
                    pop_state[i] = "canceled"
                break
            if head[0] == "bad-op":
                continue
            if w[0] == "deliver":
                k = int(w[1])
                if head[1] == "none":
                    if not state["concurrent"] and k < len(parked):
                        msgs.append("harness: deliver %d found no call" % k)
                elif head[1] == "held":
                    pass
                else:
                    r = head[1]
                    ret = head[2][4:] if len(head) > 2 and head[2].startswith("ret=") else ""
                    lab, _, st = ret.partition(":")
                    c = parked.pop(k) if k < len(parked) else None
                    if c is None:
                        state["concurrent"] = True
                    elif st in ("midcall", "blocked") or (st == "paused" and c["type"] == "resolve"):
                        if st != "blocked":
                            state["concurrent"] = True
                        if st == "midcall" and c["type"] == "deferred":
                            c["type"] = "midcall"
                        parked.append(c)
                    elif c["type"] == "resolve":
                        if r != "r=0":
                            state["concurrent"] = True
                        if lab.startswith("push#"):
                            if st == "pending":
                                push_state[int(lab[5:])] = "pending"
                            else:
                                settle_future("push", int(lab[5:]), st)
                        elif lab.startswith("pop#"):
                            if st == "pending":
                                pop_state[int(lab[4:])] = "pending"
                            else:
                                settle_future("pop", int(lab[4:]), st)
                        if not state["concurrent"] and not c.get("loose"):
                            if ret != c["ret"]:
                                msgs.append("%s: the parked call must return %s, got %s" % (c["tag"], c["ret"], ret))
                            if evset != sorted(c["events"]):
                                msgs.append("%s: the parked call must resolve exactly %s, got %s" % (c["tag"], sorted(c["events"]), evset))
                    else:
                        want_r = "r=0" if c.get("holding") else "r=1"
                        if c["type"] == "midcall" or r != want_r:
                            state["concurrent"] = True
                        apply(c["w"], c["label"], st)
                        if evs and not state["concurrent"]:
                            msgs.append("spurious: `%s` (delivered) resolved %s" % (" ".join(c["w"]), evset))
            else:
                label, status = head[0], (head[1] if len(head) > 1 else "")
                r = head[2] if len(head) > 2 else ""
                if w[0] == "push":
                    push_state[int(label[5:])] = "incall"
                    push_val[int(label[5:])] = int(w[1])
                elif w[0] == "pop":
                    pop_state[int(label[4:])] = "incall"
                if status in ("holding", "blocked", "midcall"):
                    if status == "midcall":
                        state["concurrent"] = True
                    parked.append({"type": "midcall" if status == "midcall" else "deferred", "w": w, "label": label,
                                   "holding": status == "holding"})
                else:
                    if r not in ("r=1", "r=0"):
                        state["concurrent"] = True      # more lock regions than the operation has
                    apply(w, label, status)
                    if evs and not state["concurrent"]:
                        msgs.append("spurious: `%s` resolved %s" % (op, evset))
            for k_, i, o in evs:
                settle_future(k_, i, o)
            if not parked and not any(s_ == "incall" for s_ in list(push_state.values()) + list(pop_state.values())):
                quiescent_check("after `%s`" % op)
        if not state["finished"]:
            msgs.append("hang: the trace ends before the queue was destroyed (%d lines for %d ops)" % (len(out), len(ops)))
        elif any(s_ in ("pending", "incall") for s_ in list(pop_state.values()) + list(push_state.values())):
            msgs.append("hang: a future is still pending after the queue was destroyed")
        got = [int(pop_state[i][2:]) for i in pop_order if pop_state.get(i, "").startswith("v:")]
        surv = [push_val[i] for i in push_order if push_state.get(i) == "ok"]
        allgot = [int(s_[2:]) for s_ in pop_state.values() if s_.startswith("v:")]
        if len(set(allgot)) != len(allgot):
            msgs.append("duplicate: an item was delivered twice: %s" % sorted(allgot))
        elif not set(allgot) <= set(push_val.values()) | {-666}:
            msgs.append("spurious: delivered %s, pushed %s" % (sorted(allgot), sorted(push_val.values())))
        elif not state["concurrent"] and len(got) == len(allgot) and got != surv[:len(got)]:
            msgs.append("order: delivered %s (by pop arrival) is not the prefix of the accepted pushes %s" % (got, surv))
        seen, res = set(), []
        for m in msgs:
            if m not in seen:
                seen.add(m)
                res.append(m)
        return res


class C10(Spec):
    pid = "C10"
    lean_modules = ["CoclsModel.Props.C10"]
    design_ref = "DESIGN.md §5 C10"
    trusted_base = ["hand-written model lean/CoclsModel/LimitedQueue.lean tied to queue.h by differential correspondence "
                    "(harness/h_queue.cpp vs lean/Drivers/C10.lean) on generated sequential histories and on scheduled interleavings "
                    "(every short history for limits 1-2 + random), including the number of lock regions per operation",
                    "std::queue / std::mutex / promise resolution (C01/C02) taken as specified"]
    technique = "Lean 4 invariant proof (induction over all operation lists) + differential correspondence with the real header"
    level_text = ("Lean 4 theorems over an executable model of limited_queue (one step per lock region, out-of-lock resolutions as "
                  "separate steps): conservation/exactly-once, order, size<=limit, back-pressure, blocked-FIFO, unblock_push, one outcome "
                  "per future, for every limit>=1 and every operation list; the model is tied to queue.h by running both on generated "
                  "histories and diffing every line; property oracles run on the implementation trace")
    level_note = ("trusted: Lean kernel (axioms propext/Classical.choice/Quot.sound at most), the hand-written model, the differential "
                  "harness (sampling), std::queue/std::mutex and the promise/future layer (C01/C02). Thread interleavings are covered by the "
                  "theorem (any interleaving of lock regions is an op list); on the real code they are exercised sequentially and by the "
                  "scheduled suite (limited_queue instantiated with a parking Lock: out-of-lock resolutions delayed past other lock regions, "
                  "any second lock region of one operation becomes an interleaving point, lock regions per operation compared with the model).")
    assumptions = ["limit >= 1", "the queue is not destroyed while another thread is inside one of its methods"]

    def suites(self):
        return [LQSuite(), SLQSuite()]


SPEC = C10()
