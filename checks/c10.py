"""C10 — bounded queue: back-pressure without losing or duplicating items."""
import re
from vlib.runner import Spec, Suite

HARNESS = ("h_queue", ["h_queue.cpp"], {})


def parse_events(line):
    """'head ; e1 e2' -> (head words, [(kind, id, outcome)])"""
    head, _, tail = line.partition(" ; ")
    evs = []
    for e in tail.split():
        m = re.match(r"(pop|push)#(\d+)=(.*)", e)
        if m:
            evs.append((m.group(1), int(m.group(2)), m.group(3)))
    return head.split(), evs


class LQSuite(Suite):
    name = "lq-sequential"
    harness = HARNESS
    driver = "drv_c10"
    corpus_prefix = "c10_"
    nontrivial_rule = "at least one push blocked or one pop parked"

    def gen_cases(self, rng, tier):
        n = 400 if tier == "quick" else 12000
        cases = []
        for i in range(n):
            limit = rng.choice([1, 1, 2, 2, 3, 4])
            nops = rng.randint(3, 14) if rng.random() < 0.3 else rng.randint(10, 45)
            # bias: producer-heavy, consumer-heavy or balanced phases
            lines = ["case 0 lq %d" % limit]
            v = 100
            bias = rng.choice([0.3, 0.5, 0.7])
            for k in range(nops):
                if rng.random() < 0.15:
                    bias = rng.choice([0.2, 0.5, 0.8])
                r = rng.random()
                if r < 0.78:
                    if rng.random() < bias:
                        lines.append("push %d" % v)
                        v += 1
                    else:
                        lines.append("pop")
                elif r < 0.86:
                    lines.append("upush %d" % rng.randint(1, 9))
                elif r < 0.92:
                    lines.append("upop %d" % rng.randint(1, 9))
                elif r < 0.97:
                    lines.append("size")
                else:
                    lines.append("empty")
            if rng.random() < 0.2:
                lines.append("destroy")
            lines.append("end")
            cases.append({"id": 0, "lines": lines})
        return cases

    def nontrivial(self, case, out):
        return any(" pending" in l for l in out)

    def stats(self, cases, outs):
        ops = {}
        blocked = parked = 0
        for c in cases:
            for l in c["lines"][1:-1]:
                k = l.split()[0]
                ops[k] = ops.get(k, 0) + 1
            o = outs.get(str(c["id"]), [])
            blocked += sum(1 for l in o if l.startswith("push#") and l.split()[1] == "pending")
            parked += sum(1 for l in o if l.startswith("pop#") and l.split()[1] == "pending")
        return {"ops": ops, "pushes_blocked": blocked, "pops_parked": parked,
                "limits": sorted({c["lines"][0].split()[3] for c in cases if len(c["lines"][0].split()) > 3})}

    def oracle(self, case, out):
        """the statement of C10 evaluated on the implementation's trace (values are unique per case)"""
        msgs = []
        hdr = case["lines"][0].split()
        if hdr[2] != "lq":
            return msgs
        limit = int(hdr[3])
        ops = case["lines"][1:]
        push_val = {}        # push id -> value
        push_state = {}      # push id -> 'ok' | 'pending' | 'exc' | 'canceled'
        pop_state = {}       # pop id -> outcome string or 'pending'
        n_items = 0          # items accepted and not yet handed out
        alive = True
        for op, line in zip(ops, out):
            w = op.split()
            head, evs = parse_events(line)
            pend_push = sorted(i for i, s in push_state.items() if s == "pending")
            pend_pop = sorted(i for i, s in pop_state.items() if s == "pending")
            if w[0] == "push" and alive:
                m = re.match(r"push#(\d+)", head[0])
                pid = int(m.group(1))
                push_val[pid] = int(w[1])
                st = head[1]
                if pend_pop:
                    if st != "ok":
                        msgs.append("backpressure: push did not complete although a consumer was waiting")
                    if not any(k == "pop" and i == pend_pop[0] and o == "v:%s" % w[1] for k, i, o in evs):
                        msgs.append("order: push with waiting consumers did not go to the oldest one")
                elif n_items < limit:
                    if st != "ok":
                        msgs.append("backpressure: push blocked with %d < limit %d items waiting" % (n_items, limit))
                    n_items += 1
                else:
                    if st != "pending":
                        msgs.append("backpressure: push completed with %d >= limit %d items waiting" % (n_items, limit))
                push_state[pid] = "ok" if st == "ok" else "pending"
            elif w[0] == "pop" and alive:
                m = re.match(r"pop#(\d+)", head[0])
                pp = int(m.group(1))
                st = head[1]
                pop_state[pp] = st
                if st.startswith("v:"):
                    n_items -= 1
                    if pend_push:
                        if not any(k == "push" and i == pend_push[0] and o == "ok" for k, i, o in evs):
                            msgs.append("blocked-fifo: pop did not admit the oldest blocked push")
                        if sum(1 for k, i, o in evs if k == "push") != 1:
                            msgs.append("blocked-fifo: pop admitted %d blocked pushes" % sum(1 for k, i, o in evs if k == "push"))
                        n_items += 1
                elif st == "pending":
                    if n_items > 0 or pend_push:
                        msgs.append("lost: pop parked although items were available")
            elif w[0] == "upush" and alive:
                r = head[1]
                if pend_push:
                    if r != "1" or not any(k == "push" and i == pend_push[0] and o.startswith("exc") for k, i, o in evs):
                        msgs.append("unblock_push: did not fail exactly the oldest blocked push")
                    if len(evs) != 1:
                        msgs.append("unblock_push: affected other futures")
                elif r != "0" or evs:
                    msgs.append("unblock_push: reported success/effect with nothing blocked")
            elif w[0] == "size" and alive:
                if int(head[1]) > limit:
                    msgs.append("size: size() %s exceeds limit %d" % (head[1], limit))
                if int(head[1]) != n_items:
                    msgs.append("size: size() %s but %d items are waiting" % (head[1], n_items))
            elif w[0] in ("destroy", "end"):
                alive = False
            for k, i, o in evs:
                if k == "pop":
                    if pop_state.get(i) != "pending":
                        msgs.append("duplicate: pop#%d resolved twice or never issued" % i)
                    pop_state[i] = o
                else:
                    if push_state.get(i) != "pending":
                        msgs.append("duplicate: push#%d resolved twice or never issued" % i)
                    push_state[i] = "ok" if o == "ok" else o
            if w[0] in ("destroy", "end"):
                break
        # conservation and order: items handed out, in pop arrival order, = prefix of the surviving pushes
        got = [int(pop_state[i][2:]) for i in sorted(pop_state) if pop_state[i].startswith("v:")]
        surv = [push_val[i] for i in sorted(push_val) if push_state.get(i) in ("ok", "pending")]
        if len(set(got)) != len(got):
            msgs.append("duplicate: an item was delivered twice: %s" % got)
        elif got != surv[:len(got)]:
            msgs.append("order: delivered %s is not the prefix of the pushed sequence %s" % (got, surv))
        if any(s == "pending" for s in list(pop_state.values()) + list(push_state.values())):
            msgs.append("hang: a future is still pending after the queue was destroyed")
        return msgs


class C10(Spec):
    pid = "C10"
    lean_modules = ["CoclsModel.Props.C10"]
    design_ref = "DESIGN.md §5 C10"
    trusted_base = ["hand-written model lean/CoclsModel/LimitedQueue.lean tied to queue.h by differential correspondence "
                    "(harness/h_queue.cpp vs lean/Drivers/C10.lean) on generated histories",
                    "std::queue / std::mutex / promise resolution (C01/C02) taken as specified"]
    technique = "Lean 4 invariant proof (induction over all operation lists) + differential correspondence with the real header"
    level_text = ("Lean 4 theorems over an executable model of limited_queue (one step per lock region, out-of-lock resolutions as "
                  "separate steps): conservation/exactly-once, order, size<=limit, back-pressure, blocked-FIFO, unblock_push, one outcome "
                  "per future, for every limit>=1 and every operation list; the model is tied to queue.h by running both on generated "
                  "histories and diffing every line; property oracles run on the implementation trace")
    level_note = ("trusted: Lean kernel (axioms propext/Classical.choice/Quot.sound at most), the hand-written model, the differential "
                  "harness (sampling), std::queue/std::mutex and the promise/future layer (C01/C02). Thread interleavings are covered by the "
                  "theorem (any interleaving of lock regions is an op list) but exercised on the real code only sequentially + a thread stress.")
    assumptions = ["limit >= 1", "the queue is not destroyed while another thread is inside one of its methods"]

    def suites(self):
        return [LQSuite()]


SPEC = C10()
