"""C12 — scheduler: never early, in deadline order, cancel hits exactly its target."""
import re
from vlib.runner import Spec, Suite

HARNESS = ("h_sched", ["h_sched.cpp"], {})
INF = float("inf")


def parse_line(line):
    """'head ; e1 e2' -> (head words, [event strings])"""
    head, _, tail = line.partition(" ; ")
    return head.split(), tail.split()


def tval(s):
    """t:12 / t:max -> number"""
    return INF if s == "t:max" else int(s[2:])


class ManualSuite(Suite):
    """manual mode: schedule / sleep_until / get_expired / cancel / remove with explicit time points, plus the
    interval() generator stopped through a std::stop_token, all on one scheduler"""
    name = "manual"
    harness = HARNESS
    driver = "drv_c12"
    corpus_prefix = "c12_"
    chunk = 50
    nontrivial_rule = "at least one sleep expired through get_expired and at least one cancel/remove/stop hit a pending sleep"

    # ---------------------------------------------------------------------------------------- generator
    def gen_case(self, rng, big=False):
        lines = ["case 0 man"]
        nops = rng.randint(3, 12) if rng.random() < 0.3 else rng.randint(12, 55)
        if big:
            nops = rng.randint(80, 220)
        nid = rng.choice([1, 2, 3, 4, 6]) if not big else rng.choice([3, 8, 20])
        span = rng.choice([3, 6, 12, 30]) if not big else rng.choice([8, 40, 200])
        clock = rng.randint(0, 5)
        p_sleep = rng.choice([0.3, 0.45, 0.6])
        with_ivl = (not big) and rng.random() < 0.25
        ivl_made = False
        monotone = rng.random() < 0.7

        def ident():
            return rng.randint(0, nid) if rng.random() < 0.9 else rng.randint(0, 9)

        def timept():
            r = rng.random()
            if r < 0.12:
                return max(0, clock - rng.randint(0, 4))        # now or in the past
            return clock + rng.randint(0, span)

        for k in range(nops):
            if rng.random() < 0.12:
                p_sleep = rng.choice([0.15, 0.45, 0.7])
            r = rng.random()
            if with_ivl and not ivl_made and r < 0.3:
                lines.append("ivl %d %d" % (rng.randint(1, 8), clock))
                ivl_made = True
                continue
            if ivl_made and r < 0.12:
                lines.append("next %d" % clock if rng.random() < 0.85 else "stop")
                continue
            r = rng.random()
            if r < p_sleep:
                lines.append("%s %d %d" % ("sleep" if rng.random() < 0.85 else "sched", timept(), ident()))
                continue
            r = rng.random()
            if r < 0.22:
                if monotone or rng.random() < 0.6:
                    clock += rng.randint(0, max(1, span // 2))
                    now = clock
                else:
                    now = max(0, clock + rng.randint(-3, 3))
                lines.append("ge %d" % now)
            elif r < 0.40:
                clock += rng.randint(0, max(1, span // 2))
                lines.append("drain %d" % clock)
            elif r < 0.66:
                lines.append("cancel %d" % ident())
            elif r < 0.78:
                lines.append("cancelx %d %d" % (ident(), rng.randint(1, 9)))
            elif r < 0.90:
                lines.append("remove %d" % ident())
            else:
                lines.append("dump")
        if rng.random() < 0.25:
            lines.append("drain %d" % (clock + span + 10))
        if rng.random() < 0.15:
            lines.append("destroy")
        lines.append("end")
        return {"id": 0, "lines": lines}

    def exhaustive_small(self, depth, limit):
        """all op sequences of the given length over a tiny alphabet (equal deadlines, one reused id): small-scope sweep"""
        alpha = ["sleep 5 1", "sleep 5 2", "sleep 3 1", "cancel 1", "cancel 2", "ge 4", "drain 5", "remove 1"]
        out = []

        def rec(prefix, depth):
            if len(out) >= limit:
                return
            if depth == 0:
                out.append({"id": 0, "lines": ["case 0 man"] + prefix + ["dump", "end"]})
                return
            for a in alpha:
                rec(prefix + [a], depth - 1)
        rec([], depth)
        return out

    def gen_cases(self, rng, tier):
        n = 3000 if tier == "quick" else 280000
        nbig = 100 if tier == "quick" else 6000
        cases = [self.gen_case(rng) for _ in range(n)]
        cases += [self.gen_case(rng, big=True) for _ in range(nbig)]
        if tier == "quick":
            ex = self.exhaustive_small(4, 8 ** 4)
            ex = [ex[i] for i in sorted(rng.sample(range(len(ex)), 600))]
        else:
            ex = self.exhaustive_small(4, 8 ** 4) + self.exhaustive_small(5, 8 ** 5)
        return cases + ex

    # ---------------------------------------------------------------------------------------- oracle
    def oracle(self, case, out):
        """the statement of C12 evaluated on the implementation's trace against a multiset of pending sleeps.
        Relational: among equal deadlines / equal identifiers any choice of the implementation is accepted."""
        msgs = []
        ops = [l for l in case["lines"][1:] if l.split()]
        pend = {}          # key -> (tp, id);  key = harness index of the sleep, or 'T' for the generator's sleep
        done = set()
        nsleep = 0
        wait_until = None  # deadline a worker would be parked on after the last get_expired that returned a time
        ivl = None         # dict(dur, started, stop, done, next_tp, sleeping)
        alive = True

        def bad(cat, txt):
            msgs.append("%s: %s" % (cat, txt))

        def finish_event(ev, allowed_outcomes, what):
            """consume one completion event; returns the key or None"""
            if ev.startswith("ivl="):
                kind = ev[4:]
                if "T" not in pend:
                    bad("duplicate", "generator event %s without a pending interval sleep (%s)" % (ev, what))
                    return None
                tp, _ = pend.pop("T")
                ivl["sleeping"] = False
                if kind == "done":
                    ivl["done"] = True
                return ("T", tp, kind)
            m = re.match(r"sleep#(\d+)=(.*)$", ev)
            if not m:
                bad("protocol", "unparsable event %s" % ev)
                return None
            k, o = int(m.group(1)), m.group(2)
            if k not in pend:
                bad("duplicate", "sleep#%d completed (%s) but is not pending: completed twice or never scheduled (%s)" % (k, o, what))
                return None
            tp, _ = pend.pop(k)
            done.add(k)
            if allowed_outcomes is not None and o not in allowed_outcomes:
                bad("outcome", "sleep#%d completed with %s, expected one of %s (%s)" % (k, o, sorted(allowed_outcomes), what))
            return (k, tp, o)

        def min_pending():
            return min([tp for tp, _ in pend.values()], default=INF)

        for op, line in zip(ops, out):
            w = op.split()
            head, evs = parse_line(line)
            if head and head[0] == "FATAL":
                bad("hang", " ".join(head[1:]))
                break
            if w[0] in ("sleep", "sched") and alive:
                tp, ident = int(w[1]), int(w[2])
                m = re.match(r"sleep#(\d+)$", head[0])
                if not m or int(m.group(1)) != nsleep:
                    bad("protocol", "unexpected sleep index in `%s`" % line)
                    break
                if head[1] != "pending":
                    bad("early", "sleep#%d until %d completed inside schedule(): %s" % (nsleep, tp, head[1]))
                else:
                    pend[nsleep] = (tp, ident)
                ntf = int(head[2].split("=")[1])
                if wait_until is not None and tp < wait_until and ntf == 0:
                    bad("late", "schedule(tp=%d) did not notify although a worker that polled before it would be waiting until %s"
                        % (tp, wait_until))
                if ntf:
                    wait_until = None
                nsleep += 1
                for e in evs:
                    finish_event(e, set(), "schedule must not complete anything")
            elif w[0] == "ge" and alive:
                now = int(w[1])
                if head[1] == "p":
                    if len(evs) != 1:
                        bad("once", "get_expired handed out one promise but %d sleeps completed" % len(evs))
                    mp = min_pending()
                    for e in evs:
                        r = finish_event(e, {"ok", "tick"}, "get_expired(%d)" % now)
                        if r:
                            if r[1] > now:
                                bad("early", "%s with time point %d handed out at %d" % (e, r[1], now))
                            if r[1] > mp:
                                bad("order", "%s (time point %d) handed out while a sleep with time point %d was pending" % (e, r[1], mp))
                            if r[0] == "T":
                                ivl["next_tp"] = now + ivl["dur"]
                    wait_until = None
                else:
                    t = tval(head[1])
                    mp = min_pending()
                    if mp <= now:
                        bad("late", "get_expired(%d) returned a time point although a sleep until %d is pending" % (now, mp))
                    elif t > mp:
                        bad("late", "get_expired(%d) says the next event is at %s but a sleep until %d is pending" % (now, t, mp))
                    elif t < mp and t != INF:
                        # an earlier wake-up than needed is harmless only if it is in the future
                        if t <= now:
                            bad("late", "get_expired(%d) returned the time point %s that is not in the future" % (now, t))
                    for e in evs:
                        finish_event(e, set(), "get_expired returned a time")
                    wait_until = t
            elif w[0] == "drain" and alive:
                now = int(w[1])
                last = -1
                for e in evs:
                    mp = min_pending()
                    r = finish_event(e, {"ok", "tick"}, "drain(%d)" % now)
                    if r:
                        if r[1] > now:
                            bad("early", "%s with time point %d handed out at %d" % (e, r[1], now))
                        if r[1] > mp or r[1] < last:
                            bad("order", "%s (time point %d) handed out out of time-point order" % (e, r[1]))
                        last = r[1]
                        if r[0] == "T":
                            ivl["next_tp"] = now + ivl["dur"]
                t = tval(head[1])
                mp = min_pending()
                if mp <= now:
                    bad("late", "after draining at %d a sleep until %d is still pending" % (now, mp))
                elif t > mp:
                    bad("late", "drain(%d) says the next event is at %s but a sleep until %d is pending" % (now, t, mp))
                elif t < mp and t <= now:
                    bad("late", "drain(%d) returned the time point %s that is not in the future" % (now, t))
                wait_until = t
            elif w[0] in ("cancel", "cancelx", "remove") and alive:
                ident = int(w[1])
                r = head[1]
                want = {"canceled"} if w[0] == "cancel" else ({"exc:%s" % w[2]} if w[0] == "cancelx" else {"ok"})
                cands = [k for k, (tp, i) in pend.items() if i == ident and k != "T"]
                if cands:
                    if r != "1":
                        bad("cancel-miss", "%s(%d) reported false although sleep#%s is pending with that identifier" % (w[0], ident, cands))
                    if len(evs) != 1:
                        bad("cancel-count", "%s(%d) completed %d sleeps, expected exactly one" % (w[0], ident, len(evs)))
                    for e in evs:
                        x = finish_event(e, want, "%s(%d)" % (w[0], ident))
                        if x and x[0] not in cands:
                            bad("cancel-target", "%s(%d) completed %s which does not carry that identifier" % (w[0], ident, e))
                else:
                    if r != "0":
                        bad("cancel-false", "%s(%d) reported true with nothing pending under that identifier" % (w[0], ident))
                    for e in evs:
                        finish_event(e, set(), "%s(%d) with nothing pending must have no effect" % (w[0], ident))
            elif w[0] == "dump" and alive:
                n = int(head[1].split("=")[1])
                live = sorted(x.rsplit(":", 1)[0] for x in head[2:] if x.endswith(":1"))
                want = sorted("%d:%s" % (tp, "T" if k == "T" else i) for k, (tp, i) in pend.items())
                if n != len(head) - 2:
                    bad("protocol", "dump length mismatch")
                if live != want:
                    bad("state", "live entries of the vector %s differ from the pending sleeps %s" % (live, want))
            elif w[0] == "ivl" and alive:
                ivl = {"dur": int(w[1]), "started": False, "stop": False, "done": False, "next_tp": None, "sleeping": False}
            elif w[0] == "next" and alive:
                if head[1] == "n/a":
                    continue
                now = int(w[1])
                if not ivl["started"]:
                    ivl["started"] = True
                    ivl["next_tp"] = now + ivl["dur"]
                if head[1] == "pending":
                    if ivl["stop"]:
                        bad("stop-token", "interval() went to sleep although its stop token was already set")
                    pend["T"] = (ivl["next_tp"], "T")
                    ivl["sleeping"] = True
                    ntf = int(head[2].split("=")[1])
                    if wait_until is not None and ivl["next_tp"] < wait_until and ntf == 0:
                        bad("late", "interval sleep until %d did not notify a worker waiting until %s" % (ivl["next_tp"], wait_until))
                    if ntf:
                        wait_until = None
                else:
                    if not ivl["stop"]:
                        bad("early", "interval() produced a result without sleeping and without a stop request")
                    if evs != ["ivl=done"]:
                        bad("stop-token", "a stopped interval() did not finish: %s" % evs)
                    ivl["done"] = True
            elif w[0] == "stop" and alive:
                if head[1] == "n/a":
                    continue
                first = not ivl["stop"]
                ivl["stop"] = True
                if "T" in pend:
                    if evs != ["ivl=done"]:
                        bad("stop-token", "request_stop() did not cancel the pending interval sleep (events %s)" % evs)
                    for e in evs:
                        finish_event(e, None, "request_stop")
                else:
                    for e in evs:
                        finish_event(e, set(), "request_stop with no interval sleep pending")
                if first != (head[1] == "1"):
                    bad("protocol", "request_stop() returned %s" % head[1])
            elif w[0] in ("destroy", "end"):
                alive = False
                for e in evs:
                    finish_event(e, {"canceled", "done"}, "destruction")
                if pend:
                    bad("hang", "sleeps %s are still pending after the scheduler was destroyed" % sorted(map(str, pend)))
                break
            else:
                continue
        if alive and not msgs and len(out) < len(ops):
            bad("protocol", "implementation trace ends early")
        return msgs

    # ---------------------------------------------------------------------------------------- evidence
    def nontrivial(self, case, out):
        exp = any(l.startswith(("ge p", "drain")) and "=ok" in l for l in out)
        hit = any(l.startswith(("cancel 1", "remove 1")) or (l.startswith("stop") and "ivl=done" in l) for l in out)
        return exp and hit

    def stats(self, cases, outs):
        ops = {}
        st = {"cancel_true": 0, "cancel_false": 0, "remove_true": 0, "remove_false": 0, "expired": 0, "dropped_at_destroy": 0,
              "cases_with_equal_deadlines": 0, "cases_with_reused_live_id": 0, "cases_with_past_time_point": 0,
              "dead_entries_seen_in_dump": 0, "max_vector": 0, "interval_cases": 0, "stop_cancelled_sleep": 0,
              "stop_idle": 0, "notified": 0, "not_notified": 0, "time_results": 0}
        for c in cases:
            o = outs.get(str(c["id"]), [])
            tps, ids, past, clock = [], [], False, 0
            for l in c["lines"][1:-1]:
                w = l.split()
                ops[w[0]] = ops.get(w[0], 0) + 1
                if w[0] in ("sleep", "sched"):
                    tps.append(int(w[1]))
                    ids.append(int(w[2]))
                    past = past or int(w[1]) <= clock
                elif w[0] in ("ge", "drain"):
                    clock = max(clock, int(w[1]))
            st["cases_with_equal_deadlines"] += len(set(tps)) < len(tps)
            st["cases_with_reused_live_id"] += len(set(ids)) < len(ids)
            st["cases_with_past_time_point"] += past
            st["interval_cases"] += any(l.startswith("ivl") for l in c["lines"])
            for l in o:
                if l.startswith("cancel 1"):
                    st["cancel_true"] += 1
                elif l.startswith("cancel 0"):
                    st["cancel_false"] += 1
                elif l.startswith("remove 1"):
                    st["remove_true"] += 1
                elif l.startswith("remove 0"):
                    st["remove_false"] += 1
                elif l.startswith("dump"):
                    w = l.split()
                    st["dead_entries_seen_in_dump"] += sum(1 for x in w[2:] if x.endswith(":0"))
                    st["max_vector"] = max(st["max_vector"], len(w) - 2)
                elif l.startswith("stop 1"):
                    if "ivl=done" in l:
                        st["stop_cancelled_sleep"] += 1
                    else:
                        st["stop_idle"] += 1
                if l.startswith(("ge p", "drain")):
                    st["expired"] += l.count("=ok") + l.count("ivl=tick")
                if l.startswith(("ge t", "drain t")):
                    st["time_results"] += 1
                if l.startswith(("end", "destroy")):
                    st["dropped_at_destroy"] += l.count("=canceled")
                if " ntf=1" in l:
                    st["notified"] += 1
                elif " ntf=0" in l:
                    st["not_notified"] += 1
        st["ops"] = ops
        return st


class RunSuite(Suite):
    """scheduler::start(awaitable) in the only thread under virtual time: scripted sleeper coroutines that sleep
    (relative, absolute, past), cancel each other (plain call and co_await form, default and custom exception)"""
    name = "start-virtual-time"
    harness = HARNESS
    driver = "drv_c12"
    corpus_prefix = "c12run_"
    chunk = 50
    nontrivial_rule = "the scheduling thread blocked at least once and at least one sleeper was cancelled by another one"

    def gen_case(self, rng):
        nco = rng.choice([1, 2, 2, 3, 3, 4, 5, 6])
        nid = rng.choice([1, 2, 3, 4])
        span = rng.choice([2, 5, 9])
        t0 = rng.choice([0, 0, 3, 10])
        lines = ["case 0 run %d" % t0]
        for k in range(nco):
            acts = []
            for j in range(rng.randint(1, 6)):
                r = rng.random()
                ident = rng.randint(0, nid)
                if r < 0.45:
                    acts.append("s%d:%d" % (rng.randint(0, span), ident))
                elif r < 0.60:
                    acts.append("u%d:%d" % (max(0, t0 + rng.randint(-3, 2 * span)), ident))
                elif r < 0.75:
                    acts.append("c%d" % ident)
                elif r < 0.87:
                    acts.append("a%d" % ident)
                elif r < 0.94:
                    acts.append("x%d:%d" % (ident, rng.randint(1, 9)))
                else:
                    acts.append("y%d:%d" % (ident, rng.randint(1, 9)))
            lines.append("co " + " ".join(acts))
        # what the awaitable handed to start() is: future<void> / future<int>, completing / failing
        mode = rng.choice([0, 0, 1, 2, 2, 3])
        lines += ["go" if mode == 0 and rng.random() < 0.5 else "go %d" % mode, "end"]
        return {"id": 0, "lines": lines}

    @staticmethod
    def _go_mode(case):
        for l in case["lines"]:
            w = l.split()
            if w and w[0] == "go":
                return (int(w[1]) & 3) if len(w) > 1 else 0
        return None

    def gen_cases(self, rng, tier):
        n = 2000 if tier == "quick" else 150000
        return [self.gen_case(rng) for _ in range(n)]

    @staticmethod
    def _scripts(case):
        sc = []
        for l in case["lines"][1:]:
            w = l.split()
            if w and w[0] == "co":
                sc.append(w[1:])
        return sc

    def oracle(self, case, out):
        msgs = []

        def bad(cat, txt):
            msgs.append("%s: %s" % (cat, txt))

        mode = self._go_mode(case)
        if mode is None:
            return msgs
        go = [l for l in out if l.startswith("go")]
        if not go:
            if any(l.startswith("FATAL") for l in out):
                bad("hang", " ".join(out[-1].split()[1:]))
            else:
                bad("protocol", "no trace")
            return msgs
        head, evs = parse_line(go[0])
        scripts = self._scripts(case)
        cancels = [[a for a in sc if a[0] in "caxy"] for sc in scripts]
        ncancel = [0] * len(scripts)
        sleeps = []        # dict(k, t_sched, tp, id, s_idx, w_idx, w_clock, outcome)
        cur = {}           # coroutine -> index into sleeps
        cs = []            # (idx, k, clock, id, result, want_outcome)
        finished = set()
        ret = None
        for i, e in enumerate(evs):
            m = re.match(r"S(\d+)@(\d+):(\d+):(\d+)$", e)
            if m:
                k, t, tp, ident = map(int, m.groups())
                if k in cur:
                    bad("once", "coroutine %d issued a sleep while another one of its sleeps is pending" % k)
                cur[k] = len(sleeps)
                sleeps.append({"k": k, "t": t, "tp": tp, "id": ident, "s": i, "w": None, "wc": None, "o": None})
                continue
            m = re.match(r"W(\d+)@(\d+)=(.*)$", e)
            if m:
                k, t, o = int(m.group(1)), int(m.group(2)), m.group(3)
                if k not in cur:
                    bad("duplicate", "coroutine %d woken (%s) without a pending sleep: a sleep completed twice" % (k, o))
                    continue
                sl = sleeps[cur.pop(k)]
                sl.update(w=i, wc=t, o=o)
                if o == "ok":
                    if t < sl["tp"]:
                        bad("early", "sleep until %d of coroutine %d completed at %d" % (sl["tp"], k, t))
                    elif t != max(sl["tp"], sl["t"]):
                        bad("late", "sleep until %d (issued at %d) of coroutine %d completed at %d although the thread was idle"
                            % (sl["tp"], sl["t"], k, t))
                continue
            m = re.match(r"C(\d+)@(\d+):(\d+)=([01])$", e)
            if m:
                k, t, ident, r = map(int, m.groups())
                a = cancels[k][ncancel[k]] if ncancel[k] < len(cancels[k]) else "c0"
                ncancel[k] += 1
                want = "exc:" + a.split(":")[1] if a[0] in "xy" else "canceled"
                cs.append((i, k, t, ident, r, want))
                continue
            m = re.match(r"D(\d+)@(\d+)$", e)
            if m:
                finished.add(int(m.group(1)))
                continue
            m = re.match(r"wait:(\d+)->(\d+)$", e)
            if m:
                a, b = int(m.group(1)), int(m.group(2))
                pend = [sleeps[j]["tp"] for j in cur.values()]
                if not pend:
                    bad("late", "the scheduling thread blocked until %d with nothing pending" % b)
                elif b > min(pend):
                    bad("late", "the scheduling thread blocked until %d although a sleep until %d is pending" % (b, min(pend)))
                elif b <= a:
                    bad("late", "the scheduling thread waits for %d at clock %d: a due sleep was not handed out" % (b, a))
                continue
            m = re.match(r"ret@(\d+)(=.*)?$", e)
            if m:
                ret = int(m.group(1))
                want = ["", "=exc:7", "=v:%d" % (1000 + len(scripts)), "=exc:7"][mode]
                if (m.group(2) or "") != want:
                    bad("outcome", "start() handed back `%s`, the awaitable ended with `%s`" % (m.group(2) or "", want))
                continue
            if e.startswith("n=") or re.match(r"\d+:\d+:[01]$", e):
                if e.endswith(":1") and not e.startswith("n="):
                    bad("hang", "a live entry %s is left in the scheduler after start() returned" % e)
                continue
            bad("protocol", "unknown event %s" % e)
        if ret is None:
            bad("hang", "start() did not return")
        if cur:
            bad("hang", "sleeps of coroutines %s never completed" % sorted(cur))
        if finished != set(range(len(scripts))):
            bad("hang", "coroutines %s did not finish" % sorted(set(range(len(scripts))) - finished))
        # cancel(id) == true  <->  exactly one sleep with that id completed with that exception at that instant
        hits = sorted((t, ident, want) for (_, _, t, ident, r, want) in cs if r == 1)
        woken = sorted((sl["wc"], sl["id"], sl["o"]) for sl in sleeps if sl["o"] not in (None, "ok"))
        if hits != woken:
            bad("cancel-count", "successful cancels (clock,id,exception) %s do not match the cancelled sleeps %s" % (hits, woken))
        # cancel(id) == false although a sleep with that id was pending and stayed pending beyond that instant
        for (i, k, t, ident, r, want) in cs:
            if r == 0:
                for sl in sleeps:
                    if sl["id"] == ident and sl["s"] < i and (sl["w"] is None or (sl["w"] > i and sl["wc"] > t)):
                        bad("cancel-miss", "cancel(%d) at %d reported false although coroutine %d sleeps on that identifier until %s"
                            % (ident, t, sl["k"], sl["tp"]))
                        break
        return msgs

    def nontrivial(self, case, out):
        l = " ".join(out)
        return "wait:" in l and ("=canceled" in l or "=exc:" in l)

    def stats(self, cases, outs):
        st = {"coroutines": 0, "sleeps": 0, "woken_ok": 0, "woken_cancelled": 0, "cancel_true": 0, "cancel_false": 0,
              "thread_blocked": 0, "past_time_points": 0, "max_coroutines": 0, "awaited_cancels": 0,
              "start_awaitable": {"future<void> ok": 0, "future<void> exception": 0, "future<int> value": 0, "future<int> exception": 0}}
        for c in cases:
            sc = self._scripts(c)
            gm = self._go_mode(c)
            if gm is not None:
                st["start_awaitable"][list(st["start_awaitable"])[gm]] += 1
            st["coroutines"] += len(sc)
            st["max_coroutines"] = max(st["max_coroutines"], len(sc))
            st["awaited_cancels"] += sum(1 for s_ in sc for a in s_ if a[0] in "ay")
            for l in outs.get(str(c["id"]), []):
                if not l.startswith("go"):
                    continue
                for e in l.split()[2:]:
                    if e[0] == "S":
                        st["sleeps"] += 1
                        m = re.match(r"S\d+@(\d+):(\d+):", e)
                        st["past_time_points"] += int(m.group(2)) <= int(m.group(1))
                    elif e[0] == "W":
                        st["woken_ok" if e.endswith("=ok") else "woken_cancelled"] += 1
                    elif e[0] == "C":
                        st["cancel_true" if e.endswith("=1") else "cancel_false"] += 1
                    elif e.startswith("wait:"):
                        st["thread_blocked"] += 1
        return st


def entry_point(header):
    """which public entry point started the worker (selected by the last token of the case header)"""
    w = header.split()
    if w[2] in ("thr", "thrstep"):
        v = int(w[3]) % 3 if len(w) > 3 else 0
        return ["scheduler(std::thread&)", "start(std::thread&)", "start_thread()"][v]
    v = int(w[4]) % 2 if len(w) > 4 else 0
    return ["scheduler(thread_pool&)", "start(thread_pool&)"][v]


def cb_spec(w):
    """cbs <tp> <id> s <tp2> <id2> | cbs <tp> <id> c <id2>  ->  ('s', tp2, id2) | ('c', id2)"""
    if len(w) > 3 and w[3] == "c":
        return ("c", int(w[4]))
    return ("s", int(w[4]), int(w[5]))


def cbs_line(rng, tp, ident, clock, span, nid):
    """a sleep whose completion callback re-arms a timer (also in the past / at the same time point) or cancels an identifier"""
    if rng.random() < 0.55:
        tp2 = max(0, clock - rng.randint(0, 3)) if rng.random() < 0.15 else rng.choice([tp, tp + rng.randint(0, span), clock + rng.randint(0, span)])
        return "cbs %d %d s %d %d" % (tp, ident, tp2, rng.randint(0, nid))
    return "cbs %d %d c %d" % (tp, ident, rng.randint(0, nid))


def mt_oracle(case, out, step):
    """C12 evaluated on a thread / thread-pool trace (virtual clock), `step`: the worker is advanced one lock region at a time.
    Relational: a multiset of pending sleeps (those made by the main thread, key k, and those made by completion callbacks
    that call the scheduler again, key ('c', k)); within one output line the order of the worker's actions is not assumed."""
    msgs = []

    def bad(cat, txt):
        msgs.append("%s: %s" % (cat, txt))

    def name(key):
        return "cs#%d" % key[1] if isinstance(key, tuple) else "sleep#%d" % key

    ops = [l for l in case["lines"][1:] if l.split()]
    pend = {}        # key -> (tp, id, clock when scheduled)
    spec = {}        # k -> what the completion callback of sleep#k does
    fired = {}       # k -> index of the line on which sleep#k completed (its callback has been started)
    reported = set() # k whose callback has returned
    watch = {}       # k (callback cancels id2) -> sleeps carrying id2 that were pending before sleep#k completed
    pool = {}        # id -> completions with await_canceled_exception not yet accounted for by a cancel() == true
    clock = 0
    nsleep = 0
    freed = None     # clock at which the stepping ended (step mode)
    for li, (op, line) in enumerate(zip(ops, out)):
        w = op.split()
        head, evs = parse_line(line)
        if head and head[0] == "FATAL":
            bad("hang", " ".join(head[1:]))
            break
        status = None
        if head and head[-1].startswith("w="):
            status = head[-1][2:]
            head = head[:-1]
        last = w[0] in ("end", "destroy")
        comps, cbevs = [], []
        for e in evs:
            m = re.match(r"(sleep|cs)#(\d+)=([^@]*)@(\d+)$", e)
            if m:
                k = int(m.group(2))
                comps.append((k if m.group(1) == "sleep" else ("c", k), m.group(3), int(m.group(4))))
                continue
            m = re.match(r"cb([sc])#(\d+)=([^@]*)@(\d+)$", e)
            if m:
                cbevs.append((m.group(1), int(m.group(2)), m.group(3), int(m.group(4))))
                continue
            bad("protocol", "unparsable event %s" % e)
        start_pend = dict(pend)
        mine = None          # the completion that is the main thread's own cancel / remove
        if w[0] in ("sleep", "sched", "cbs"):
            m = re.match(r"sleep#(\d+)$", head[0])
            if not m or int(m.group(1)) != nsleep:
                bad("protocol", "unexpected sleep index in `%s`" % line)
                break
            pend[nsleep] = (int(w[1]), int(w[2]), clock)
            if w[0] == "cbs":
                spec[nsleep] = cb_spec(w)
            nsleep += 1
        elif w[0] in ("cancel", "cancelx", "remove"):
            ident = int(w[1])
            want = "canceled" if w[0] == "cancel" else ("exc:%s" % w[2] if w[0] == "cancelx" else "ok")
            cands = [k for k, (tp, i, t) in pend.items() if i == ident]
            hit = [c for c in comps if c[0] in cands and c[1] == want]
            if cands:
                if head[1] != "1":
                    bad("cancel-miss", "%s(%d) reported false although %s is pending with that identifier"
                        % (w[0], ident, [name(k) for k in cands]))
                elif not hit:
                    bad("cancel-count", "%s(%d) reported true but completed no sleep with that identifier" % (w[0], ident))
                elif len(hit) != 1 and w[0] == "cancelx":
                    bad("cancel-count", "%s(%d) completed %d sleeps with that identifier, expected exactly one" % (w[0], ident, len(hit)))
                if hit and head[1] == "1":
                    mine = hit[0]
            elif head[1] != "0":
                bad("cancel-false", "%s(%d) reported true with nothing pending under that identifier" % (w[0], ident))
        elif w[0] == "dump":
            live = sorted(x.rsplit(":", 1)[0] for x in head[2:] if x.endswith(":1"))
            want = sorted("%d:%d" % (tp, i) for (tp, i, t) in pend.values())
            if live != want:
                bad("state", "live entries of the vector %s differ from the pending sleeps %s" % (live, want))
        elif w[0] == "adv" and step:
            clock = max(clock, int(w[1]))
        elif w[0] == "free" and freed is None:
            freed = clock
        # sleeps made by callbacks that returned on this line exist before they can complete
        for (kind, k, r, c) in cbevs:
            if k not in spec or spec[k][0] != kind or (k not in fired and k not in [x[0] for x in comps]):
                bad("protocol", "callback event cb%s#%d without a completed sleep#%d of that kind" % (kind, k, k))
                continue
            if k in reported:
                bad("duplicate", "the completion callback of sleep#%d ran twice" % k)
                continue
            reported.add(k)
            if kind == "s":
                pend[("c", k)] = (spec[k][1], spec[k][2], c)
        bag = {}             # completions with await_canceled_exception on the last line, by identifier
        for comp in comps:
            key, o, c = comp
            if key not in pend:
                bad("duplicate", "%s completed (%s) but is not pending: completed twice or never scheduled" % (name(key), o))
                continue
            tp, ident, t0 = pend.pop(key)
            if key in spec and not last:
                fired[key] = li
                if spec[key][0] == "c":
                    watch[key] = {k for k, (tp2, i2, t2) in start_pend.items() if i2 == spec[key][1] and k != key}
            if last:
                if o != "canceled":
                    bad("outcome", "%s pending at destruction completed with %s" % (name(key), o))
                bag[ident] = bag.get(ident, 0) + 1
            elif comp is mine:
                pass
            elif o == "ok":
                if c < tp:
                    bad("early", "%s until %d completed at %d" % (name(key), tp, c))
                elif not step and c != max(tp, t0):
                    bad("late", "%s until %d (scheduled at %d) was completed by the idle worker at %d" % (name(key), tp, t0, c))
                elif step and freed is not None and c != max(tp, t0, freed):
                    bad("late", "%s until %d (scheduled at %d, worker running freely since %d) was completed at %d"
                        % (name(key), tp, t0, freed, c))
            elif o == "canceled":
                pool[ident] = pool.get(ident, 0) + 1
            else:
                bad("outcome", "%s completed with %s during `%s`" % (name(key), o, op))
        # a callback's cancel(id): true <-> exactly one pending sleep carrying id completed with await_canceled_exception
        for (kind, k, r, c) in cbevs:
            if kind != "c" or k not in spec or spec[k][0] != "c":
                continue
            ident = spec[k][1]
            if r == "1":
                if pool.get(ident, 0) > 0:
                    pool[ident] -= 1
                elif bag.get(ident, 0) > 0:
                    bag[ident] -= 1
                else:
                    bad("cancel-false", "cancel(%d) called by the callback of sleep#%d reported true but no sleep with that "
                        "identifier was cancelled" % (ident, k))
            else:
                still = sorted(name(x) for x in watch.get(k, ()) if x in pend)
                if still:
                    bad("cancel-miss", "cancel(%d) called by the callback of sleep#%d reported false although %s was pending "
                        "with that identifier all along" % (ident, k, still))
        if not step or last:
            left = {i: n for i, n in pool.items() if n > 0}
            if left:
                bad("outcome", "sleeps with identifiers %s completed with await_canceled_exception during `%s` although no "
                    "cancel() reported true for them" % (sorted(left), op))
                pool.clear()
        if w[0] == "adv" and not step:
            clock = max(clock, int(w[1]))
        if not step or freed is not None:
            if w[0] == "adv":
                late = [name(k) for k, (tp, i, t) in pend.items() if tp <= clock]
                if late:
                    bad("late", "at clock %d the sleeps %s are due but still pending" % (clock, late))
        # the invariant of c12_worker_not_late observed on the real worker: parked => its deadline is not later than
        # any pending sleep (an earlier sleep scheduled meanwhile - also by a callback - must have woken it)
        if status is not None and status.startswith("parked:"):
            d = INF if status == "parked:max" else int(status[7:])
            stale = sorted((name(k) for k, (tp, i, t) in pend.items() if tp < d))
            if stale:
                bad("late", "the worker is parked in wait_until(%s) although %s with an earlier time point is pending: "
                    "it will be woken late%s" % (status[7:], stale, " or never" if d == INF else ""))
        elif status == "gone" and not last:
            bad("hang", "the worker is neither running nor parked")
        if last:
            lost = sorted(k for k in fired if k not in reported)
            if lost:
                bad("hang", "the completion callbacks of sleeps %s never returned from their call of the scheduler" % lost)
            if pend:
                bad("hang", "sleeps %s are still pending after the scheduler was destroyed" % sorted(map(name, pend)))
            break
    return msgs


def cb_stats(cases, outs):
    """how often a completion callback (make_promise) called the scheduler again, and from which thread"""
    st = {"cbs_ops": 0, "callbacks_run_by_worker": 0, "callbacks_run_by_caller_of_cancel_or_remove": 0,
          "callback_rearmed_timer": 0, "callback_cancel_true": 0, "callback_cancel_false": 0, "cases_with_worker_callback": 0}
    for c in cases:
        ops = [x for x in c["lines"][1:] if x.split()]
        cbk = set()
        seen = False
        for op, l in zip(ops, outs.get(str(c["id"]), [])):
            w = op.split()
            head, evs = parse_line(l)
            if w[0] == "cbs" and head:
                st["cbs_ops"] += 1
                m = re.match(r"sleep#(\d+)$", head[0])
                if m:
                    cbk.add(int(m.group(1)))
            if w[0] in ("end", "destroy"):
                continue
            for e in evs:
                m = re.match(r"sleep#(\d+)=([^@]*)@", e)
                if m and int(m.group(1)) in cbk:
                    if m.group(2) == "ok" and w[0] != "remove":
                        st["callbacks_run_by_worker"] += 1
                        seen = True
                    else:
                        st["callbacks_run_by_caller_of_cancel_or_remove"] += 1
                elif e.startswith("cbs#"):
                    st["callback_rearmed_timer"] += 1
                elif e.startswith("cbc#"):
                    st["callback_cancel_true" if "=1@" in e else "callback_cancel_false"] += 1
        st["cases_with_worker_callback"] += seen
    return st


class ThreadSuite(Suite):
    """thread mode (scheduler(std::thread&)) and thread-pool mode (scheduler(thread_pool&)) with real threads under
    virtual time: the main thread acts while the worker is parked, `adv t` moves the clock from deadline to deadline;
    `cbs` schedules a promise whose awaiter is a make_promise callback that calls the scheduler again (sleep_until /
    cancel) from the thread that resolves it - for an expiring sleep that is the worker, inside its iteration"""
    name = "thread-and-pool-virtual-time"
    harness = HARNESS
    driver = "drv_c12"
    corpus_prefix = "c12mt_"
    chunk = 25
    nontrivial_rule = "the worker woke at least two sleepers at different clock readings and a cancel hit a pending sleep"

    def gen_case(self, rng):
        # entry point: scheduler(thread&) / start(thread&) / start_thread();  scheduler(pool&) / start(pool&)
        kind = rng.choice(["thr", "thr 0", "thr 1", "thr 2", "thr 2", "pool 1 0", "pool 2", "pool 3 0", "pool 1 1", "pool 2 1", "pool 3 1"])
        lines = ["case 0 %s" % kind]
        nid = rng.choice([1, 2, 3, 5])
        span = rng.choice([3, 8, 20])
        clock = 0
        p_sleep = rng.choice([0.35, 0.5, 0.65])
        p_cb = rng.choice([0, 0, 0.15, 0.3, 0.6])     # share of the sleeps whose awaiter is a callback that re-enters
        for k in range(rng.randint(4, 40)):
            r = rng.random()
            if r < p_sleep:
                tp = max(0, clock - rng.randint(0, 3)) if rng.random() < 0.12 else clock + rng.randint(0, span)
                if rng.random() < p_cb:
                    lines.append(cbs_line(rng, tp, rng.randint(0, nid), clock, span, nid))
                else:
                    lines.append("%s %d %d" % ("sleep" if rng.random() < 0.85 else "sched", tp, rng.randint(0, nid)))
                continue
            r = rng.random()
            if r < 0.40:
                clock += rng.randint(0, span)
                lines.append("adv %d" % clock)
            elif r < 0.65:
                lines.append("cancel %d" % rng.randint(0, nid))
            elif r < 0.77:
                lines.append("cancelx %d %d" % (rng.randint(0, nid), rng.randint(1, 9)))
            elif r < 0.90:
                lines.append("remove %d" % rng.randint(0, nid))
            else:
                lines.append("dump")
        if rng.random() < 0.3:
            lines.append("adv %d" % (clock + span + 5))
        if rng.random() < 0.15:
            lines.append("destroy")
        lines.append("end")
        return {"id": 0, "lines": lines}

    def gen_cases(self, rng, tier):
        n = 1200 if tier == "quick" else 100000
        return [self.gen_case(rng) for _ in range(n)]

    def oracle(self, case, out):
        return mt_oracle(case, out, step=False)

    def nontrivial(self, case, out):
        clocks = set()
        hit = False
        for l in out:
            for m in re.finditer(r"=ok@(\d+)", l):
                clocks.add(m.group(1))
            hit = hit or l.startswith("cancel 1")
        return len(clocks) >= 2 and hit

    def stats(self, cases, outs):
        st = {"thread_mode_cases": 0, "pool_mode_cases": 0, "woken_by_worker": 0, "cancel_true": 0, "cancel_false": 0,
              "notified": 0, "not_notified": 0, "dropped_at_destroy": 0, "ops": {}, "entry_point": {}}
        for c in cases:
            st["thread_mode_cases" if c["lines"][0].split()[2] == "thr" else "pool_mode_cases"] += 1
            ep = entry_point(c["lines"][0])
            st["entry_point"][ep] = st["entry_point"].get(ep, 0) + 1
            for l in c["lines"][1:-1]:
                k = l.split()[0]
                st["ops"][k] = st["ops"].get(k, 0) + 1
            for l in outs.get(str(c["id"]), []):
                if l.startswith(("adv", "sleep#")):
                    st["woken_by_worker"] += l.count("=ok@")
                if l.startswith("cancel 1"):
                    st["cancel_true"] += 1
                elif l.startswith("cancel 0"):
                    st["cancel_false"] += 1
                if " ntf=1" in l:
                    st["notified"] += 1
                elif " ntf=0" in l:
                    st["not_notified"] += 1
                if l.startswith(("end", "destroy")):
                    st["dropped_at_destroy"] += l.count("=canceled@")
        st["reentrant_callbacks"] = cb_stats(cases, outs)
        return st


class StepSuite(ThreadSuite):
    """interleavings at lock-region granularity, thread mode and thread-pool mode: every acquisition of the scheduler
    mutex by the worker is a stall point, `w` lets it run one lock region, public calls (sleep / cancel / remove / adv /
    destroy) run in between; `free` ends the stepping and the worker runs to its wait as in the thread suite.  A callback
    awaiter that calls the scheduler again (`cbs`) stalls the worker inside its resolution, in front of the mutex it has
    released: that call is a lock region of its own"""
    name = "worker-lock-regions"
    corpus_prefix = "c12step_"
    chunk = 25
    nontrivial_rule = "a public call ran while the worker stood in front of the scheduler mutex and the worker parked afterwards"

    KINDS = ["thrstep", "thrstep 1", "thrstep 2", "poolstep 1", "poolstep 2 1", "poolstep 3", "poolstep 1 1"]

    def systematic(self):
        """a public call injected in front of each of the worker's first lock acquisitions"""
        out = []
        injects = [["sleep 5 2"], ["cancel 1"], ["sleep 3 2", "adv 4"], ["sleep 12 2"], ["adv 10"], []]
        for kind in self.KINDS:
            for base in ([], ["sleep 10 1"], ["sleep 10 1", "sleep 20 3"],
                         # the awaiter is a callback that re-arms the timer / cancels the other sleeper / chains
                         ["cbs 0 1 s 6 1"], ["cbs 0 1 c 3", "sleep 20 3"], ["cbs 0 1 c 3", "cbs 20 3 s 2 2"]):
                for k in range(0, 7):
                    for inj in injects:
                        for tail in (["w"] * 4 + ["free", "adv 30"], ["w"] * 2, ["w"] * 3 + ["sleep 1 4", "w", "w", "free", "adv 30"]):
                            out.append({"id": 0, "lines": ["case 0 " + kind] + base + ["w"] * k + inj + tail + ["end"]})
        return out

    def gen_case(self, rng):
        lines = ["case 0 " + rng.choice(self.KINDS)]
        nid = rng.choice([1, 2, 3])
        span = rng.choice([3, 8, 20])
        clock = 0
        freed = False
        p_w = rng.choice([0.3, 0.45, 0.6])
        p_cb = rng.choice([0, 0, 0.2, 0.4, 0.7])
        for k in range(rng.randint(4, 45)):
            r = rng.random()
            if not freed and r < p_w:
                lines.append("w")
                continue
            r = rng.random()
            if r < 0.45:
                tp = max(0, clock - rng.randint(0, 3)) if rng.random() < 0.12 else clock + rng.randint(0, span)
                if rng.random() < p_cb:
                    lines.append(cbs_line(rng, tp, rng.randint(0, nid), clock, span, nid))
                else:
                    lines.append("%s %d %d" % ("sleep" if rng.random() < 0.85 else "sched", tp, rng.randint(0, nid)))
            elif r < 0.62:
                clock += rng.randint(0, span)
                lines.append("adv %d" % clock)
            elif r < 0.76:
                lines.append("cancel %d" % rng.randint(0, nid))
            elif r < 0.82:
                lines.append("cancelx %d %d" % (rng.randint(0, nid), rng.randint(1, 9)))
            elif r < 0.90:
                lines.append("remove %d" % rng.randint(0, nid))
            elif r < 0.94:
                lines.append("dump")
            elif not freed:
                lines.append("free")
                freed = True
        if rng.random() < 0.5:
            if not freed:
                lines.append("free")
            lines.append("adv %d" % (clock + span + 5))
        if rng.random() < 0.15:
            lines.append("destroy")
        lines.append("end")
        return {"id": 0, "lines": lines}

    def gen_cases(self, rng, tier):
        n = 700 if tier == "quick" else 60000
        sysm = self.systematic()
        if tier == "quick":
            sysm = [sysm[i] for i in sorted(rng.sample(range(len(sysm)), 500))]
        return sysm + [self.gen_case(rng) for _ in range(n)]

    def oracle(self, case, out):
        return mt_oracle(case, out, step=True)

    def nontrivial(self, case, out):
        seen_lock_call = False
        for op, l in zip([x for x in case["lines"][1:] if x.split()], out):
            if op.split()[0] in ("sleep", "sched", "cbs", "cancel", "cancelx", "remove", "adv") and l.split(" ; ")[0].endswith("w=lock"):
                seen_lock_call = True
            if seen_lock_call and "w=parked" in l:
                return True
        return False

    def stats(self, cases, outs):
        st = {"thread_mode_cases": 0, "pool_mode_cases": 0, "worker_steps": 0, "calls_while_worker_at_mutex": 0,
              "calls_while_worker_parked": 0, "parked_observations": 0, "woken_by_worker": 0, "destroyed_while_stepping": 0, "ops": {},
              "entry_point": {}}
        for c in cases:
            st["thread_mode_cases" if c["lines"][0].split()[2] == "thrstep" else "pool_mode_cases"] += 1
            ep = entry_point(c["lines"][0])
            st["entry_point"][ep] = st["entry_point"].get(ep, 0) + 1
            ops = [x for x in c["lines"][1:] if x.split()]
            st["destroyed_while_stepping"] += "free" not in ops
            for op, l in zip(ops, outs.get(str(c["id"]), [])):
                k = op.split()[0]
                st["ops"][k] = st["ops"].get(k, 0) + 1
                h = l.split(" ; ")[0]
                if k == "w":
                    st["worker_steps"] += 1
                elif k in ("sleep", "sched", "cbs", "cancel", "cancelx", "remove", "adv"):
                    st["calls_while_worker_at_mutex"] += h.endswith("w=lock")
                    st["calls_while_worker_parked"] += "w=parked" in h
                st["parked_observations"] += "w=parked" in h
                st["woken_by_worker"] += l.count("=ok@")
        st["reentrant_callbacks"] = cb_stats(cases, outs)
        return st


class StopRaceSuite(Suite):
    """~scheduler() in thread mode while the worker is between its stop check and its wait_until (the harness stalls the
    worker's clock read, which sits exactly there): the stop request must not be lost"""
    name = "stop-race"
    harness = HARNESS
    driver = "drv_c12"
    corpus_prefix = "c12stop_"
    chunk = 1
    nontrivial_rule = "every case (the forced interleaving is the point)"

    def gen_cases(self, rng, tier):
        n = 3 if tier == "quick" else 40
        return [{"id": 0, "lines": ["case 0 stoprace %d" % rng.choice([1, 7, 50, 1000, 100000]), "go", "end"]} for _ in range(n)]

    def oracle(self, case, out):
        msgs = []
        if "go" not in case["lines"]:
            return msgs
        go = [l for l in out if l.startswith("go")]
        if not go:
            return ["hang: no result (%s)" % " ".join(out[-1:])]
        head, evs = parse_line(go[0])
        tp = int(case["lines"][0].split()[3])
        if head[1] != "destroyed=1":
            msgs.append("hang: ~scheduler() did not return until the clock reached the pending sleep's time point %d: "
                        "the stop request was lost and the sleep was left hanging" % tp)
        if len(evs) != 1 or not evs[0].startswith("sleep#0=canceled@"):
            msgs.append("outcome: the sleep pending at destruction completed as %s" % evs)
        return msgs

    def stats(self, cases, outs):
        return {"time_points": sorted({c["lines"][0].split()[3] for c in cases})}


class C12(Spec):
    pid = "C12"
    lean_modules = ["CoclsModel.Props.C12"]
    design_ref = "DESIGN.md §5 C12"
    technique = ("Lean 4 invariant proof (induction over all operation lists, for every heap implementation meeting the std contract; "
                 "libstdc++'s algorithms proved to meet it) + differential correspondence with the real header in manual mode, "
                 "single-thread start(awaitable) mode, thread mode and thread-pool mode under a virtual clock")
    trusted_base = [
        "hand-written model lean/CoclsModel/Scheduler.lean tied to scheduler.h by differential correspondence "
        "(harness/h_sched.cpp vs lean/Drivers/C12.lean, predict mode incl. the vector layout via `dump`) on generated histories",
        "harness interposition of std::mutex / std::condition_variable / std::chrono::system_clock by macro renaming around the cocls "
        "includes (virtual clock; real threads act only at quiescent points in thread/pool mode)",
        "std::mutex / std::condition_variable / std::stop_token / std::vector as specified; std::push_heap/pop_heap are NOT trusted: "
        "their libstdc++ transcription is proved to meet the contract (c12_stdHeap_spec) and checked against the header by `dump`",
        "promise/future layer (C01/C02), coroutine ready queue (C05) and thread_pool (C11) taken as specified; the driver composes the "
        "scheduler model with a FIFO ready queue for start(awaitable)",
    ]
    level_text = ("Lean 4 theorems over an executable model of cocls::scheduler (vector in array order with cancelled entries left in "
                  "place, one step per lock region, worker iterations as poll/wake steps, interval()'s stop callback and the worker's "
                  "loop body as lock programs: the worker resolves an expired promise with the mutex released, so an awaiter that is a "
                  "callback may call schedule()/cancel() again from the worker's thread without blocking it - c12_worker_resolves_unlocked): "
                  "never early, deadline order, exactly once, nothing due withheld / worker never waits past the earliest deadline, "
                  "cancel true iff a pending sleep carries the id and then exactly one completes with the given exception, false = no-op, "
                  "stop-token cancellation terminates, destruction cancels everything — for every operation list, any number of workers, "
                  "and every heap implementation meeting the contract of std::push_heap/pop_heap (hence every tie-break; libstdc++'s "
                  "algorithms are proved to meet it); the model is tied to scheduler.h by running both on generated histories in four "
                  "modes (manual, start(awaitable), std::thread, thread_pool; virtual clock; in thread/pool mode also with the worker stepped "
                  "one lock region at a time between public calls, and with sleeps whose awaiter is a make_promise callback that "
                  "re-arms a timer / cancels another sleeper from the thread that resolves it) and diffing every line; relational property oracles (multiset of "
                  "pending sleeps, wake-up clock = time point, parked worker's deadline <= every pending time point) run on the traces")
    level_note = ("trusted: Lean kernel (axioms propext/Classical.choice/Quot.sound at most), the hand-written model, the differential "
                  "harness (sampling; virtual clock, interposed mutex/condition_variable), std::mutex/condition_variable/stop_token and the "
                  "promise/future layer (C01/C02). Thread interleavings are covered by the theorems at the granularity of the code's lock "
                  "regions (every public method is one region, a worker iteration is the region that ends in wait_until or in the unlock "
                  "in front of the resolution, plus one that only evaluates the loop condition; cancel's and the worker's out-of-lock "
                  "promise resolution touches only the removed promise, and what a callback awaiter does there are further operations of "
                  "the same list); on the real code they are exercised at the same granularity: the worker-lock-regions suite "
                  "stalls the real worker (std::thread and thread_pool) in front of every acquisition of the scheduler mutex and runs public "
                  "calls and ~scheduler there, and checks on every quiescent state that a parked worker's deadline is not later than any "
                  "pending sleep. Interleavings inside a lock region (they would be data races) and real blocking/wake-up latency of "
                  "wait_until (modelled as enabledness under virtual time) are not exercised. Destruction is one atomic step in the main "
                  "model; its stop handshake with the worker is a separate micro-step model (Stop.*, c12_stop_not_lost).")
    assumptions = ["the scheduler is not destroyed while another thread is inside one of its methods",
                   "time points and identifiers are modelled as unbounded naturals (no clock overflow)"]

    def suites(self):
        return [ManualSuite(), RunSuite(), ThreadSuite(), StepSuite(), StopRaceSuite()]


SPEC = C12()
