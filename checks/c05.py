"""C05 — coroutine-mode scheduling: run-to-suspension, FIFO ready queue, full drain."""
import re
from vlib.runner import Spec, Suite

HARNESS = ("h_exec", ["h_exec.cpp"], {})

EV = re.compile(r"^(\d+)\.(\d+)@(\d+)$")
JOB = re.compile(r"^\{([wp])$")
JOBEND = re.compile(r"^\}([01])$")


def parse_act(tok):
    """-> (kind, mode, rev, ids, d) like harness/h_exec.cpp:parse_act; None when malformed"""
    p = tok.split(":")
    k = p[0]

    def ids(s):
        return [int(x) for x in s.split(",") if x.isdigit() and len(x) <= 6]
    if k in ("wake", "gather") and len(p) in (2, 3):
        rev = k == "gather"
        mode = "a" if p[1] == "a" else ("p" if p[1] == "p" and not rev else "d")
        return ("wake", mode, rev, ids(p[2]) if len(p) == 3 else [], None)
    if k == "awaits" and len(p) == 3:
        # co_await of a suspend point that holds the awaiting coroutine's own handle (co_await self()) behind the handles of
        # the first id list, before those of the second
        return ("awaits", None, False, ids(p[1]), ids(p[2]))
    if k == "detach" and len(p) == 3:
        return ("wake", "a" if p[1] == "a" else ("p" if p[1] == "p" else "d"), False, ids(p[2]), None)
    if len(p) == 1 and k in ("parkp", "hop", "hopc", "fwait"):
        return (k, None, False, [], None)
    if len(p) == 2 and k in ("startc", "spawn", "wakep") and p[1].isdigit() and len(p[1]) <= 6:
        # startc = async::operator(); spawn = coroutine entered through coro_queue::initial_awaiter (nobody holds a future)
        return ({"startc": "start"}.get(k, k), None, False, [], int(p[1]))
    if len(p) == 1 and k in ("park", "parkn", "pause", "swap", "end", "enter", "leave", "leavex"):
        # leavex: the callback of install_queue_and_call throws; the statement does not care how the block is left
        return ({"swap": "pause", "leavex": "leave"}.get(k, k), None, False, [], None)
    if len(p) == 2 and k in ("start", "call", "join", "gnext") and p[1].isdigit() and len(p[1]) <= 6:
        # gnext: synchronous / future / callback access to a generator (the body is resumed directly, under a queue)
        return (k, None, False, [], int(p[1]))
    if len(p) == 1 and k == "gyield":
        return (k, None, False, [], None)
    return None


class TraceChecker:
    """The statement of C05 evaluated on one implementation trace.

    It keeps only what the statement talks about: which coroutines are suspended on what (from the acts they
    executed), the order in which coroutines were made ready without a direct transfer (`queue`), and who
    executes. It does not decide who runs next; it checks that whoever ran next was allowed to."""

    def __init__(self):
        self.msgs = []
        self.scripts = {}
        self.pc = {}
        self.status = {}      # cid -> fresh|queued|direct|running|parked|waiting|stacked|yielded|done
        self.isgen = set()    # coroutines that are generator bodies (first activated by an access)
        self.waiting_for = {}  # cid -> child it awaits
        self.starter = {}
        self.queue = []       # made ready (not by direct transfer), not yet resumed, oldest first
        self.qseq = []        # serial number of every entry of `queue`
        self.nseq = 0
        self.loop = []        # handles of a suspend point dropped by ordinary code outside coroutine mode: resumed one
                              # by one, in order, directly by `suspend_now` (they never enter the ready queue)
        self.pause_snap = {}  # cid -> serial numbers of the entries that were queued when it paused
        self.runner = None    # coroutine executing right now
        self.must_continue = None  # (cid, why) the coroutine that must execute the next event
        self.nest = []        # callers blocked in a nested start() (no new queue is installed for it): coroutine ids,
                              # or "main" for ordinary code inside an install_queue_and_call block; innermost last
        self.returned = False  # the running chain has returned to its resumer (park / future await / co_return with
                               # nobody awaiting): with a nested start() pending, its caller must continue now
        self.blocks = 0
        self.jobs = []        # work handed to other threads (pool worker, parallel thread), oldest first: lists of ids
        self.thread = "m"     # whose activation is traced right now: m main thread, w pool worker, p new thread
        self.job_runs = 0
        self.resumes = {}
        self.maxdepth = 0
        self.queued_resumes = 0
        self.nested = 0
        self.gen_accesses = 0
        self.selfawaits = 0
        self.maxq = 0         # most coroutines waiting in the ready queue at the same time
        self.maxq_draining = 0  # the same, counted only at appends made after handles had been taken from a queue that has not
                              # been empty since (the queue grows while its head has advanced)
        self.dq = 0           # handles taken from the queue since it was last empty
        self.maxsp = 0        # most handles in one suspend point

    def flag(self, cat, text):
        self.msgs.append("%s: %s" % (cat, text))

    def st(self, c):
        return self.status.get(c, "fresh")

    def act_of(self, c, k):
        sc = self.scripts.get(c, [])
        return sc[k] if k < len(sc) else ("end", None, False, [], None)

    # -- readying ---------------------------------------------------------------------------------------
    def effective(self, ids, rev):
        """targets of a wake that really yield a handle, in suspend-point order; marks them ready"""
        hs = []
        for t in ids:
            if self.st(t) in ("fresh", "parked"):
                self.status[t] = "queued"
                hs.append(t)
        self.maxsp = max(self.maxsp, len(hs))
        # create_suspend_point keeps the order in which the coroutines were made ready (/repo fix 34c6158; the pinned code reversed it)
        return hs

    def enqueue(self, hs):
        for h in hs:
            self.status[h] = "queued"
            self.queue.append(h)
            self.qseq.append(self.nseq)
            self.nseq += 1
            self.maxq = max(self.maxq, len(self.queue))
            if self.dq:
                self.maxq_draining = max(self.maxq_draining, len(self.queue))

    # -- one event --------------------------------------------------------------------------------------
    def event(self, c, k, depth):
        self.maxdepth = max(self.maxdepth, depth)
        if self.must_continue is not None and self.must_continue[0] != c:
            p, why = self.must_continue
            self.flag("preempt", "coroutine %d ran while coroutine %d was still running (%s)" % (c, p, why))
        self.must_continue = None
        if self.returned and self.nest:
            top = self.nest[-1]
            if top == "main":
                self.flag("preempt", "coroutine %d ran inside a start() call of ordinary code (queue installed by an enclosing "
                          "block) after the started coroutine had suspended/finished; queued coroutines must wait for the "
                          "end of the block" % c)
            elif top != c:
                self.flag("preempt", "coroutine %d ran inside the start() call of coroutine %d after the coroutine it started had "
                          "suspended/finished, although %d itself has neither suspended nor finished" % (c, top, top))
        elif self.returned and self.loop and self.loop[0] != c and self.st(c) == "queued":
            # ordinary code dropped one suspend point outside coroutine mode: ONE queue is installed for all its
            # handles; they were made ready before anything they queue, so each gets its first turn (in order)
            # before a coroutine from the ready queue is resumed by the flush
            self.flag("fifo", "coroutine %d was resumed from the ready queue before handle %d of the suspend point dropped by "
                      "ordinary code, which was made ready earlier, got its first turn" % (c, self.loop[0]))
        self.returned = False
        if self.runner != c:
            # a switch: c must have been made ready (or be a nested starter getting control back)
            s = self.st(c)
            if s == "queued":
                if self.queue and self.queue[0] != c:
                    self.flag("fifo", "coroutine %d resumed before %d, which was queued earlier (queue %s)"
                              % (c, self.queue[0], self.queue))
                if c in self.queue:
                    i = self.queue.index(c)
                    del self.queue[i]
                    del self.qseq[i]
                    self.dq = self.dq + 1 if self.queue else 0
                self.queued_resumes += 1
                self.resumes[c] = self.resumes.get(c, 0) + 1
            elif s == "direct":
                self.resumes[c] = self.resumes.get(c, 0) + 1
            elif s == "looped":
                if self.loop and self.loop[0] != c:
                    self.flag("fifo", "handle %d of a dropped suspend point resumed before %d" % (c, self.loop[0]))
                if c in self.loop:
                    self.loop.remove(c)
                self.resumes[c] = self.resumes.get(c, 0) + 1
            elif s == "stacked":
                while self.nest and self.nest.pop() != c:
                    pass
            elif s == "running":
                self.flag("reentry", "coroutine %d executes although another activation of it is running" % c)
            else:
                self.flag("once", "coroutine %d resumed although it was %s (not made ready)" % (c, s))
            if c in self.pause_snap:
                snap = self.pause_snap.pop(c)
                left = [x for x, q in zip(self.queue, self.qseq) if q in snap]
                if left:
                    self.flag("round-robin", "coroutine %d continued after pause() before queued %s ran" % (c, left))
            self.status[c] = "running"
            self.runner = c
        else:
            if self.st(c) != "running":
                self.flag("once", "coroutine %d executes while %s" % (c, self.st(c)))
            self.status[c] = "running"
        exp = self.pc.get(c, 0)
        if k != exp:
            self.flag("once", "coroutine %d executes act %d, expected act %d (each act exactly once, in order)" % (c, k, exp))
        self.pc[c] = k + 1
        kind, mode, rev, ids, d = self.act_of(c, k)
        if kind == "wake":
            hs = self.effective(ids, rev)
            if mode == "p":
                for h in hs:
                    self.status[h] = "posted"
                if hs:
                    self.jobs.append(hs)
                self.must_continue = (c, "parallel_resume() hands the suspend point to a new thread")
            elif mode == "a" and hs:
                out = hs[-1]
                self.enqueue(hs[:-1])
                self.status[out] = "direct"
                self.enqueue([c])
                self.runner = None
            else:
                self.enqueue(hs)
                self.must_continue = (c, "it only dropped a suspend point")
        elif kind == "awaits":
            # the awaited suspend point is  <pre handles> <own handle> <post handles>: the last one continues by symmetric
            # transfer, the others wait in the ready queue in this order; the awaiting coroutine handed in ONE handle of itself:
            # it is resumed exactly once - at once when its handle is the last one (and then it is not queued)
            pre = self.effective(ids, False)
            post = self.effective(d, False)
            self.selfawaits += 1
            if post:
                out = post[-1]
                self.enqueue(pre + [c] + post[:-1])
                self.status[out] = "direct"
                self.runner = None
            else:
                self.enqueue(pre)
                self.status[c] = "running"
                self.resumes[c] = self.resumes.get(c, 0) + 1
                self.must_continue = (c, "its own handle was the last one of the suspend point it awaits: the transfer goes to itself")
        elif kind in ("park", "parkn"):
            self.status[c] = "parked"
            self.runner = None
            # `parkn` leaves through resume_handle_next(): the queue head, if any, by symmetric transfer
            self.returned = kind == "park" or not self.queue
        elif kind == "parkp":
            self.status[c] = "pparked"
            self.runner = None
            self.returned = True
        elif kind == "wakep":
            if self.st(d) == "pparked":
                self.status[d] = "posted"
                self.jobs.append([d])
            self.must_continue = (c, "a coroutine awaiting through parallel() is handed to a new thread, not resumed here")
        elif kind == "hop" or (kind == "hopc" and self.thread == "w"):
            self.status[c] = "posted"
            self.jobs.append([c])
            self.runner = None
            self.returned = True
        elif kind == "hopc":
            self.must_continue = (c, "co_await thread_pool::current() outside a pool thread is a no-op")
        elif kind == "fwait":
            self.must_continue = (c, "it only blocked in force_wait(): a blocking wait is not a suspension")
        elif kind == "pause":
            self.pause_snap[c] = set(self.qseq)
            self.enqueue([c])
            self.runner = None
        elif kind in ("start", "spawn"):
            if self.st(d) == "fresh":
                self.status[d] = "direct"
                if kind == "start":
                    self.starter[d] = c
                self.status[c] = "stacked"
                self.nest.append(c)
                self.runner = None
                self.nested += 1
            else:
                self.must_continue = (c, "start of a coroutine that already exists is a no-op")
        elif kind == "gnext":
            # synchronous access to a generator whose body has not started / is suspended in co_yield: the body runs now, on the
            # accessor's stack (the accessor has not suspended: it is blocked in the access like in a nested start())
            if self.st(d) in ("fresh", "yielded"):
                self.isgen.add(d)
                self.status[d] = "direct"
                self.status[c] = "stacked"
                self.nest.append(c)
                self.runner = None
                self.nested += 1
                self.gen_accesses += 1
            else:
                self.must_continue = (c, "access to a generator that is busy / finished / not a generator is a no-op")
        elif kind == "gyield":
            if c in self.isgen:
                # co_yield answered to a synchronous access: the body is suspended, control is back in the accessor
                self.status[c] = "yielded"
                self.runner = None
                self.returned = True
            else:
                self.must_continue = (c, "no-op")
        elif kind == "call":
            if self.st(d) == "fresh":
                self.status[d] = "direct"
                self.status[c] = "waiting"
                self.waiting_for[c] = d
                self.runner = None
            else:
                self.must_continue = (c, "no-op")
        elif kind == "join":
            if self.starter.get(d) == c and self.st(d) != "done":
                self.status[c] = "waiting"
                self.waiting_for[c] = d
                self.runner = None
                self.returned = True
            else:
                self.must_continue = (c, "the joined future is ready")
        elif kind == "end":
            self.status[c] = "done"
            self.runner = None
            self.returned = True
            for p, ch in list(self.waiting_for.items()):
                if ch == c and self.st(p) == "waiting":
                    self.status[p] = "direct"
                    del self.waiting_for[p]
                    self.returned = False   # final_awaiter transfers to the awaiting coroutine
        else:  # enter/leave inside a script: no-op
            self.must_continue = (c, "no-op")

    # -- ordinary code ----------------------------------------------------------------------------------
    def main_act(self, act):
        kind, mode, rev, ids, d = act
        if kind == "wake" and mode == "p":
            hs = self.effective(ids, rev)
            for h in hs:
                self.status[h] = "posted"
            if hs:
                self.jobs.append(hs)
        elif kind == "wakep":
            if self.st(d) == "pparked":
                self.status[d] = "posted"
                self.jobs.append([d])
        elif kind == "wake":
            hs = self.effective(ids, rev)
            if self.blocks:
                self.enqueue(hs)
            else:
                for h in hs:
                    self.status[h] = "looped"
                self.loop = hs
        elif kind in ("start", "spawn"):
            if self.st(d) == "fresh":
                self.status[d] = "direct"
                if kind == "start":
                    self.starter[d] = -1
                if self.blocks:
                    self.nest.append("main")
        elif kind == "gnext":
            # ordinary code reads a generator: the body runs in coroutine mode (a queue is installed for the access when none
            # is); what it makes ready runs after the body has suspended/finished (before the access returns when the access
            # installed the queue, at the end of the enclosing block otherwise)
            if self.st(d) in ("fresh", "yielded"):
                self.isgen.add(d)
                self.status[d] = "direct"
                self.gen_accesses += 1
                if self.blocks:
                    self.nest.append("main")
        elif kind == "enter":
            self.blocks += 1
        elif kind == "leave":
            if self.blocks:
                self.blocks -= 1

    def job_begin(self, where, kind):
        """another thread takes its next job: it installs a queue of its own and resumes the handles of the job in order"""
        self.back_in_main(where + " (before the other thread runs)", 0, False)
        self.thread = kind
        self.job_runs += 1
        if not self.jobs:
            self.flag("once", "%s: a thread ran a job although nothing was handed over" % where)
            return
        hs = self.jobs.pop(0)
        for h in hs:
            self.status[h] = "looped"
        self.loop = list(hs)

    def job_end(self, where, active):
        self.back_in_main(where + " (job of the %s)" % ("pool worker" if self.thread == "w" else "new thread"), active, False)
        self.thread = "m"

    def back_in_main(self, where, active, in_block):
        """control is back in ordinary code"""
        if self.must_continue is not None:
            self.must_continue = None
        self.runner = None
        self.returned = False
        self.nest = []
        if in_block:
            if active != 1:
                self.flag("drain", "%s: is_active()=%d inside an install_queue_and_call block" % (where, active))
            pend = [c for c, s in self.status.items() if s in ("direct", "running", "stacked", "looped")]
            if pend:
                self.flag("drain", "%s: coroutines %s did not get/return control" % (where, sorted(pend)))
            return
        if active != 0:
            self.flag("drain", "%s: is_active()=%d after the outermost activation returned" % (where, active))
        pend = sorted(c for c, s in self.status.items() if s in ("queued", "direct", "looped"))
        if pend or self.queue:
            self.flag("drain", "%s: ready coroutine(s) %s left un-run" % (where, pend or self.queue))
        stuck = sorted(c for c, s in self.status.items() if s in ("running", "stacked"))
        if stuck:
            self.flag("drain", "%s: coroutine(s) %s neither suspended nor finished" % (where, stuck))


def check_trace(case, out):
    t = TraceChecker()
    lines = case["lines"][1:]
    if len(out) != len(lines):
        return ["protocol: %d output lines for %d input lines" % (len(out), len(lines))], t
    for inp, o in zip(lines, out):
        w = inp.split()
        head, _, tail = o.partition(" ; ")
        evs = tail.split()
        if w[0] == "a" and len(w) == 3:
            act = parse_act(w[2])
            if act is not None and w[1].isdigit():
                t.scripts.setdefault(int(w[1]), []).append(act)
            continue
        if w[0] == "m" and len(w) == 2:
            act = parse_act(w[1])
            if act is None:
                continue
            t.main_act(act)
            if act[0] == "fwait":
                for e in evs:
                    if JOB.match(e):
                        break
                    m = EV.match(e)
                    if m:
                        t.flag("preempt", "coroutine %s ran inside a blocking force_wait() of ordinary code (queue installed by an "
                               "enclosing block): queued coroutines must wait for the end of the block" % m.group(1))
                        break
        elif w[0] == "end":
            while t.blocks:
                t.main_act(("leave", None, False, [], None))
        else:
            continue
        for e in evs:
            m = EV.match(e)
            if m:
                t.event(int(m.group(1)), int(m.group(2)), int(m.group(3)))
            elif JOB.match(e):
                t.job_begin(inp, JOB.match(e).group(1))
            elif JOBEND.match(e):
                t.job_end(inp, int(JOBEND.match(e).group(1)))
            elif e.startswith("REENTRY"):
                t.flag("reentry", "%s: coroutine resumed while it was already running" % e)
            elif e.startswith("SPURIOUS"):
                t.flag("once", "%s: parked coroutine resumed without having been woken" % e)
            else:
                t.flag("protocol", "unexpected event %s" % e)
        hw = head.split()
        flags = dict(x.split("=", 1) for x in hw if "=" in x)
        active = int(flags.get("a", "-1"))
        t.back_in_main(inp, active, t.blocks > 0)
        cb = flags.get("b")
        if cb is not None:
            want = "1" if (t.blocks == 0 or not t.queue) else "0"
            if cb != want:
                t.flag("drain", "%s: can_block()=%s with %d coroutine(s) queued on this thread%s" % (
                    inp, cb, len(t.queue), "" if t.blocks else ", outside every activation"))
        if w[0] == "end":
            if flags.get("q") != "0":
                t.flag("drain", "%s handle(s) left in the thread's ready queue at the end" % flags.get("q"))
            if t.jobs or any(s == "posted" for s in t.status.values()):
                t.flag("once", "coroutine(s) handed to another thread were never resumed there: %s" % t.jobs)
            susp = sum(1 for s in t.status.values() if s in ("parked", "waiting", "pparked", "yielded"))
            if flags.get("susp") != str(susp):
                t.flag("drain", "%s coroutines alive at the end, %d are suspended on something" % (flags.get("susp"), susp))
            res = [int(x) for x in flags.get("res", "").split(",") if x.isdigit()]
            for c, n in enumerate(res):
                if n != t.resumes.get(c, 0):
                    t.flag("once", "coroutine %d: resume counter %d, but it was made ready %d times" % (c, n, t.resumes.get(c, 0)))
    return t.msgs, t


class ExecSuite(Suite):
    name = "exec-programs"
    harness = HARNESS
    driver = "drv_c05"
    corpus_prefix = "c05_"
    chunk = 50
    nontrivial_rule = "at least 3 coroutines ran and at least 2 resumptions came from the ready queue"

    # ---- generator ------------------------------------------------------------------------------------
    def gen_script(self, rng, c, n, length, spawn_pool):
        acts = []
        started = []
        for _ in range(length):
            r = rng.random()
            others = [x for x in range(n) if x != c]
            if r < 0.26:
                k = rng.choice([1, 1, 2, 2, 3, 4])
                ids = [rng.choice(others) for _ in range(k)]
                mode = rng.choice("ddddaaaarxp")
                if rng.random() < 0.12:
                    acts.append("gather:%s:%s" % ("a" if mode == "a" else "d", ",".join(map(str, ids))))
                else:
                    acts.append("wake:%s:%s" % (mode, ",".join(map(str, ids))))
            elif r < 0.38:
                acts.append("park")
            elif r < 0.41:
                acts.append("parkp")
            elif r < 0.45:
                acts.append("parkn")
            elif r < 0.58:
                acts.append("pause")
            elif r < 0.61:
                acts.append("swap")
            elif r < 0.645:
                acts.append(rng.choice(["hop", "hop", "hopc", "fwait", "fwait"]))
            elif r < 0.665:
                acts.append("wakep:%d" % rng.choice(others))
            elif r < 0.74 and spawn_pool:
                d = spawn_pool.pop(rng.randrange(len(spawn_pool)))
                acts.append("detach:%s:%d" % (rng.choice("ddaar"), d))
            elif r < 0.83 and spawn_pool:
                d = spawn_pool.pop(rng.randrange(len(spawn_pool)))
                kw = rng.choice(["start", "start", "startc", "spawn"])
                acts.append("%s:%d" % (kw, d))
                if kw != "spawn":
                    started.append(d)
            elif r < 0.90 and spawn_pool:
                d = spawn_pool.pop(rng.randrange(len(spawn_pool)))
                acts.append("call:%d" % d)
            elif r < 0.96 and started:
                acts.append("join:%d" % rng.choice(started))
            else:
                acts.append("wake:%s:%s" % (rng.choice("da"), ",".join(str(rng.choice(others)) for _ in range(2))))
        if rng.random() < 0.85:
            for d in started:
                if rng.random() < 0.6:
                    acts.append("join:%d" % d)
        if rng.random() < 0.8:
            acts.append("end")
        return acts

    def gen_case(self, rng, tier):
        big = tier != "quick" and rng.random() < 0.25
        n = rng.randint(2, 8) if not big else rng.randint(6, 14)
        shape = rng.choice(["flat", "flat", "rooted", "rooted", "block", "mixed"])
        via = rng.choice(["promise", "promise", "promise", "mutex", "queue"])
        budget = 40 if not big else 120
        lines = ["case 0 exec %s" % via]
        roots = 1 if shape == "rooted" else rng.randint(1, max(1, min(4, n - 1)))
        spawn_pool = list(range(roots, n))
        total = 0
        for c in range(n):
            length = rng.randint(0, 3) if rng.random() < 0.25 else rng.randint(2, 8 if not big else 14)
            length = min(length, max(0, budget - total))
            sc = self.gen_script(rng, c, n, length, spawn_pool)
            total += len(sc)
            for a in sc:
                lines.append("a %d %s" % (c, a))
        # ordinary code
        main = []
        depth = 0

        def wake_round():
            k = rng.choice([1, 1, 2, 3, n])
            ids = rng.sample(range(n), min(k, n))
            kw = "gather" if rng.random() < 0.1 else "wake"
            mode = "d" if kw == "gather" else rng.choice("dddrxp")
            if rng.random() < 0.12:
                return "wakep:%d" % rng.randrange(n)
            if rng.random() < 0.03:
                return "fwait"
            return "%s:%s:%s" % (kw, mode, ",".join(map(str, ids)))

        if shape in ("block", "mixed") and rng.random() < 0.8:
            main.append("enter")
            depth += 1
        for r in range(roots):
            x = rng.random()
            if x < 0.5:
                main.append("%s:%d" % (rng.choice(["start", "start", "startc", "spawn"]), r))
            elif x < 0.8:
                main.append("detach:%s:%d" % (rng.choice("ddrx"), r))
            else:
                main.append("wake:d:%s" % ",".join(str(i) for i in range(r, roots)))
            if shape in ("block", "mixed") and rng.random() < 0.25:
                if depth and rng.random() < 0.5:
                    main.append(rng.choice(["leave", "leave", "leavex"]))
                    depth -= 1
                elif depth < 3:
                    main.append("enter")
                    depth += 1
        for _ in range(rng.randint(1, 6)):
            main.append(wake_round())
            if shape in ("block", "mixed") and rng.random() < 0.2:
                if depth and rng.random() < 0.6:
                    main.append(rng.choice(["leave", "leave", "leavex"]))
                    depth -= 1
                elif depth < 3:
                    main.append("enter")
                    depth += 1
        if depth and rng.random() < 0.7:
            main += [rng.choice(["leave", "leave", "leavex"]) for _ in range(depth)]
            depth = 0
            if rng.random() < 0.7:
                main.append(wake_round())
        if rng.random() < 0.5:
            main += ["wakep:%d" % c for c in rng.sample(range(n), min(n, rng.randint(1, 3)))]
            main.append(wake_round())
        if rng.random() < 0.15:
            # late script extension (ignored by coroutines that already finished)
            lines_extra = ["a %d pause" % rng.randrange(n)]
        else:
            lines_extra = []
        for i, mline in enumerate(main):
            if lines_extra and i == len(main) // 2:
                lines += lines_extra
            lines.append("m " + mline)
        lines.append("end")
        if not lines_extra and rng.random() < 0.3:
            lines = self.add_generators(rng, lines, n)
        return {"id": 0, "lines": lines}

    def add_generators(self, rng, lines, n):
        """adds 1-2 generators (ids >= n, so that the random wakes of the program never target them) to a finished program: their
        bodies make coroutines of the program ready between co_yields, ordinary code and/or coroutines read them synchronously
        (`gnext`). A synchronous access blocks its thread until the body yields, so a body that is read from inside coroutine mode
        (by a coroutine, or by ordinary code inside an install_queue_and_call block) must not suspend on anything but co_yield:
        such bodies only drop suspend points; a body read by ordinary code outside coroutine mode only (where the access installs
        the queue and drains it) may also pause and co_await suspend points."""
        first_m = next((i for i, l in enumerate(lines) if l.startswith("m ")), len(lines) - 1)
        scripts, mains = lines[1:first_m], lines[first_m:-1]
        for g in range(n, n + rng.choice([1, 1, 2])):
            outside_only = rng.random() < 0.5
            body = []
            for _ in range(rng.randint(1, 7)):
                r = rng.random()
                ids = ",".join(str(rng.randrange(n)) for _ in range(rng.choice([1, 1, 2, 3])))
                if r < 0.40:
                    body.append("%s:%s:%s" % (rng.choice(["wake", "wake", "gather"]), "d", ids))
                elif r < 0.50:
                    body.append("wake:%s:%s" % (rng.choice("rxp"), ids))
                elif r < 0.80:
                    body.append("gyield")
                elif r < 0.84:
                    body.append("fwait")
                elif outside_only:
                    body.append(rng.choice(["pause", "pause", "swap", "wake:a:" + ids, "gather:a:" + ids]))
                else:
                    body.append("gyield")
            if rng.random() < 0.6:
                body.append("end")
            scripts += ["a %d %s" % (g, a) for a in body]
            # accesses by ordinary code
            for _ in range(rng.randint(1, 5)):
                depth, ok = 0, []
                for i, l in enumerate(mains + [""]):
                    if depth == 0 or not outside_only:
                        ok.append(i)
                    if l == "m enter":
                        depth += 1
                    elif l in ("m leave", "m leavex") and depth:
                        depth -= 1
                if ok:
                    mains.insert(rng.choice(ok), "m gnext:%d" % g)
            # accesses by coroutines of the program (and by the other generator's body)
            if not outside_only:
                for _ in range(rng.randint(0, 3)):
                    scripts.insert(rng.randint(0, len(scripts)), "a %d gnext:%d" % (rng.randrange(n + 1) if rng.random() < 0.9 else g, g))
            if rng.random() < 0.3:
                # nothing can make a generator body ready: a wake that names it is a no-op
                mains.insert(rng.randint(0, len(mains)), "m wake:d:%d,%d" % (g, rng.randrange(n)))
        return [lines[0]] + scripts + mains + [lines[-1]]

    def gen_template(self, rng):
        """structured programs: round-robin rings, wake chains, spawn trees"""
        kind = rng.choice(["ring", "chain", "tree", "fan"])
        via = rng.choice(["promise", "mutex", "queue"])
        lines = ["case 0 exec %s" % via]
        n = rng.randint(2, 7)
        if kind == "ring":        # cooperative_multitasking.cpp: k tasks pausing j times
            j = rng.randint(1, 4)
            for c in range(1, n + 1):
                lines.append("a 0 detach:%s:%d" % (rng.choice("ddr"), c))
            lines.append("a 0 %s" % rng.choice(["end", "pause", "park"]))
            for c in range(1, n + 1):
                for _ in range(j):
                    lines.append("a %d %s" % (c, rng.choice(["pause", "pause", "swap"])))
                lines.append("a %d end" % c)
            lines.append("m " + rng.choice(["start:0", "detach:d:0"]))
        elif kind == "chain":     # c parks; c+1 wakes c (discard or await); ordinary code kicks the last one
            for c in range(n):
                lines.append("a %d %s" % (c, rng.choice(["park", "park", "parkn"])))
                if c:
                    lines.append("a %d wake:%s:%d" % (c, rng.choice("da"), c - 1))
                lines.append("a %d %s" % (c, rng.choice(["pause", "end", "park"])))
            lines.append("m wake:d:%s" % ",".join(map(str, range(n))))
            lines.append("m wake:%s:%d" % (rng.choice("dr"), n - 1))
            lines.append("m wake:d:%s" % ",".join(map(str, range(n))))
        elif kind == "tree":      # every coroutine spawns two children, one nested, one awaited
            for c in range(n):
                kids = [k for k in (2 * c + 1, 2 * c + 2) if k < 2 * n]
                for k in kids:
                    lines.append("a %d %s:%d" % (c, rng.choice(["start", "call", "detach:d", "detach:a"]), k))
                lines.append("a %d %s" % (c, rng.choice(["pause", "park", "end"])))
                for k in kids:
                    if rng.random() < 0.7:
                        lines.append("a %d join:%d" % (c, k))
            lines.append("m start:0")
            lines.append("m wake:d:%s" % ",".join(map(str, range(2 * n))))
        else:                     # fan: one suspend point with many handles, dropped or awaited, straight or reversed
            k = rng.randint(2, 9)
            ids = list(range(1, k + 1))
            for c in ids:
                lines.append("a %d park" % c)
                lines.append("a %d %s" % (c, rng.choice(["pause", "end", "wake:d:0"])))
            lines.append("a 0 wake:d:%s" % ",".join(map(str, ids)))
            lines.append("a 0 park")
            rng.shuffle(ids)
            lines.append("a 0 %s:%s:%s" % (rng.choice(["wake", "gather"]), rng.choice("da"), ",".join(map(str, ids))))
            lines.append("a 0 pause")
            lines.append("m start:0")
            lines.append("m wake:d:0")
        if rng.random() < 0.3:
            i = next(k for k, l in enumerate(lines) if l.startswith("m "))
            lines.insert(i, "m enter")
            if rng.random() < 0.5:
                lines.append("m " + rng.choice(["leave", "leavex"]))
                lines.append("m wake:%s:%s" % (rng.choice("dx"), ",".join(map(str, range(n)))))
        lines.append("end")
        return {"id": 0, "lines": lines}

    # ---- wide / deep histories -------------------------------------------------------------------------
    # The programs above never hold more than a handful of ready coroutines at once. The statement quantifies over all N and
    # step counts: the families below make tens to hundreds (thorough: about a thousand) coroutines ready AT THE SAME TIME on
    # one thread, with the ready queue growing while it is being drained (every coroutine that runs readies several others),
    # with widths around powers of two +-1 (where containers grow / wrap), in repeated fill/drain cycles of different widths,
    # with one suspend point holding many handles (dropped, awaited, collected by create_suspend_point) and with deep
    # chains of nested start() / co_await async. Same grammar, same model, same oracle.
    WIDTHS_QUICK = [9, 15, 16, 17, 31, 32, 33, 34, 40, 47, 63, 64, 65, 66, 80, 96, 127, 128, 129, 130]
    WIDTHS_MORE = [191, 255, 256, 257, 258, 300, 383, 511, 512, 513, 520]

    @staticmethod
    def _ids(xs):
        return ",".join(map(str, xs))

    def _ready_many(self, rng, c, ids, allow_await=False):
        """script lines of coroutine c that make `ids` ready (suspend points dropped): one by one, in one suspend point, through
        create_suspend_point, or in chunks"""
        ids = list(ids)
        if not ids:
            return []
        how = rng.choice(["each", "each", "bulk", "gather", "chunks", "chunks", "await" if allow_await else "bulk"])
        if how == "each":
            return ["a %d detach:%s:%d" % (c, rng.choice("dddr"), i) for i in ids]
        if how == "bulk":
            return ["a %d wake:%s:%s" % (c, rng.choice("dddrx"), self._ids(ids))]
        if how == "gather":
            return ["a %d gather:d:%s" % (c, self._ids(ids))]
        if how == "await":
            return ["a %d %s:a:%s" % (c, rng.choice(["wake", "wake", "gather"]), self._ids(ids))]
        out, i = [], 0
        while i < len(ids):
            k = rng.randint(1, 9)
            out.append("a %d %s:d:%s" % (c, rng.choice(["wake", "wake", "wake", "gather"]), self._ids(ids[i:i + k])))
            i += k
        return out

    def _enter_main(self, rng, root=0):
        """how ordinary code enters the program"""
        r = rng.random()
        if r < 0.55:
            return ["m %s:%d" % (rng.choice(["start", "start", "startc", "spawn"]), root)]
        if r < 0.80:
            return ["m detach:%s:%d" % (rng.choice("ddrx"), root)]
        return ["m enter", "m %s:%d" % (rng.choice(["start", "detach:d", "wake:d"]), root), "m " + rng.choice(["leave", "leavex"])]

    def wide_fanout(self, rng, w):
        """the root makes w children ready; every child, when it gets its turn, makes 0-3 more coroutines ready and pauses /
        parks / finishes: the number of ready coroutines grows while the head of the queue advances"""
        lines = []
        kids = list(range(1, w + 1))
        nxt = w + 1
        lines += self._ready_many(rng, 0, kids)
        lines.append("a 0 %s" % rng.choice(["end", "end", "pause", "park"]))
        fan = rng.choice([[2], [2], [1, 2], [0, 1, 2, 3], [1, 2, 3], [3]])
        tails = rng.choice([["pause"], ["pause"], ["pause", "end"], ["pause", "swap", "park", "end", "parkn"]])
        for c in kids:
            f = rng.choice(fan)
            g = list(range(nxt, nxt + f))
            nxt += f
            lines += self._ready_many(rng, c, g, allow_await=rng.random() < 0.3)
            t = rng.choice(tails)
            if t != "end":
                lines.append("a %d %s" % (c, t))
                if rng.random() < 0.2:
                    lines.append("a %d pause" % c)
            lines.append("a %d end" % c)
            for x in g:
                if rng.random() < 0.15:
                    lines.append("a %d %s" % (x, rng.choice(["pause", "park"])))
        lines += self._enter_main(rng)
        lines.append("m wake:d:%s" % self._ids(range(nxt)))      # whoever parked
        return lines

    def wide_tree(self, rng, w):
        """breadth-first tree: every node readies its b children, then pauses / finishes; ~w nodes"""
        b = rng.choice([2, 2, 3, 4])
        lines = []
        for c in range(w):
            g = [k for k in range(b * c + 1, b * c + b + 1) if k < w]
            lines += self._ready_many(rng, c, g, allow_await=rng.random() < 0.1)
            t = rng.choice(["pause", "end", "end", "park", "swap"])
            if t != "end":
                lines.append("a %d %s" % (c, t))
            lines.append("a %d end" % c)
        lines += self._enter_main(rng)
        lines.append("m wake:%s:%s" % (rng.choice("ddr"), self._ids(range(w))))
        return lines

    def wide_cycles(self, rng, w):
        """repeated fill/drain cycles of different widths: workers park again and again, a pump coroutine (or ordinary code
        inside an install_queue_and_call block) wakes a different number of them in every round"""
        rounds = rng.randint(2, 6)
        workers = list(range(1, w + 1))
        lines = []
        for c in workers:
            for _ in range(rounds):
                lines.append("a %d %s" % (c, rng.choice(["park", "park", "park", "parkn"])))
                if rng.random() < 0.2:
                    lines.append("a %d pause" % c)
            lines.append("a %d end" % c)
        sizes = [rng.choice([w, w, max(1, w // 2), max(1, w // 3), max(1, w - 1), rng.randint(1, w)]) for _ in range(rounds + 1)]
        by_main = rng.random() < 0.4
        if by_main:
            for k in sizes:
                sub = workers[:k] if rng.random() < 0.5 else sorted(rng.sample(workers, k))
                lines += ["m enter", "m %s:d:%s" % (rng.choice(["wake", "wake", "gather"]), self._ids(sub)), "m leave"]
        else:
            for k in sizes:
                sub = workers[:k] if rng.random() < 0.5 else sorted(rng.sample(workers, k))
                lines += self._ready_many(rng, 0, sub)
                lines.append("a 0 %s" % rng.choice(["pause", "pause", "swap"]))
            lines.append("a 0 end")
            lines += self._enter_main(rng)
        lines.append("m wake:d:%s" % self._ids(range(w + 1)))
        lines.append("m wake:d:%s" % self._ids(range(w + 1)))
        return lines

    def wide_ring(self, rng, w):
        """cooperative multitasking at width w: w tasks pause j times each (the queue stays full, its head rotates); one of
        them fans out in the middle"""
        lines = []
        tasks = list(range(1, w + 1))
        lines += self._ready_many(rng, 0, tasks)
        lines.append("a 0 %s" % rng.choice(["end", "pause", "park"]))
        j = rng.randint(1, 3)
        burst = rng.sample(tasks, rng.randint(1, 3))
        nxt = w + 1
        for c in tasks:
            for r in range(j):
                if c in burst and r == j // 2:
                    e = rng.choice([w // 2 + 1, w, w + 1, 5])
                    lines += self._ready_many(rng, c, range(nxt, nxt + e))
                    nxt += e
                lines.append("a %d %s" % (c, rng.choice(["pause", "pause", "pause", "swap"])))
            lines.append("a %d end" % c)
        lines += self._enter_main(rng)
        lines.append("m wake:d:0")
        return lines

    def wide_random(self, rng, w):
        """random programs over many coroutines with short scripts, wide wakes and fan-out"""
        n = w + rng.randint(0, w // 2 + 1)
        pool = list(range(1, n))
        lines = []
        first = pool[:max(1, w // 2)]
        del pool[:len(first)]
        lines += self._ready_many(rng, 0, first)
        lines.append("a 0 %s" % rng.choice(["pause", "end", "park"]))
        for c in range(1, n):
            for _ in range(rng.choice([0, 1, 1, 2, 2, 3, 4])):
                r = rng.random()
                if r < 0.35 and pool:
                    k = min(len(pool), rng.choice([1, 2, 2, 3]))
                    g = pool[:k]
                    del pool[:k]
                    lines += self._ready_many(rng, c, g, allow_await=True)
                elif r < 0.47:
                    k = rng.choice([1, 2, 3, 8, max(1, w // 4), max(1, w // 2)])
                    ids = [rng.randrange(n) for _ in range(k)]
                    lines.append("a %d %s:%s:%s" % (c, rng.choice(["wake", "wake", "gather"]), rng.choice("ddda"), self._ids(ids)))
                elif r < 0.72:
                    lines.append("a %d pause" % c)
                elif r < 0.86:
                    lines.append("a %d %s" % (c, rng.choice(["park", "park", "parkn"])))
                elif r < 0.90:
                    lines.append("a %d swap" % c)
                else:
                    lines.append("a %d end" % c)
        lines += self._enter_main(rng)
        for _ in range(rng.randint(1, 4)):
            k = rng.choice([n, n, w // 2 + 1, 3])
            ids = rng.sample(range(n), min(n, k))
            if rng.random() < 0.4:
                lines += ["m enter", "m wake:d:%s" % self._ids(ids), "m " + rng.choice(["leave", "leavex"])]
            else:
                lines.append("m %s:%s:%s" % (rng.choice(["wake", "wake", "gather"]), "d", self._ids(ids)))
        return lines

    def deep_chain(self, rng, w):
        """deep nesting: coroutine i starts (nested start() on the C stack) / co_awaits / detaches coroutine i+1, after having made
        side coroutines ready; on the way back everybody pauses / joins"""
        d = min(w, 200)
        lines = []
        side = d + 1
        # one dominant way of going one level down: start()/operator() = nested resume on the C stack (depth d), co_await async =
        # chain of d awaiting coroutines (final_awaiter transfers back d times), detach = d queue hand-overs
        main_how = rng.choice([["start", "start", "startc", "spawn"], ["start"], ["call"], ["call", "start"], ["detach:d", "detach:a"]])
        for c in range(d):
            if rng.random() < 0.5:
                f = rng.choice([1, 2, 3])
                lines += self._ready_many(rng, c, range(side, side + f))
                side += f
            how = rng.choice(main_how) if rng.random() < 0.9 else rng.choice(["start", "startc", "spawn", "call", "detach:d", "detach:a"])
            if c + 1 < d:
                lines.append("a %d %s:%d" % (c, how, c + 1))
            t = rng.choice(["pause", "end", "park", "end"])
            if t != "end":
                lines.append("a %d %s" % (c, t))
            if how in ("start", "startc") and c + 1 < d and rng.random() < 0.7:
                lines.append("a %d join:%d" % (c, c + 1))
            lines.append("a %d end" % c)
        lines += self._enter_main(rng)
        lines.append("m wake:d:%s" % self._ids(range(side)))
        lines.append("m wake:d:%s" % self._ids(range(side)))
        return lines

    WIDE_FAMILIES = ["wide_fanout", "wide_fanout", "wide_tree", "wide_cycles", "wide_ring", "wide_random", "deep_chain"]

    def gen_wide(self, rng, tier):
        """every family at every width of the tier's list (the order of families and widths is fixed, the programs are random)"""
        cases = []
        widths = list(self.WIDTHS_QUICK)
        reps = 1
        if tier != "quick":
            widths += self.WIDTHS_MORE + [1023, 1025]
            reps = 8
        for _ in range(reps):
            for i, w in enumerate(widths):
                for fam in self.WIDE_FAMILIES:
                    if tier != "quick" and w > 600 and fam in ("wide_random",) and rng.random() < 0.5:
                        continue
                    via = rng.choice(["promise", "promise", "promise", "mutex", "queue"])
                    body = getattr(self, fam)(rng, w)
                    cases.append({"id": 0, "lines": ["case 0 exec %s" % via] + body + ["end"], "family": fam, "width": w})
        if tier == "quick":
            # a few really wide ones
            for w, fam in ((257, "wide_fanout"), (255, "wide_tree"), (258, "wide_cycles"), (256, "wide_ring"), (200, "deep_chain")):
                cases.append({"id": 0, "lines": ["case 0 exec promise"] + getattr(self, fam)(rng, w) + ["end"], "family": fam, "width": w})
        return cases

    def add_own_handle(self, rng, case):
        """`co_await` of a suspend point that holds the awaiting coroutine's own handle (`sp << co_await self()`): awaited wakes of
        the program get the own handle at a random position (first / middle / LAST), some dropped wakes become such awaits, and a
        coroutine that parks later is a frequent victim (a stale queue entry would resume it while it is suspended)"""
        lines = case["lines"]
        done = 0
        # a generator body that is read synchronously from inside coroutine mode must not suspend on anything but co_yield
        # (assumption of the suite: next_sync() blocks its thread): bodies of generators keep their acts
        gens = {l.split(":")[-1] for l in lines if "gnext:" in l}
        for i, l in enumerate(lines):
            w = l.split()
            if len(w) != 3 or w[0] != "a" or w[1] in gens:
                continue
            k = w[2].split(":")
            if k[0] in ("wake", "detach") and len(k) == 3 and k[1] in ("a", "d") and rng.random() < (0.6 if k[1] == "a" else 0.15):
                ids = k[2].split(",")
                cut = rng.choice([0, len(ids), len(ids), rng.randint(0, len(ids))])
                lines[i] = "a %s awaits:%s:%s" % (w[1], ",".join(ids[:cut]), ",".join(ids[cut:]))
                done += 1
        return done

    def gen_own_handle_templates(self, rng, n):
        """small programs around the own handle: k coroutines park; the driver makes some of them ready, adds its own handle and
        awaits, then suspends on something else (park / pause / join) while the others run"""
        cases = []
        for _ in range(n):
            via = rng.choice(["promise", "promise", "mutex", "queue"])
            k = rng.randint(1, 6)
            lines = ["case 0 exec %s" % via]
            for c in range(1, k + 1):
                lines.append("a %d %s" % (c, rng.choice(["park", "park", "pause", "parkn"])))
                if rng.random() < 0.3:
                    lines.append("a %d wake:d:0" % c)
                lines.append("a %d %s" % (c, rng.choice(["end", "pause", "park"])))
            ids = list(range(1, k + 1)) + ([k + 1] if rng.random() < 0.5 else [])
            rng.shuffle(ids)
            for _ in range(rng.randint(1, 3)):
                sub = rng.sample(ids, rng.randint(0, len(ids)))
                cut = rng.choice([0, len(sub), len(sub), rng.randint(0, len(sub))])
                if rng.random() < 0.3:
                    lines.append("a 0 detach:d:%d" % rng.choice(ids))
                lines.append("a 0 awaits:%s:%s" % (self._ids(sub[:cut]), self._ids(sub[cut:])))
                lines.append("a 0 %s" % rng.choice(["park", "park", "pause", "parkn", "swap"]))
            lines.append("a 0 end")
            lines.append("m wake:d:%s" % self._ids(range(1, k + 1)))
            lines += self._enter_main(rng)
            for _ in range(rng.randint(1, 3)):
                lines.append("m wake:d:%s" % self._ids(rng.sample(range(k + 2), rng.randint(1, k + 1))))
            lines.append("end")
            cases.append({"id": 0, "lines": lines})
        return cases

    def gen_cases(self, rng, tier):
        n = 6000 if tier == "quick" else 200000
        cases = [self.gen_template(rng) if rng.random() < 0.12 else self.gen_case(rng, tier) for _ in range(n)]
        wide = self.gen_wide(rng, tier)
        # own handle inside an awaited suspend point: in a part of the programs above (a second PRNG stream: the programs
        # themselves stay what they were) and in small dedicated programs
        import random as _random
        r2 = _random.Random(rng.getrandbits(64))
        for c in cases:
            if r2.random() < 0.08:
                self.add_own_handle(r2, c)
        for c in wide:
            if r2.random() < 0.25:
                self.add_own_handle(r2, c)
        return cases + wide + self.gen_own_handle_templates(r2, 150 if tier == "quick" else 5000)

    # ---- evaluation -----------------------------------------------------------------------------------
    def oracle(self, case, out):
        if not case["lines"][0].split()[2:3] == ["exec"]:
            return []
        msgs, _ = check_trace(case, out)
        return msgs

    def nontrivial(self, case, out):
        try:
            _, t = check_trace(case, out)
        except Exception:
            return False
        return len(t.resumes) >= 3 and t.queued_resumes >= 2

    def signature(self, case, msg):
        return {"suite": self.name, "msg": msg.split(":")[0]}

    def stats(self, cases, outs):
        acts, shapes, vias = {}, {}, {}
        ncoro, nevents, maxdepth, queued, nested, blocks, jobs, gacc = [], 0, 0, 0, 0, 0, 0, 0
        fams, widest, widest_draining, widest_sp = {}, {}, {}, {}
        selfaw = 0

        def bucket(x):
            for lim in (4, 8, 16, 32, 64, 128, 256, 512, 1024):
                if x <= lim:
                    return "<=%d" % lim
            return ">1024"
        for c in cases:
            hdr = c["lines"][0].split()
            if "family" in c:
                fams[c["family"]] = fams.get(c["family"], 0) + 1
            vias[hdr[3] if len(hdr) > 3 else "promise"] = vias.get(hdr[3] if len(hdr) > 3 else "promise", 0) + 1
            ids = set()
            for l in c["lines"][1:-1]:
                w = l.split()
                if w[0] == "a" and len(w) == 3:
                    ids.add(w[1])
                    k = w[2].split(":")
                    key = k[0] + (":" + k[1] if k[0] in ("wake", "detach", "gather") and len(k) > 1 else "")
                    acts["co " + key] = acts.get("co " + key, 0) + 1
                elif w[0] == "m" and len(w) == 2:
                    k = w[1].split(":")
                    key = k[0] + (":" + k[1] if k[0] in ("wake", "detach", "gather") and len(k) > 1 else "")
                    acts["main " + key] = acts.get("main " + key, 0) + 1
                    if k[0] == "enter":
                        blocks += 1
            ncoro.append(len(ids))
            try:
                _, t = check_trace(c, outs.get(str(c["id"]), []))
                nevents += sum(t.pc.values())
                maxdepth = max(maxdepth, t.maxdepth)
                queued += t.queued_resumes
                nested += t.nested
                jobs += t.job_runs
                gacc += t.gen_accesses
                for dct, v in ((widest, t.maxq), (widest_draining, t.maxq_draining), (widest_sp, t.maxsp)):
                    dct[bucket(v)] = dct.get(bucket(v), 0) + 1
                selfaw += t.selfawaits
            except Exception:
                pass
        hist = {}
        for x in ncoro:
            x = x if x <= 16 else bucket(x)
            hist[x] = hist.get(x, 0) + 1

        def ordered(dct):
            return {k: dct[k] for k in sorted(dct, key=lambda b: (b[0] == ">", int(b.lstrip("<=>"))))}
        return {"acts": dict(sorted(acts.items())), "wake_sources": vias,
                "coroutines_per_program": {str(k): v for k, v in sorted(hist.items(), key=lambda kv: (isinstance(kv[0], str), kv[0] if isinstance(kv[0], int) else (kv[0][0] == ">", int(kv[0].lstrip("<=>")))))},
                "awaits_of_a_suspend_point_holding_the_own_handle_executed": selfaw,
                "wide_deep_families": dict(sorted(fams.items())),
                "programs_by_most_coroutines_ready_at_once": ordered(widest),
                "programs_by_most_ready_at_once_while_the_queue_is_being_drained": ordered(widest_draining),
                "programs_by_most_handles_in_one_suspend_point": ordered(widest_sp),
                "acts_executed": nevents, "resumptions_from_ready_queue": queued, "nested_starts_in_coroutine_mode": nested,
                "install_blocks_entered": blocks, "max_nesting_depth": maxdepth,
                "jobs_run_by_other_threads": jobs,
                "generator_accesses_that_resumed_the_body": gacc,
                "spellings": {"async::start(promise) for fresh targets with id % 3 == 1": "in every wake/detach",
                              "start = async::start(), startc = async::operator(), spawn = coro_queue::initial_awaiter": "see acts",
                              "swap = coro_queue::swap_coroutine + resume_handle": "see acts"}}


class C05(Spec):
    pid = "C05"
    lean_modules = ["CoclsModel.Props.C05"]
    design_ref = "DESIGN.md §5 C05"
    technique = ("Lean 4 invariant proofs over an executable model of the per-thread executor (induction over all act lists = all "
                 "programs) + differential correspondence of the model with the real headers on generated scripted-coroutine programs")
    level_text = ("Lean 4 theorems over an open executable model of coro_queue/suspend_point/async scheduling on one thread: one step "
                  "= one act (wake discard/await, await of a suspend point holding the own handle, park, pause, detach, start, co_await async, future await, co_return, "
                  "install_queue_and_call enter/leave, parallel()/parallel_resume()/thread-pool hand-over to another thread and the "
                  "job that thread runs, synchronous/future/callback access to a generator and its co_yield) by whoever runs; no-preempt, FIFO (enq = deq ++ ready), exactly-once, pause "
                  "round-robin, no re-entry, full drain proved for every act list, i.e. every program, any number of coroutines; the "
                  "model is tied to the headers by running 6k/200k generated programs (including wide/deep families: tens to a thousand "
                  "coroutines ready at the same time, fan-out while the queue is drained, widths around powers of two, fill/drain "
                  "cycles, deep start()/co_await chains) through real cocls::async coroutines and the "
                  "model and diffing the complete event traces; a trace oracle evaluates the statement on the implementation's trace")
    level_note = ("trusted: Lean kernel (axioms propext/Classical.choice/Quot.sound at most), the hand-written model "
                  "lean/CoclsModel/Exec.lean, the differential harness (sampling), the C++ compiler's coroutine lowering, the "
                  "promise/future/mutex/queue layers as wake sources (C01/C02/C07-C10). Single thread by definition of the property "
                  "(the ready queue is thread-local).")
    trusted_base = ["hand-written model lean/CoclsModel/Exec.lean tied to coro_queue.h/suspend_point.h/async.h by differential "
                    "correspondence (harness/h_exec.cpp vs lean/Drivers/C05.lean) on generated programs",
                    "g++ coroutine lowering (symmetric transfer), promise/future resolution (C01/C02), mutex/queue hand-off (C07-C10) "
                    "as wake sources"]
    assumptions = ["other threads (pool worker, threads created by resume.h) are scheduled one at a time, each job to completion, "
                   "while the thread that handed the work over is outside every activation (one legal schedule; concurrent "
                   "activations on several threads share no executor state: the ready queue is thread-local)",
                   "a coroutine handle is resumed only through the library (no raw h.resume() of a handle that is queued elsewhere)",
                   "coroutine bodies run in coroutine mode (they are entered through start/detach/suspend points/generator accesses, "
                   "never by a raw resume outside an installed queue)",
                   "a generator that is read synchronously from inside coroutine mode (by a coroutine, or by ordinary code inside an "
                   "install_queue_and_call block) suspends on nothing but co_yield: next_sync() blocks its thread until the body "
                   "yields (generated programs respect this; the model itself is total)",
                   "the own handle (co_await self()) is put into a suspend point only to co_await that suspend point (act `awaits`); "
                   "dropping or handing over a suspend point that holds the handle of the coroutine that is running is outside the "
                   "quantifier (it would resume a running coroutine)"]

    def suites(self):
        return [ExecSuite()]


SPEC = C05()
