"""C18 — callback adapters fire exactly once with the right outcome (callback_await, make_promise / future_with_cb, discard,
future_conv, call_fn_future_awaiter)."""
import itertools
from vlib.runner import Spec, Suite

HARNESS = ("h_callback", ["h_callback.cpp"], {"extra_flags": ["-fno-access-control", "-I/verif/harness/shim"]})
RKINDS = ["value", "exc", "drop"]
TYPES = ["int", "void"]

# (shape, From, To) instantiations of future_conv the harness knows
CONV_SHAPES = [("m", "int", "int"), ("m", "int", "void"), ("m", "void", "int"), ("m", "void", "void"),
               ("p", "int", "int"), ("p", "int", "void"), ("p", "void", "int"), ("p", "void", "void"),
               ("f", "int", "int"), ("f", "int", "void"), ("c", "int", "int")]


def rk_words(kind, n):
    if kind == "value":
        return "value %d" % (10 + n)
    if kind == "exc":
        return "exc %d" % (1 + n)
    return "drop"


def adapter_headers():
    """every adapter x value type x allocator (x converter shape x behaviour) the harness can instantiate"""
    hs = []
    for T in TYPES:
        for a in ("cbawait", "cbref", "cbawt", "cbwrap", "mkprom", "mkcb"):
            for al in ("heap", "stor"):
                hs.append("cb %s %s %s" % (a, T, al))
        hs.append("cb discard %s heap" % T)
        hs.append("cb callfn %s none" % T)
        hs.append("cb callawt %s none" % T)
    for shape, frm, to in CONV_SHAPES:
        for behav in ("ok", "throw") + (("leave",) if shape == "p" else ()):
            for hlp in ("", " hlp"):
                hs.append("cb conv %s none %s %s %s%s" % (frm, shape, to, behav, hlp))
    # source flavour "the factory returns future<int&>" (ReturnsFuture admits it; constructed in place inside the adapter's
    # future<int>) for every adapter that takes a source factory
    for a in ("cbawait", "cbref", "cbawt", "cbwrap", "mkcb"):
        for al in ("heap", "stor"):
            hs.append("cb %s intref %s" % (a, al))
    hs += ["cb discard intref heap", "cb callfn intref none", "cb callawt intref none"]
    for shape, frm, to in CONV_SHAPES:
        if frm == "int":
            for behav in ("ok", "throw"):
                hs.append("cb conv intref none %s %s %s%s" % (shape, to, behav, " hlp" if behav == "throw" else ""))
    return hs


HEADERS = adapter_headers()


def random_sched(rng, n, length):
    out = []
    while len(out) < length:
        t = rng.randrange(n)
        burst = 1 if rng.random() < 0.6 else rng.randint(2, 5)
        out += [t] * burst
    return out[:length]


def make_case(header, body, sched):
    return {"id": 0, "lines": ["case 0 " + header] + body + ["sched " + " ".join(map(str, sched)), "end"]}


# adapters that start the awaited operation themselves and answer for a start that throws: conv / callfn / mkcb go through
# future<T>::result_of (`_fut << factory`: the exception is caught there and the re-created future resolved with it),
# callback_await constructs the awaitable inside the try block of its helper coroutine (the callback receives the exception)
START_MAY_THROW = ("conv", "callfn", "mkcb", "cbawait")


def start_may_throw(header):
    return header.split()[1] in START_MAY_THROW


def timing_bodies(rng, header):
    """one random scenario body (thread lines + pre/imm) for the adapter of `header`"""
    is_mk = header.split()[1] == "mkprom"
    modes = ["conc", "conc", "conc", "self", "dtor"] + ([] if is_mk else ["pre", "imm"]) + (["fthrow"] if start_may_throw(header) else [])
    mode = rng.choice(modes)
    body, k = [], 0
    if mode == "fthrow":
        body.append("g" if rng.random() < 0.7 else "g self " + rk_words(rng.choice(RKINDS), 9))
        body.append("fthrow %d" % rng.randint(1, 9))
        return mode, body
    if mode == "imm":
        body.append("g" if rng.random() < 0.7 else "g self " + rk_words(rng.choice(RKINDS), 9))
        body.append("imm " + rk_words(rng.choice(RKINDS), 0))
        return mode, body
    if mode == "pre":
        body.append("g" if rng.random() < 0.6 else "g self " + rk_words(rng.choice(RKINDS), 9))
        body.append("pre " + rk_words(rng.choice(RKINDS), 0))
        nres = rng.choice([0, 0, 1, 2])
    elif mode == "self":
        body.append("g self " + rk_words(rng.choice(RKINDS), 9))
        nres = rng.choice([0, 0, 1, 2])
    elif mode == "dtor":
        body.append("g")
        nres = 0
    else:
        body.append("g")
        nres = rng.choice([1, 1, 1, 2, 3])
    for j in range(nres):
        body.append("r " + rk_words(rng.choice(RKINDS), j + 1))
    if mode == "dtor" or rng.random() < 0.4:
        body.append("d")
    return mode, body


def gen_random(rng, count):
    cases = []
    for i in range(count):
        header = HEADERS[i % len(HEADERS)] if rng.random() < 0.5 else rng.choice(HEADERS)
        mode, body = timing_bodies(rng, header)
        n = sum(1 for l in body if l.split()[0] in ("g", "r", "d"))
        sched = random_sched(rng, n, rng.randint(0, 7 * n))
        cases.append(make_case(header, body, sched))
    return cases


def gen_cbthrow(rng, count):
    """the callback_await callback throws once it has looked at its result: it must not be called a second time (the helper's
    catch branch serves failures of the awaited operation only); every timing, outcome and allocator"""
    cases = []
    for i in range(count):
        # callback_await in all its spellings (they share callback_await_coro); the owned-awaitable spelling most often
        header = "cb %s %s %s" % (rng.choice(("cbawait",) * 3 + CBAWAIT), rng.choice(TYPES + ["intref"]), rng.choice(["heap", "stor"]))
        mode, body = timing_bodies(rng, header)
        if i % 2 == 0:
            # the path the repair touches is "the callback throws while it holds a VALUE": every invocation delivers one
            body = [" ".join(w[:w.index("exc")] + ["value", str(10 + int(w[-1]))]) if "exc" in w and w[0] != "fthrow"
                    else " ".join(w[:-1] + ["value", "17"]) if w[-1] == "drop" else " ".join(w) for w in (l.split() for l in body)]
        body.insert(1, "cbthrow")
        n = sum(1 for l in body if l.split()[0] in ("g", "r", "d"))
        cases.append(make_case(header, body, random_sched(rng, n, rng.randint(0, 7 * n))))
    return cases


def gen_exhaustive_cbthrow(length):
    """all schedules of registrar vs one resolver for callback_await with a throwing callback, every outcome and allocator"""
    cases = gen_exhaustive(["cb cbawait int heap", "cb cbawait void stor"], length)
    for c in cases:
        c["lines"].insert(2, "cbthrow")
    return cases


def gen_sequential():
    """the single-thread timings of every adapter x outcome: already resolved (factory resolved its promise / factory
    returned a resolved future) and resolved later on the registering thread; plus destruction by the controller"""
    cases = []
    for header in HEADERS:
        is_mk = header.split()[1] == "mkprom"
        for j, k in enumerate(RKINDS):
            cases.append(make_case(header, ["g self " + rk_words(k, j)], []))
            if not is_mk:
                cases.append(make_case(header, ["g", "pre " + rk_words(k, j)], []))
                cases.append(make_case(header, ["g", "imm " + rk_words(k, j)], []))
        if start_may_throw(header):
            cases.append(make_case(header, ["g", "fthrow 6"], []))
            cases.append(make_case(header, ["g self value 3", "fthrow 7"], []))
        cases.append(make_case(header, ["g"], []))
    return cases


def gen_exhaustive(headers, length, with_dtor=False):
    """all schedules (0/1 strings) of registrar vs one resolver (or vs the destructor), every outcome"""
    cases = []
    for header in headers:
        others = ["d"] if with_dtor else ["r " + rk_words(k, j) for j, k in enumerate(RKINDS)]
        for o in others:
            for bits in itertools.product([0, 1], repeat=length):
                cases.append(make_case(header, ["g", o], list(bits)))
    return cases


def gen_exhaustive3(rng, headers, length, shapes_n):
    """all schedules over three threads for sampled shapes: registrar + two of {resolver, resolver, destructor}"""
    cases = []
    for _ in range(shapes_n):
        header = rng.choice(headers)
        a = "r " + rk_words(rng.choice(RKINDS), 1)
        b = rng.choice(["d", "r " + rk_words(rng.choice(RKINDS), 2)])
        g = "g" if rng.random() < 0.7 else "g self " + rk_words(rng.choice(RKINDS), 9)
        for tr in itertools.product([0, 1, 2], repeat=length):
            cases.append(make_case(header, [g, a, b], list(tr)))
    return cases


def make_multi(header, rounds):
    """rounds: list of (body lines, sched) = successive operations on the same helper object"""
    lines = ["case 0 " + header]
    for k, (body, sched) in enumerate(rounds):
        if k:
            lines.append("round")
        lines += body + ["sched " + " ".join(map(str, sched))]
    return {"id": 0, "lines": lines + ["end"]}


# helpers that are member objects re-armed with `<<` for one operation after the other (same awaiter node every time)
REUSABLE = [h for h in HEADERS if h.split()[1] in ("conv", "callfn", "callawt")]
SEQ_TIMINGS = ["pre", "imm", "self", "other", "destroyed", "fthrow"]


def seq_round(timing, kind, n, header=None):
    """one operation with a sequential (single effective thread order) timing"""
    w = rk_words(kind, n)
    if timing == "fthrow":
        if header is not None and start_may_throw(header):
            return (["g", "fthrow %d" % (n + 4)], [])
        timing, w = "imm", rk_words("exc", n)
    if timing == "pre":
        return (["g", "pre " + w], [])
    if timing == "imm":
        return (["g", "imm " + w], [])
    if timing == "self":
        return (["g self " + w], [])
    if timing == "other":
        return (["g", "r " + w], [])
    return (["g"], [])


def gen_reuse_sequential(headers, rng, triples=4):
    """every pair of timings for the 1st/2nd operation on one helper object (and sampled triples), outcomes rotating"""
    cases, n = [], 0
    for header in headers:
        for t1 in SEQ_TIMINGS:
            for t2 in SEQ_TIMINGS:
                n += 1
                cases.append(make_multi(header, [seq_round(t1, RKINDS[n % 3], 1, header), seq_round(t2, RKINDS[(n // 3) % 3], 2, header)]))
        for _ in range(triples):
            ts = [rng.choice(SEQ_TIMINGS) for _ in range(3)]
            cases.append(make_multi(header, [seq_round(t, rng.choice(RKINDS), j, header) for j, t in enumerate(ts)]))
    return cases


def gen_reuse_random(rng, count):
    """2-3 operations on one helper object, each with a random scenario (incl. concurrent invocations) and schedule"""
    cases = []
    for i in range(count):
        header = REUSABLE[i % len(REUSABLE)] if rng.random() < 0.5 else rng.choice(REUSABLE)
        rounds = []
        for k in range(rng.choice([2, 2, 3])):
            mode, body = timing_bodies(rng, header)
            n = sum(1 for l in body if l.split()[0] in ("g", "r", "d"))
            rounds.append((body, random_sched(rng, n, rng.randint(0, 7 * n))))
        cases.append(make_multi(header, rounds))
    return cases


def gen_reuse_exhaustive(headers, length):
    """first operation with each sequential timing, second operation: all schedules of registrar vs one resolver"""
    cases = []
    for header in headers:
        for j, t1 in enumerate(SEQ_TIMINGS):
            for k in RKINDS:
                for bits in itertools.product([0, 1], repeat=length):
                    cases.append(make_multi(header, [seq_round(t1, RKINDS[j % 3], 1, header), (["g", "r " + rk_words(k, 2)], list(bits))]))
    return cases


# one representative header per adapter code path (value type int), for the exhaustive enumerations of the quick tier
CORE = ["cb cbawait int heap", "cb cbawait int stor", "cb cbref int heap", "cb mkprom int heap", "cb mkprom int stor",
        "cb mkcb int heap", "cb mkcb void stor", "cb mkcb intref heap",
        "cb discard int heap", "cb callfn int none", "cb conv int none m int ok", "cb conv void none m int ok",
        "cb conv int none p int ok", "cb conv int none f int throw",
        "cb callawt int none", "cb cbawt int heap", "cb cbwrap int stor",
        "cb callfn intref none", "cb cbawait intref heap", "cb conv intref none m int ok"]
CORE_REUSE = ["cb callfn intref none", "cb conv intref none m int ok", "cb callfn int none", "cb callfn void none", "cb callawt int none", "cb callawt void none", "cb conv int none m int ok", "cb conv void none m int ok",
              "cb conv int none p int ok hlp", "cb conv int none c int throw"]


def split_rounds(lines):
    """split a list of lines at the `round` separators"""
    rounds, cur = [], []
    for l in lines:
        if l.strip() == "round":
            rounds.append(cur)
            cur = []
        else:
            cur.append(l)
    return rounds + [cur]


def operations(case, out):
    """[(pseudo-case of one operation, its output lines)] for a (possibly multi-operation) case"""
    ins = split_rounds(case["lines"][1:-1])
    outs = split_rounds(out)
    return [({"lines": [case["lines"][0]] + body + ["end"]}, outs[k] if k < len(outs) else None) for k, body in enumerate(ins)]


def valid_round(i):
    """exactly one registrar and it is thread 0, at most one destructor thread, `imm` without other threads"""
    th = i["threads"]
    if not th or th[0][0] != "g" or sum(1 for t in th if t[0] == "g") != 1 or sum(1 for t in th if t[0] == "d") > 1:
        return False
    if i["pre"] and i["imm"]:
        return False
    if (i["imm"] or i["fthrow"]) and len(th) > 1:
        return False
    if i["fthrow"] and (i["pre"] or i["imm"] or i["adapter"] not in START_MAY_THROW):
        return False
    if i["adapter"] == "mkprom" and (i["pre"] or i["imm"]):
        return False
    return True


# callback_await in its spellings: on a future built in the frame, on a caller-owned future, on an awaiter object obtained
# with retrieve_awaiter(), on an awaiter_wrapper
CBAWAIT = ("cbawait", "cbref", "cbawt", "cbwrap")
READ_STYLES = ["get", "star", "bool", "not"]


def with_read_styles(cases):
    """the callback of callback_await inspects its await_result in one of four spellings (get / operator* / operator bool /
    operator!), rotating deterministically over the cases"""
    k = 0
    for c in cases:
        ad = c["lines"][0].split()[3]
        if ad not in CBAWAIT or any(l.startswith("read ") for l in c["lines"]):
            continue
        out = []
        for l in c["lines"]:
            out.append(l)
            if l == "g" or l.startswith("g "):
                out.append("read " + READ_STYLES[k % 4])
                # calling context: every other registration of callback_await / callback_await_alloc (owned awaitable, stateful
                # temporary factory argument) is made from inside a running coroutine -> the helper's start is deferred
                if ad == "cbawait" and (k // 4) % 2 == 1:
                    out.append("ctx coro")
                k += 1
        c["lines"] = out
    return cases


def parse(case, out):
    hdr = case["lines"][0].split()
    info = {"adapter": hdr[3], "T": hdr[4], "alloc": hdr[5], "shape": hdr[6] if len(hdr) > 6 else None,
            "to": hdr[7] if len(hdr) > 7 else None, "behav": hdr[8] if len(hdr) > 8 else None,
            "threads": [l.split() for l in case["lines"][1:] if l.split()[0] in ("g", "r", "d")],
            "pre": None, "imm": None, "fthrow": None, "cb": [], "conv": [], "events": [], "rets": {}, "outer": None, "final": None,
            "deadlock": False, "crash": False, "assert": None, "ops": [], "cbthrow": False, "read": None,
            "coro": False, "dead_arg": 0, "caller_cont": 0, "badref": 0}
    for l in case["lines"][1:]:
        w = l.split()
        if w[0] in ("pre", "imm"):
            info[w[0]] = w[1:]
        elif w[0] == "fthrow":
            info["fthrow"] = ["exc", w[1]]
        elif w[0] == "cbthrow":
            info["cbthrow"] = True
        elif w[0] == "read":
            info["read"] = w[1]
        elif w[:2] == ["ctx", "coro"]:
            info["coro"] = True
    for l in out:
        w = l.split()
        if not w:
            continue
        if w[0] == "cb":
            info["cb"].append(w[1])
            info["events"].append(("cb", w[1]))
        elif w[0] == "conv":
            info["conv"].append(w[1])
            info["events"].append(("conv", w[1]))
        elif w[0] in ("alloc", "free"):
            info["events"].append((w[0], w[1]))
        elif w[0] == "ret":
            info["rets"].setdefault(int(w[1][1:]), []).append(int(w[2]))
        elif w[0] == "outer":
            info["outer"] = w[1:]
        elif w[0] == "final":
            info["final"] = dict(kv.split("=") for kv in w[1:])
        elif w[0] == "dead-arg":
            info["dead_arg"] += 1
        elif w[0] == "badref":
            info["badref"] += 1
        elif w[0] == "caller-continues":
            info["caller_cont"] += 1
        elif w[0] == "deadlock":
            info["deadlock"] = True
        elif w[0] == "crash":
            info["crash"] = True
        elif w[0] == "assert-failed":
            info["assert"] = l
        elif w[0] == "s":
            info["ops"].append(w)
    return info


def show(words, T):
    """the outcome a reader of a future<T> resolved by `words` (value v | exc c | drop) must see"""
    if words[0] == "value":
        return "v" if T == "void" else "v:" + words[1]
    if words[0] == "exc":
        return "exc:" + words[1]
    return "canceled"


def source_outcome(i):
    """(kind words) of the awaited operation's outcome, read off the implementation trace: the invocation that
    reported success, else what the factory resolved with, else a broken promise"""
    wins = [t for t, r in i["rets"].items() if 1 in r]
    if len(wins) == 1:
        tl = i["threads"][wins[0]]
        return tl[2:] if tl[0] == "g" else tl[1:]
    if len(wins) > 1:
        return None
    if i["pre"]:
        return i["pre"]
    if i["imm"]:
        return i["imm"]
    if i["fthrow"]:
        return i["fthrow"]     # the factory threw: the operation is resolved with that exception at its start
    return ["drop"]


class CallbackSuite(Suite):
    name = "adapters"
    harness = HARNESS
    driver = "drv_c18"
    corpus_prefix = "c18_"
    chunk = 300
    timeout = 900
    nontrivial_rule = ("the case re-uses a helper object for several operations, or is a single-thread timing (already resolved / resolved later on the registering thread) or its effective "
                       "interleaving contains a context switch; distinct = adapter header + scenario + sequence of synchronising operations")

    def gen_cases(self, rng, tier):
        return with_read_styles(self.gen_cases0(rng, tier))

    def gen_cases0(self, rng, tier):
        if tier == "quick":
            return (gen_sequential() + gen_exhaustive(HEADERS, 6) + gen_exhaustive(CORE, 8) + gen_exhaustive(HEADERS, 5, with_dtor=True)
                    + gen_random(rng, 4000) + gen_cbthrow(rng, 400) + gen_exhaustive_cbthrow(6)
                    + gen_reuse_sequential(REUSABLE, rng) + gen_reuse_exhaustive(CORE_REUSE, 5) + gen_reuse_random(rng, 2500))
        return (gen_sequential() + gen_exhaustive(HEADERS, 8) + gen_exhaustive(HEADERS, 7, with_dtor=True)
                + gen_exhaustive(CORE, 10) + gen_exhaustive3(rng, HEADERS, 8, 24) + gen_random(rng, 40000) + gen_cbthrow(rng, 3000) + gen_exhaustive_cbthrow(9)
                + gen_reuse_sequential(REUSABLE, rng, 20) + gen_reuse_exhaustive(REUSABLE, 6) + gen_reuse_random(rng, 25000))

    def distinct_key(self, case, out):
        return (case["lines"][0].split(None, 2)[2] + "|" + "|".join(l for l in case["lines"][1:-1] if not l.startswith("sched"))
                + "|" + "|".join(l for l in out if l.startswith("s ") or l == "round"))

    def nontrivial(self, case, out):
        if any(l == "round" for l in case["lines"]):
            return True        # re-use of a helper object: the sequence of timings is the point
        n = sum(1 for l in case["lines"][1:] if l.split()[0] in ("g", "r", "d"))
        tids = [l.split()[1] for l in out if l.startswith("s ")]
        return n == 1 or sum(1 for a, b in zip(tids, tids[1:]) if a != b) >= 1

    def stats(self, cases, outs):
        adapters, timing, outcomes, alloc, completer, nops, pairs, reads, ctxs, flav = {}, {}, {}, {}, {}, {}, {}, {}, {}, {}
        sthrow, cbthr = {}, {}
        switches = refused = ready_first = parked = 0
        flat = []
        for c in cases:
            ops = operations(c, outs.get(str(c["id"]), []))
            nops[len(ops)] = nops.get(len(ops), 0) + 1
            seq = []
            for oc, oo in ops:
                flat.append((oc, oo or []))
                pi = parse(oc, oo or [])
                slot0 = [w for w in pi["ops"] if w[1] == "0" and len(w) > 3 and w[3] == "slot"]
                seq.append("already-resolved" if (pi["pre"] or pi["imm"] or pi["fthrow"] or any(w[2] == "cas-" for w in slot0)) else "parked")
            if len(ops) > 1:
                for a, b in zip(seq, seq[1:]):
                    pairs[a + " -> " + b] = pairs.get(a + " -> " + b, 0) + 1
        for c, o in flat:
            i = parse(c, o)
            fl = "factory returns future<T&>" if i["T"] == "intref" else "factory returns future<T>"
            flav[fl] = flav.get(fl, 0) + 1
            if i["T"] == "intref" and (i["imm"] and i["imm"][0] == "value"):
                flav["... of which already resolved via static future<T&>::set_value"] = flav.get("... of which already resolved via static future<T&>::set_value", 0) + 1
            if i["read"]:
                reads[i["read"]] = reads.get(i["read"], 0) + 1
            if i["fthrow"]:
                sthrow[i["adapter"]] = sthrow.get(i["adapter"], 0) + 1
            if i["cbthrow"]:
                k = "callback throws holding a value (pinned code: second call from the catch branch)" if any(x.startswith("v") for x in i["cb"][:1]) \
                    else "callback throws holding an exception / broken promise"
                cbthr[k] = cbthr.get(k, 0) + 1
            if i["adapter"] == "cbawait":
                k = "from a running coroutine (deferred helper start)" if i["coro"] else "from ordinary code"
                ctxs[k] = ctxs.get(k, 0) + 1
            a = i["adapter"] + ("/" + i["shape"] + ":" + i["T"] + ">" + i["to"] + ":" + i["behav"] if i["adapter"] == "conv" else "")
            adapters[a] = adapters.get(a, 0) + 1
            alloc[i["alloc"]] = alloc.get(i["alloc"], 0) + 1
            g = i["threads"][0] if i["threads"] else ["g"]
            tm = "start-throws(result_of catch / helper's catch branch)" if i["fthrow"] else "imm" if i["imm"] else "pre" if i["pre"] else "self" if len(g) > 1 else "other-thread"
            if tm == "other-thread" and not any(t[0] == "r" for t in i["threads"]):
                tm = "destroyed"
            timing[tm] = timing.get(tm, 0) + 1
            so = source_outcome(i)
            k = so[0] if so else "?"
            outcomes[k] = outcomes.get(k, 0) + 1
            tids = [w[1] for w in i["ops"]]
            switches += sum(1 for x, y in zip(tids, tids[1:]) if x != y)
            slot_ops0 = [w for w in i["ops"] if w[1] == "0" and len(w) > 3 and w[3] == "slot"]
            if any(w[2] == "cas-" for w in slot_ops0):
                refused += 1
            if slot_ops0 and slot_ops0[0][2] == "load" and slot_ops0[0][4] == "ready":
                ready_first += 1
            if any(w[2] == "cas+" for w in slot_ops0) or i["adapter"] == "mkprom":
                parked += 1
            # which thread ran the completion: the one whose op precedes the cb/conv/free line
            who = "none"
            last = None
            for l in o:
                w = l.split()
                if w and w[0] == "s":
                    last = w[1]
                elif w and w[0] in ("cb", "conv", "free"):
                    who = "controller" if "promise-destroyed" in o and last is not None and o.index(l) > max(
                        (n for n, x in enumerate(o) if x.startswith("s ")), default=-1) else ("registrar" if last == "0" else "other")
                    break
            completer[who] = completer.get(who, 0) + 1
        return {"source_flavour(operations)": flav, "callback_await_calling_context(operations)": ctxs, "await_result_read_spelling(operations)": reads, "operations_per_case": nops, "reuse_consecutive_operations(registration outcome)": pairs,
                "callback_throws(operations)": cbthr, "start_of_operation_throws(operations by adapter)": sthrow,
                "adapters": adapters, "timing": timing, "source_outcome": outcomes, "allocator": alloc,
                "registration_refused_by_cas": refused, "ready_at_await_ready": ready_first, "parked_then_resumed": parked,
                "completion_run_by": completer, "context_switches_total": switches}

    def oracle(self, case, out):
        """the statement of C18 evaluated on the implementation's trace, operation by operation ("exactly once per awaited
        operation": every operation on a re-used helper object is judged on its own callback / converter / block lines)"""
        ops = operations(case, out)
        parsed = [parse(c, o or []) for c, o in ops]
        if not all(valid_round(i) for i in parsed):
            return []          # not a scenario (only reachable by shrinking): nothing the statement talks about
        if len(ops) > 1 and parsed[0]["adapter"] not in ("conv", "callfn", "callawt", "cbref", "cbawt", "cbwrap"):
            return []
        msgs = []
        for k, (c, o) in enumerate(ops):
            if o is None:
                break          # an earlier operation ended the run (reported there)
            ms = self.oracle_op(c, o)
            msgs += [m if len(ops) == 1 else m.replace(": ", ": operation %d: " % (k + 1), 1) for m in ms]
            if any(m.split(":")[0] in ("crash", "assert", "hang") for m in ms):
                break
        return msgs

    def oracle_op(self, case, out):
        i = parse(case, out)
        if i["crash"]:
            return ["crash: the implementation crashed (sanitizer report / abort)"]
        if i["assert"]:
            return ["assert: " + i["assert"]]
        if i["deadlock"]:
            return ["hang: threads left blocked"]
        msgs = []
        if i["dead_arg"]:
            msgs.append("args: the awaited operation was constructed from an argument that had already been destroyed "
                        "(the helper started after the caller's full expression and did not own a copy)")
        if i["badref"]:
            msgs.append("outcome: the source is a reference future, but what the adapter handed to the callback / converter is not the referenced object")
        if i["final"] is None:
            return msgs + ["final: no final state reported"]
        ad, T = i["adapter"], i["T"]
        so = source_outcome(i)
        if so is None:
            return []          # two successful invocations: C01's subject, not an adapter failure
        exp = show(so, T)
        # --- exactly once, with the operation's outcome (also for a callback that throws: `cbthrow`, and for an operation whose
        #     start threw: `fthrow`, outcome = that exception)
        if ad in CBAWAIT + ("mkprom", "mkcb", "callfn", "callawt"):
            if len(i["cb"]) != 1:
                msgs.append("once: callback ran %d times for one awaited operation" % len(i["cb"]))
            for o in i["cb"]:
                if o != exp:
                    msgs.append("outcome: callback saw %s, the operation's outcome is %s" % (o, exp))
        elif ad == "discard":
            if i["cb"] or i["conv"]:
                msgs.append("once: discard invoked a callback")
        elif ad == "conv":
            to, behav = i["to"], i["behav"]
            if i["outer"] is None or i["outer"][0] == "pending":
                msgs.append("once: the outer future of the converter was never resolved")
            else:
                if so[0] == "value":
                    arg = "-" if T == "void" else so[1]
                    want_conv = [arg]
                    if behav == "throw":
                        want = ["exc:77", "hv=1"]
                    elif behav == "leave":
                        want = ["canceled", "hv=0"]
                    else:
                        v = 7000 if T == "void" else int(so[1]) + 1000
                        want = ["v" if to == "void" else "v:%d" % v, "hv=1"]
                else:
                    want_conv = []
                    want = [exp, "hv=1"]      # source exception, or await_canceled_exception for a dropped source
                if i["conv"] != want_conv:
                    if len(i["conv"]) > 1:
                        msgs.append("once: converter ran %d times" % len(i["conv"]))
                    else:
                        msgs.append("conv: converter invoked with %s, expected %s for source outcome %s" % (i["conv"], want_conv, exp))
                if i["outer"] != want:
                    msgs.append("conv: outer future holds %s, expected %s for source outcome %s" % (" ".join(i["outer"]), " ".join(want), exp))
        # --- the helper block: allocated once where the adapter owns one, released exactly once, after the completion
        want_alloc = {"cbawait": 1, "cbref": 1, "cbawt": 1, "cbwrap": 1, "mkprom": 1, "mkcb": 1, "discard": 1}.get(ad, 0)
        allocs = [e for e in i["events"] if e[0] == "alloc"]
        frees = [e for e in i["events"] if e[0] == "free"]
        if len(allocs) != want_alloc:
            msgs.append("helper: %d helper blocks allocated, expected %d" % (len(allocs), want_alloc))
        if any(a[1] != i["alloc"] for a in allocs):
            msgs.append("helper: block taken from %s although the %s allocator was chosen" % (allocs[0][1], i["alloc"]))
        if len(frees) != len(allocs):
            msgs.append("helper: %d blocks allocated, %d released" % (len(allocs), len(frees)))
        if any(f[1] != i["alloc"] for f in frees):
            msgs.append("helper: block released to the wrong allocator")
        live = 0
        done = ad == "discard"
        for e in i["events"]:
            if e[0] == "alloc":
                live += 1
            elif e[0] == "cb":
                done = True
                if want_alloc and live != 1:
                    msgs.append("helper: callback ran while the helper block was not live")
            elif e[0] == "free":
                if live <= 0:
                    msgs.append("helper: block released twice / before allocation")
                if not done:
                    msgs.append("helper: block released before the callback ran")
                live -= 1
        f = i["final"]
        if int(f["cb"]) != len(i["cb"]) or int(f["conv"]) != len(i["conv"]) or int(f["allocs"]) != len(allocs) or int(f["frees"]) != len(frees):
            msgs.append("final: counters %s disagree with the event lines" % f)
        return msgs


class C18(Spec):
    pid = "C18"
    lean_modules = ["CoclsModel.Props.C18"]
    design_ref = "DESIGN.md §5 C18"
    technique = ("Lean 4 invariant proof over all schedules of a micro-step model of the adapters + step-for-step differential replay "
                 "on the real headers under a baton scheduler (exhaustive small schedules, random larger ones)")
    level_text = ("Lean 4 theorems over a micro-step model (one step per operation on the two shared atomics) of callback_await, make_promise, future_with_cb::operator<<, discard, "
                  "future_conv, call_fn_future_awaiter and the hand-subscribed call_fn_awaiter (callback_await also on awaiter objects / awaiter_wrapper from retrieve_awaiter, "
                  "await_result read through get / operator* / operator bool / operator!): for every adapter, outcome, timing (resolved inside the factory, by the registering thread "
                  "afterwards, by any number of racing invocations / destructors on other threads) and every schedule the completion runs at most once, "
                  "exactly once at quiescence, sees the operation's outcome, the helper block is released exactly once and only after the completion, a "
                  "refused subscription is completed by the registrar itself, a callback_await callback that throws is not called again, an operation whose start throws "
                  "(factory / constructor of the awaitable) is completed once with that exception, converters deliver convRes(outcome), and a member-object adapter re-armed for any number of "
                  "successive operations (any combination of timings) does all this once per operation (the awaiter node's _next link is modelled and proved to be unlinked "
                  "again after every operation). The model is tied to the headers by "
                  "replaying enumerated and random schedules on the unmodified code and diffing every line; oracles evaluate the statement on the "
                  "implementation trace (callback counts and what they saw, operator new/delete and counting-storage balance, outer future).")
    level_note = ("trusted: Lean kernel; the hand-written model lean/CoclsModel/Callback.lean; the baton shim in track_only mode (only the source future's "
                  "awaiter slot and the shared promise's owner are scheduling points — every other atomic the adapters touch is private to one thread at a "
                  "time; sequentially consistent interleavings only, memory orders are C03's); the coroutine machinery of callback_await_coro as the standard "
                  "specifies it; helper blocks are recognised as the allocations adapter code makes during the registration call.")
    trusted_base = ["model lean/CoclsModel/Callback.lean tied to callback_awaiter.h / future.h / future_conv.h by step-for-step replay "
                    "(harness/h_callback.cpp, shim/verif_shim.h track_only) against lean/Drivers/C18.lean",
                    "C++20 coroutine machinery and libstdc++ as specified"]
    assumptions = ["lvalue arguments of callback_await are stored by reference by design (scheduler::start relies on it); the theorem about argument "
                   "liveness is about the copies the helper frame owns of rvalue arguments",
                   "the callbacks of make_promise / future_with_cb, call_fn_future_awaiter and call_fn_awaiter are invoked from noexcept resume "
                   "functions: a throw there is std::terminate, not a behaviour of the adapter (callback_await callbacks and source factories may "
                   "throw: modelled and exercised)",
                   "an lvalue callback passed to callback_await is kept alive by the caller (it is stored by reference)",
                   "~promise is sequenced after every invocation of that promise object (C++ object lifetime)",
                   "one awaited operation per helper at a time (future_conv / call_fn_future_awaiter are re-armed only after completion)",
                   "interleavings are sequentially consistent (memory-order effects are decided in C03)"]

    def suites(self):
        return [CallbackSuite()]


SPEC = C18()
