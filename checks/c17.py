"""C17 — shared_future: one result for all copies; state lives exactly as long as needed."""
import itertools
import re
from vlib.runner import Spec, Suite

HARNESS = ("h_shared_future", ["h_shared_future.cpp"], {"extra_flags": ["-fno-access-control", "-I/verif/harness/shim"]})
TYPES = ["int", "counted", "void"]
PROMISE_MODES = ["pf", "ff", "gp", "ip", "ls"]
ACTS = ["copy", "drop", "peek", "coro", "sync", "cb"]
AWAITS = ("coro", "sync", "cb")
# spellings of the blocking observer (same atomic operations, same model step): wait(), force_wait(), sync()+value(),
# force_sync()+value(), join()+value(), operator Base& then future::wait(); cpeek = ready()+value() through operator Base&
SYNC_SPELLINGS = ("sync", "fwait", "ssync", "fsync", "join", "conv")
PEEK_SPELLINGS = ("peek", "cpeek")


def style_of(tok):
    return "sync" if tok in SYNC_SPELLINGS else "peek" if tok in PEEK_SPELLINGS else tok
RKINDS = ["value", "exc", "drop", "dtor"]

_SLOT = re.compile(r"\ba\d+\.\d+ (?=(?:null|ptr|inst|ready)\b)")
_FLAG = re.compile(r"\ba(\d+)\.\d+\b")


def res_line(kind, n):
    if kind == "value":
        return "t r value %d" % (10 + n)
    if kind == "exc":
        return "t r exc %d" % (1 + n)
    return "t r " + kind


def make_case(T, mode, arg, threads, sched):
    hdr = "case 0 sf %s %s" % (T, mode) + (" %d" % arg if mode in ("sv", "se") else "")
    return {"id": 0, "lines": [hdr] + threads + ["sched " + " ".join(map(str, sched)), "end"]}


def random_sched(rng, n, length):
    out = []
    while len(out) < length:
        t = rng.randrange(n)
        burst = 1 if rng.random() < 0.55 else rng.randint(2, 6)
        out += [t] * burst
    return out[:length]


def random_prog(rng, maxlen):
    k = rng.randint(0, maxlen)
    style = rng.random()
    if style < 0.2:      # drop everything early
        return ["drop"] * rng.randint(1, 2)
    if style < 0.3:
        return []
    w = [3, 4, 2, 3, 3, 3]
    return [spell(rng, rng.choices(ACTS, w)[0]) for _ in range(k)]


def spell(rng, a):
    if a == "sync":
        return rng.choice(SYNC_SPELLINGS)
    if a == "peek":
        return rng.choice(PEEK_SPELLINGS)
    return a


def gen_random(rng, count, max_handles=3, maxlen=5):
    cases = []
    for i in range(count):
        r = rng.random()
        mode = "pf" if r < 0.25 else "ff" if r < 0.42 else "gp" if r < 0.54 else "ip" if r < 0.7 else "ls" if r < 0.82 else "sv" if r < 0.91 else "se"
        nh = min(max_handles, rng.choice([0, 1, 1, 2, 2, 2, 3, 3]))
        others = ["t h " + " ".join(random_prog(rng, maxlen)) for _ in range(nh)]
        if mode in PROMISE_MODES:
            others.append(res_line(rng.choice(RKINDS), i % 7))
        rng.shuffle(others)
        threads = [("t c " + " ".join(random_prog(rng, maxlen))).rstrip()] + [o.rstrip() for o in others]
        n = len(threads)
        sched = random_sched(rng, n, rng.randint(0, 12 * n))
        cases.append(make_case(rng.choice(TYPES), mode, 3 + i % 5, threads, sched))
    return cases


def gen_exhaustive(rng, shapes, length, nthreads):
    """every schedule of the given length over `nthreads` threads for a list of (mode, threads) shapes"""
    cases = []
    for T, mode, arg, threads in shapes:
        for tr in itertools.product(range(nthreads), repeat=length):
            cases.append(make_case(T, mode, arg, threads, list(tr)))
    return cases


def small_shapes(rng, count, nh):
    out = []
    for i in range(count):
        mode = rng.choice(PROMISE_MODES)
        hs = ["t h " + " ".join(random_prog(rng, 3)) for _ in range(nh)]
        others = [h.rstrip() for h in hs] + [res_line(rng.choice(RKINDS), i)]
        rng.shuffle(others)
        out.append((rng.choice(TYPES), mode, 0, [("t c " + " ".join(random_prog(rng, 3))).rstrip()] + others))
    return out


def fixed_shapes():
    """the shapes the property text names: every handle dropped while pending, every await style, drop vs resolution"""
    out = []
    for mode in PROMISE_MODES:
        for rk in RKINDS:
            out.append(("counted", mode, 0, ["t c drop", res_line(rk, 1)]))
            out.append(("counted", mode, 0, ["t c", res_line(rk, 1), "t h drop"]))
            for aw in AWAITS + SYNC_SPELLINGS[1:]:
                out.append(("counted", mode, 0, ["t c " + aw + " drop", res_line(rk, 2)]))
                out.append(("int", mode, 0, ["t c drop", "t h copy " + aw + " drop drop", res_line(rk, 3)]))
    return out


def expected_result(case):
    hdr = case["lines"][0].split()
    T, mode = hdr[3], hdr[4]
    if mode == "sv":
        return "v" if T == "void" else "v:" + hdr[5]
    if mode == "se":
        return "exc:" + hdr[5]
    for l in case["lines"][1:]:
        w = l.split()
        if w[:2] == ["t", "r"]:
            if w[2] == "value":
                return "v" if T == "void" else "v:" + w[3]
            if w[2] == "exc":
                return "exc:" + w[3]
            return "canceled"
    return None


def effective_awaits(case):
    """thread index -> style of the await it performs (the first await reached while it holds a handle); peeks -> max count"""
    aw, peeks = {}, {}
    ti = 0
    for l in case["lines"][1:]:
        w = l.split()
        if w[0] != "t":
            continue
        if w[1] in ("c", "h"):
            held, done = 1, False
            for a in w[2:]:
                if held == 0:
                    continue
                if a == "copy":
                    held += 1
                elif a == "drop":
                    held -= 1
                elif a in PEEK_SPELLINGS:
                    peeks[ti] = peeks.get(ti, 0) + 1
                elif style_of(a) in AWAITS and not done:
                    done = True
                    aw[ti] = style_of(a)
        ti += 1
    return aw, peeks


def executed_spellings(case):
    """token -> number of threads/occurrences in which the spelling is actually executed (holds a handle; first await only)"""
    out = {}
    for l in case["lines"][1:]:
        w = l.split()
        if w[0] != "t" or w[1] not in ("c", "h"):
            continue
        held, done = 1, False
        for a in w[2:]:
            if held == 0:
                continue
            if a == "copy":
                held += 1
            elif a == "drop":
                held -= 1
            elif a in PEEK_SPELLINGS:
                out[a] = out.get(a, 0) + 1
            elif style_of(a) in AWAITS and not done:
                done = True
                out[a] = out.get(a, 0) + 1
    return out


def parse(case, out):
    i = {"crash": None, "assert": None, "deadlock": False, "malformed": False, "obs": [], "freed": [], "final": None,
         "ret": [], "ops": [], "resolved_at": None, "default": None, "factory": []}
    for n, l in enumerate(out):
        w = l.split()
        if not w:
            continue
        if w[0] == "crash":
            i["crash"] = l
        elif w[0] == "assert-failed":
            i["assert"] = l
        elif w[0] == "deadlock":
            i["deadlock"] = True
        elif w[0] == "malformed":
            i["malformed"] = True
        elif w[0] == "obs":
            i["obs"].append((n, int(w[1][1:]), w[2], w[3]))
        elif w[0] == "freed":
            i["freed"].append((n, int(w[1][1:])))
        elif w[0] == "final":
            i["final"] = dict(kv.split("=") for kv in w[1:])
        elif w[0] == "ret":
            i["ret"].append(w[2])
        elif w[0] == "default":
            i["default"] = l
        elif w[0].startswith("factory"):
            i["factory"].append(l)
        elif w[0] == "s":
            i["ops"].append((n, l))
            if w[2] == "xchg" and w[3] == "slot" and w[4].endswith(">ready"):
                i["resolved_at"] = n
    return i


class SharedFutureSuite(Suite):
    name = "lifecycle"
    harness = HARNESS
    driver = "drv_c17"
    corpus_prefix = "c17_"
    chunk = 100
    timeout = 900
    nontrivial_rule = ("the effective interleaving (sequence of synchronising operations) differs from every other case and contains at least two context "
                       "switches, or the case is a single-threaded API sequence with a distinct operation trace")

    def normalize(self, lines):
        return [_FLAG.sub(r"flag\1", _SLOT.sub("slot ", l)) for l in lines]

    def gen_cases(self, rng, tier):
        fixed = [make_case(T, m, a, th, random_sched(rng, len(th), rng.randint(0, 10 * len(th)))) for T, m, a, th in fixed_shapes()
                 for _ in range(4 if tier == "quick" else 20)]
        if tier == "quick":
            ex2 = gen_exhaustive(rng, [s for s in fixed_shapes() if len(s[3]) == 2][::9], 7, 2)
            return fixed + gen_random(rng, 6000) + ex2
        ex2 = gen_exhaustive(rng, [s for s in fixed_shapes() if len(s[3]) == 2][::2], 10, 2)
        ex3 = gen_exhaustive(rng, small_shapes(rng, 10, 1), 8, 3)
        return fixed + gen_random(rng, 90000) + gen_random(rng, 15000, maxlen=8) + ex2 + ex3

    def oracle(self, case, out):
        i = parse(case, out)
        if i["malformed"]:
            return []
        hdr = case["lines"][0].split()
        mode = hdr[4]
        if i["crash"]:
            if mode in ("gp", "ls", "ip") and not i["ops"]:
                return ["late-init: crashed before any operation was logged — a default-constructed shared_future could not be initialised, "
                        "or the crash lost the log (%s)" % i["crash"]]
            return ["memory: the implementation crashed (use after free / double free / null dereference: %s)" % i["crash"]]
        if i["assert"]:
            return ["life: library assertion failed (%s)" % i["assert"]]
        if i["deadlock"]:
            return ["once: an awaiter was never resumed (threads stuck)"]
        msgs = []
        exp = expected_result(case)
        aw, peeks = effective_awaits(case)
        # one result for all copies, whatever the style
        for n, t, k, v in i["obs"]:
            if v != exp:
                msgs.append("result: thread t%d observed %s through %s, the single result is %s" % (t, v, k, exp))
        # every awaiter resumed exactly once
        for t, k in aw.items():
            cnt = sum(1 for n, tt, kk, v in i["obs"] if tt == t and kk == k)
            if cnt != 1:
                msgs.append("once: the %s awaiter of thread t%d was resumed %d times" % (k, t, cnt))
        for n, t, k, v in i["obs"]:
            if k != "peek" and aw.get(t) != k:
                msgs.append("once: unexpected resumption of a %s awaiter of thread t%d" % (k, t))
            if k == "peek" and sum(1 for _, tt, kk, _ in i["obs"] if tt == t and kk == "peek") > peeks.get(t, 0):
                msgs.append("once: more peek observations than peeks in thread t%d" % t)
        # the state lives until it has been resolved and is freed exactly once
        if len(i["freed"]) != 1:
            msgs.append("life: the shared state was freed %d times" % len(i["freed"]))
        for n, t in i["freed"]:
            if mode in PROMISE_MODES and (i["resolved_at"] is None or n < i["resolved_at"]):
                msgs.append("life: the shared state was freed while still pending")
            for m, l in i["ops"]:
                if m > n and " slot " in l:
                    msgs.append("memory: `%s` after the state was freed" % l)
            for m, t2, k, v in i["obs"]:
                if m > n:
                    msgs.append("memory: thread t%d read the result after the state was freed" % t2)
        f = i["final"]
        if f is None:
            msgs.append("life: no final report")
        else:
            if f.get("live") != "0" or f.get("frees") != "1":
                msgs.append("life: at the end live=%s frees=%s (leak or double free of the shared state)" % (f.get("live"), f.get("frees")))
            if f.get("vbal") != "0" or f.get("ebal") != "0":
                msgs.append("life: stored value constructed/destroyed unevenly (values %s, exceptions %s)" % (f.get("vbal"), f.get("ebal")))
        if mode in PROMISE_MODES:
            rk = [l.split()[2] for l in case["lines"][1:] if l.split()[:2] == ["t", "r"]][0]
            if rk != "dtor" and i["ret"] != ["1"]:
                msgs.append("result: the promise call returned %s" % (i["ret"],))
        if mode in ("gp", "ip") and i["default"] != "default ready=0 value=notready":
            msgs.append("late-init: default-constructed object reported `%s`" % i["default"])
        if mode in ("sv", "se"):
            want = "factory ready=1 " + exp + (" same=1" if mode == "sv" and hdr[3] != "void" else "")
            if not i["factory"] or i["factory"][0] != want or i["factory"][-1] != "factory-balance v=0 e=0":
                msgs.append("result: factory reported %s" % (i["factory"],))
        return msgs

    def distinct_key(self, case, out):
        return " ".join(case["lines"][0].split()[3:]) + "|" + "|".join(case["lines"][1:-2]) + "|" + "|".join(l for l in out if l.startswith("s "))

    def nontrivial(self, case, out):
        tids = [l.split()[1] for l in out if l.startswith("s ")]
        nthreads = sum(1 for l in case["lines"] if l.startswith("t "))
        return sum(1 for a, b in zip(tids, tids[1:]) if a != b) >= (2 if nthreads > 1 else 0)

    def signature(self, case, msg):
        return {"suite": self.name, "msg": msg.split(":")[0], "mode": case["lines"][0].split()[4]}

    def stats(self, cases, outs):
        modes, types, rks, aws, freer, switches, nthreads = {}, {}, {}, {}, {}, 0, {}
        before_ctor = charged_refused = dropped_all_pending = 0
        spellings = {}
        for c in cases:
            hdr = c["lines"][0].split()
            modes[hdr[4]] = modes.get(hdr[4], 0) + 1
            types[hdr[3]] = types.get(hdr[3], 0) + 1
            th = [l.split() for l in c["lines"][1:] if l.startswith("t ")]
            nthreads[len(th)] = nthreads.get(len(th), 0) + 1
            for w in th:
                if w[1] == "r":
                    rks[w[2]] = rks.get(w[2], 0) + 1
            for tok, n in executed_spellings(c).items():
                spellings[tok] = spellings.get(tok, 0) + n
            for t, k in effective_awaits(c)[0].items():
                aws[k] = aws.get(k, 0) + 1
            o = outs.get(str(c["id"]), [])
            tids = [l.split()[1] for l in o if l.startswith("s ")]
            switches += sum(1 for a, b in zip(tids, tids[1:]) if a != b)
            i = parse(c, o)
            for n, t in i["freed"]:
                kind = th[t][1] if t < len(th) else "?"
                freer[kind] = freer.get(kind, 0) + 1
            if any("cas- slot ready" in l and l.startswith("s 0 ") for _, l in i["ops"][:8]):
                charged_refused += 1
            # all handle threads finished before the resolution
            if i["resolved_at"] is not None:
                fins = [n for n, l in i["ops"] if l.endswith(" fin")]
                nh = sum(1 for w in th if w[1] in ("c", "h"))
                if sum(1 for n in fins if n < i["resolved_at"]) >= nh:
                    dropped_all_pending += 1
        return {"modes": modes, "value_types": types, "resolver_kinds": rks, "await_styles": aws, "executed_spellings": spellings, "threads_per_case": nthreads,
                "state_freed_by_thread_kind": freer, "context_switches_total": switches,
                "resolved_before_tracer_was_wired": charged_refused, "every_handle_dropped_while_pending": dropped_all_pending}


# ---------------------------------------------------------------------------------------------------------------------
# API-level suite: whole calls of one thread, any number of handles / states, every access spelling at every point of the
# life cycle, move-sensitive value types (lean/CoclsModel/SharedFutureApi.lean, harness/h_shared_future_api.cpp)
API_HARNESS = ("h_shared_future_api", ["h_shared_future_api.cpp"], {"extra_flags": ["-fno-access-control"]})
API_TYPES = ["mval", "str"]
SP_POLL = ["ready", "value", "cready", "cpending", "cinit", "cvalue"]
SP_BLOCK = ["wait", "fwait", "join", "sync", "fsync", "cwait", "cjoin", "cderef", "chasv", "cbool", "cnot"]
SP_AWAIT = ["coro", "cb"]
SP_ALL = SP_POLL + SP_BLOCK + SP_AWAIT
SP_VALUE = ("value", "cvalue", "wait", "fwait", "cwait", "cjoin", "cderef")   # return the stored value / throw the stored exception
SP_READY = ("ready", "cready")
API_RK = ["value", "value", "exc", "drop", "dtor"]


def api_case(T, ops):
    return {"id": 0, "lines": ["case 0 api " + T] + ops + ["end"]}


def api_rk(rng, n):
    k = rng.choice(API_RK)
    return "value %d" % (10 + n) if k == "value" else "exc %d" % (1 + n) if k == "exc" else k


class ApiGen:
    """keeps just enough book-keeping to generate calls that are mostly inside the contract (the harness and the model
    decide themselves what is inside: `pre`)"""

    def __init__(self, rng):
        self.rng, self.ops = rng, []
        self.h = []          # handle -> state index | None (null) | "gone"
        self.ph = []         # state -> "inst" | "pending" | "ready"

    def live(self, pred=lambda st: True):
        return [i for i, st in enumerate(self.h) if st != "gone" and pred(st)]

    def emit(self, op):
        self.ops.append(op)

    def new(self):
        self.emit("new"); self.h.append(None); return len(self.h) - 1

    def mk(self, m, arg=0):
        self.emit("mk " + m + (" %d" % arg if m in ("sv", "se") else ""))
        self.ph.append("ready" if m in ("sv", "se") else "pending"); self.h.append(len(self.ph) - 1); return len(self.h) - 1

    def copy(self, i):
        self.emit("copy %d" % i)
        if i < len(self.h) and self.h[i] != "gone":
            self.h.append(self.h[i])

    def assign(self, i, j):
        self.emit("assign %d %d" % (i, j))
        if i < len(self.h) and j < len(self.h) and self.h[i] != "gone" and self.h[j] != "gone":
            self.h[i] = self.h[j]

    def drop(self, i):
        self.emit("drop %d" % i)
        if i < len(self.h):
            self.h[i] = "gone"

    def init(self, i):
        self.emit("init %d" % i)
        if i < len(self.h) and self.h[i] is None:
            self.ph.append("inst"); self.h[i] = len(self.ph) - 1

    def getp(self, i, op="getp"):
        self.emit("%s %d" % (op, i))
        if i >= len(self.h) or self.h[i] == "gone":
            return
        if self.h[i] is None:
            if op == "getp":
                self.ph.append("pending"); self.h[i] = len(self.ph) - 1
        elif self.ph[self.h[i]] == "inst":
            self.ph[self.h[i]] = "pending"

    def resolve(self, k, rk):
        self.emit("resolve %d %s" % (k, rk))
        if k < len(self.ph) and self.ph[k] == "pending":
            self.ph[k] = "ready"

    def see(self, sp, i):
        self.emit("%s %d" % (sp, i))

    def spell_for(self, i, wild=0.1):
        """a spelling that is inside the contract for handle i (sometimes any)"""
        rng = self.rng
        st = self.h[i] if i < len(self.h) else "gone"
        if rng.random() < wild or st == "gone":
            return rng.choice(SP_ALL)
        if st is None:
            return rng.choice(["ready", "value"])
        ph = self.ph[st]
        if ph == "inst":
            return rng.choice(SP_POLL)
        if ph == "pending":
            return rng.choice(SP_POLL + SP_AWAIT + SP_AWAIT)
        return rng.choice(SP_ALL)

    def sweep(self):
        for i in self.live():
            self.see("ready", i)
            self.see(self.rng.choice(["value", "cvalue"] if self.h[i] is not None else ["value"]), i)


def api_lifecycle(rng, n):
    """the late-initialisation life cycle with observers at every point, then every kind of access by every holder"""
    g = ApiGen(rng)
    h0 = g.new()
    def polls(k):
        for _ in range(rng.randint(0, k)):
            ls = g.live()
            if ls:
                i = rng.choice(ls)
                g.see(g.spell_for(i, 0.05), i)
    polls(2)
    if rng.random() < 0.3:
        g.copy(h0)                      # copied before initialisation: not shared
    how = rng.choice(["init-getp", "init-getp", "init-getp", "getp", "init-lshift"])
    if how != "getp":
        g.init(h0)
        for _ in range(rng.randint(1, 3)):
            g.copy(h0)
        polls(4)
        sharing = g.live(lambda st: st == g.h[h0])
        g.getp(rng.choice(sharing), "lshift" if how == "init-lshift" else "getp")
    else:
        g.getp(h0)
    for _ in range(rng.randint(0, 2)):
        g.copy(rng.choice(g.live()))
    polls(5)
    if rng.random() < 0.3:
        for i in g.live(lambda st: st == g.h[h0]):
            if rng.random() < (0.9 if rng.random() < 0.3 else 0.3):
                g.drop(i)
    if g.h[h0] not in (None, "gone") or True:
        g.resolve(0 if not g.ph else len(g.ph) - 1, api_rk(rng, n % 7))
    for _ in range(rng.randint(2, 8)):
        ls = g.live()
        if not ls:
            break
        i = rng.choice(ls)
        r = rng.random()
        if r < 0.08:
            g.emit("take %d" % i)
        elif r < 0.16:
            g.copy(i)
        elif r < 0.22:
            g.drop(i)
        else:
            g.see(g.spell_for(i, 0.03), i)
    g.sweep()
    return api_case(rng.choice(API_TYPES), g.ops)


def api_pair(T, how, rk, a, b):
    """holder 1 accesses through spelling a, then holder 0 through spelling b, then both re-read"""
    ops = {"pf": ["mk pf"], "ff": ["mk ff"], "getp": ["new", "getp 0"], "init-getp": ["new", "init 0", "copy 0", "ready 1", "getp 1", "drop 1"],
           "init-lshift": ["new", "init 0", "lshift 0"], "sv": ["mk sv 21"], "se": ["mk se 4"]}[how][:]
    nh = 2 if how == "init-getp" else 1
    ops += ["copy 0", "copy 0"]
    c1, c2 = nh, nh + 1
    early = a in SP_AWAIT or b in SP_AWAIT
    if early and how not in ("sv", "se"):
        if a in SP_AWAIT:
            ops.append("%s %d" % (a, c1))
        if b in SP_AWAIT:
            ops.append("%s %d" % (b, 0))
    if how not in ("sv", "se"):
        ops.append("resolve 0 " + rk)
    ops += ["%s %d" % (a, c1), "%s %d" % (b, 0), "value %d" % c2, "value %d" % c1, "ready %d" % c2]
    return api_case(T, ops)


def api_random(rng, n, maxlen=24):
    g = ApiGen(rng)
    for _ in range(rng.randint(3, maxlen)):
        r = rng.random()
        ls = g.live()
        if r < 0.10 or not ls:
            if rng.random() < 0.6:
                g.new()
            else:
                g.mk(rng.choice(["pf", "ff", "sv", "se"]), 3 + n % 5)
        elif r < 0.20:
            g.copy(rng.choice(ls))
        elif r < 0.24:
            g.assign(rng.choice(ls), rng.choice(ls))
        elif r < 0.31:
            g.drop(rng.choice(ls))
        elif r < 0.39:
            g.init(rng.choice(ls))
        elif r < 0.47:
            g.getp(rng.choice(ls), "getp" if rng.random() < 0.75 else "lshift")
        elif r < 0.57 and g.ph:
            pend = [k for k, p in enumerate(g.ph) if p == "pending"]
            g.resolve(rng.choice(pend) if pend and rng.random() < 0.9 else rng.randrange(len(g.ph)), api_rk(rng, n % 7))
        elif r < 0.61:
            g.emit("take %d" % rng.choice(ls))
        else:
            i = rng.choice(ls) if rng.random() < 0.97 else rng.randrange(len(g.h))
            g.see(g.spell_for(i), i)
    g.sweep()
    return api_case(rng.choice(API_TYPES), g.ops)


def _moved(v):
    return "moved" if v.startswith("v:") else v


def api_walk(case, out):
    """the property evaluated call by call on the implementation's answers; yields (messages, facts for the statistics)"""
    ops = [l.split() for l in case["lines"][1:]]
    msgs, facts = [], {"sp": {}, "before": 0, "after": 0, "null": 0, "inst_evidence": 0, "after_take": 0, "after_other_access": 0,
                       "ready_polls_before": 0, "awaiters": 0, "suspended": 0}
    if not out:
        return [], facts           # not run (the harness stops a batch after three hanging cases)
    for l in out:
        if l.startswith("crash signal 14"):
            return ["once: a call inside the contract never returned (the case hung after %d answers)" % (len(out) - 2)], facts
        if l.startswith("crash"):
            return ["memory: the implementation crashed (use after free / double free / null dereference: %s)" % l], facts
    if len(out) != len(ops):
        return ["protocol: %d answers for %d calls" % (len(out), len(ops))], facts
    expected, taken, freed = {}, set(), {}
    waiting, resumed, states, accessed = {}, {}, set(), {}
    for n, (w, l) in enumerate(zip(ops, out)):
        head, _, ev = l.partition(" ; ")
        hw, et = head.split(), ev.split()
        evs, i = [], 0
        while i < len(et):
            if et[i] == "obs":
                evs.append(("obs", int(et[i + 1][1:]), et[i + 2], et[i + 3])); i += 4
            elif et[i] == "freed":
                evs.append(("freed", int(et[i + 1][1:]))); i += 2
            else:
                return ["protocol: event `%s`" % et[i]], facts
        op = w[0]
        k = int(hw[0][1:]) if hw and re.fullmatch(r"s\d+", hw[0]) else None
        if k is not None:
            states.add(k)
        here = "call %d `%s`" % (n, " ".join(w))
        cur = lambda kk: _moved(expected[kk]) if kk in taken else expected[kk]
        if op == "mk" and len(hw) == 2:
            kk = int(hw[1][1:]); states.add(kk)
            if w[1] == "sv":
                expected[kk] = "v:" + w[2]
            elif w[1] == "se":
                expected[kk] = "exc:" + w[2]
        elif op == "resolve" and hw[0] in ("ret", "ok"):
            kk = int(w[1])
            if hw[0] == "ret" and hw[1] != "1":
                msgs.append("result: %s: the promise call returned %s" % (here, hw[1]))
            if kk in freed:
                msgs.append("life: state s%d was freed while it was still pending (before %s)" % (kk, here))
            expected[kk] = "v:" + w[3] if w[2] == "value" else "exc:" + w[3] if w[2] == "exc" else "canceled"
        elif op == "take" and k is not None and len(hw) == 3:
            x = hw[2]
            if k in expected:
                if x != cur(k):
                    msgs.append("result: %s moved out %s, the single result of s%d is %s" % (here, x, k, cur(k)))
            elif x not in ("notready", "canceled"):
                msgs.append("result: %s obtained %s before s%d was resolved" % (here, x, k))
            if x.startswith("v:"):
                taken.add(k)
        elif op in SP_ALL and hw[0] not in ("pre", "gone", "?"):
            facts["sp"][op] = facts["sp"].get(op, 0) + 1
            x = hw[1]
            if k is None:
                facts["null"] += 1
                if (op == "ready" and x != "0") or (op == "value" and x != "notready"):
                    msgs.append("late-init: %s on a handle without state answered %s" % (here, x))
            else:
                res = k in expected
                facts["after" if res else "before"] += 1
                if res and k in taken:
                    facts["after_take"] += 1
                if res and accessed.get(k):
                    facts["after_other_access"] += 1
                if res:
                    accessed[k] = accessed.get(k, 0) + 1
                if op in SP_READY:
                    if not res:
                        facts["ready_polls_before"] += 1
                    if x != ("1" if res else "0"):
                        msgs.append(("late-init: %s answered ready=%s, s%d has not been resolved yet" if not res else
                                     "result: %s answered ready=%s, s%d has been resolved") % (here, x, k))
                elif op in SP_VALUE:
                    if res and x != cur(k):
                        msgs.append("result: %s observed %s, the single result of s%d is %s" % (here, x, k, cur(k)))
                    if not res:
                        if x == "canceled":
                            facts["inst_evidence"] += 1
                        if x not in ("notready", "canceled"):
                            msgs.append("result: %s observed %s before s%d was resolved" % (here, x, k))
                elif op == "join":
                    want = "returned" if cur(k) == "moved" or cur(k).startswith("v:") else cur(k)
                    if x != want:
                        msgs.append("result: %s ended with %s, the single result of s%d is %s" % (here, x, k, cur(k)))
                elif op in ("chasv", "cbool", "cnot"):
                    has = expected[k] != "canceled"
                    if x != ("1" if has != (op == "cnot") else "0"):
                        msgs.append("result: %s answered %s, the single result of s%d is %s" % (here, x, k, cur(k)))
                elif op in ("cpending", "cinit"):
                    if op == "cinit" and x == "1":
                        facts["inst_evidence"] += 1
                    if res and x != "0":
                        msgs.append("result: %s answered %s, s%d has been resolved" % (here, x, k))
                elif op in SP_AWAIT:
                    facts["awaiters"] += 1
                    wid = int(x[1:])
                    waiting[wid] = k
                    resumed[wid] = 0
                    if not res:
                        facts["suspended"] += 1
                    if res and not any(e[0] == "obs" and e[1] == wid for e in evs):
                        msgs.append("once: %s: the awaiter of a resolved state was not resumed at once" % here)
        for e in evs:
            if e[0] == "freed":
                if e[1] in freed:
                    msgs.append("life: state s%d was freed twice" % e[1])
                freed[e[1]] = n
            else:
                _, wid, kind, x = e
                if wid not in waiting:
                    msgs.append("once: %s resumed an unknown awaiter w%d" % (here, wid))
                    continue
                kk = waiting[wid]
                resumed[wid] += 1
                if resumed[wid] > 1:
                    msgs.append("once: awaiter w%d of s%d was resumed %d times" % (wid, kk, resumed[wid]))
                if kk in freed and freed[kk] < n:
                    msgs.append("memory: awaiter w%d read the result after s%d was freed" % (wid, kk))
                want = cur(kk) if kk in expected else "canceled" if op == "end" else None
                if want is None:
                    msgs.append("once: %s resumed awaiter w%d of s%d, which has not been resolved" % (here, wid, kk))
                elif x != want:
                    msgs.append("result: awaiter w%d (%s) observed %s, the single result of s%d is %s" % (wid, kind, x, kk, want))
        if op == "end":
            if hw != ["end", "alive=0", "vbal=0", "ebal=0"]:
                msgs.append("life: at the end `%s` (leak of a shared state / stored values constructed and destroyed unevenly)" % head)
            for wid, c in resumed.items():
                if c != 1:
                    msgs.append("once: awaiter w%d of s%d was resumed %d times" % (wid, waiting[wid], c))
            for kk in sorted(states):
                if kk not in freed:
                    msgs.append("life: state s%d was never freed" % kk)
        elif k is not None and k in freed and freed[k] < n:
            msgs.append("memory: %s used s%d after it was freed" % (here, k))
    return msgs, facts


class ApiSuite(Suite):
    name = "api"
    harness = API_HARNESS
    driver = "drv_c17"
    corpus_prefix = "c17api_"
    chunk = 400
    timeout = 600
    nontrivial_rule = "at least two observer calls were answered from a shared state (not `pre` / `gone`)"

    def gen_cases(self, rng, tier):
        q = tier == "quick"
        hows = ["pf", "ff", "getp", "init-getp", "init-lshift", "sv", "se"]
        pairs = []
        for a in SP_ALL:
            for b in SP_ALL:
                for how in (hows if not q else [rng.choice(hows)]):
                    for rk in (["value 12", "exc 3", "drop", "dtor"] if not q else [rng.choice(["value 12", "value 12", "exc 3", "drop"])]):
                        pairs.append(api_pair(rng.choice(API_TYPES), how, rk, a, b))
        nl, nr = (700, 900) if q else (15000, 25000)
        return pairs + [api_lifecycle(rng, i) for i in range(nl)] + [api_random(rng, i) for i in range(nr)] + \
            ([] if q else [api_random(rng, i, 60) for i in range(5000)])

    def oracle(self, case, out):
        return api_walk(case, out)[0]

    def nontrivial(self, case, out):
        return sum(1 for l, o in zip(case["lines"][1:], out) if l.split()[0] in SP_ALL and re.match(r"s\d+ ", o)) >= 2

    def signature(self, case, msg):
        return {"suite": self.name, "msg": msg.split(":")[0]}

    def stats(self, cases, outs):
        tot = {"before": 0, "after": 0, "null": 0, "inst_evidence": 0, "after_take": 0, "after_other_access": 0, "ready_polls_before": 0,
               "awaiters": 0, "suspended": 0}
        sp, types, opsn, rks = {}, {}, {}, {}
        for c in cases:
            types[c["lines"][0].split()[3]] = types.get(c["lines"][0].split()[3], 0) + 1
            for l in c["lines"][1:-1]:
                w = l.split()
                key = "observer" if w[0] in SP_ALL else w[0] + (" " + w[1] if w[0] == "mk" else "")
                opsn[key] = opsn.get(key, 0) + 1
                if w[0] == "resolve":
                    rks[w[2]] = rks.get(w[2], 0) + 1
            try:
                f = api_walk(c, outs.get(str(c["id"]), []))[1]
            except Exception:
                continue
            for k in tot:
                tot[k] += f[k]
            for k, v in f["sp"].items():
                sp[k] = sp.get(k, 0) + v
        return {"value_types": types, "calls": opsn, "resolver_kinds": rks, "answered_observer_spellings": sp,
                "observations_before_resolution": tot["before"], "observations_after_resolution": tot["after"],
                "observations_on_a_null_handle": tot["null"], "ready_polls_before_resolution": tot["ready_polls_before"],
                "answers_showing_the_initialised_unpromised_state": tot["inst_evidence"],
                "observations_after_an_earlier_access_to_the_same_state": tot["after_other_access"],
                "observations_after_the_user_moved_the_value_out": tot["after_take"],
                "awaiters": tot["awaiters"], "awaiters_suspended_until_resolution": tot["suspended"]}


class C17(Spec):
    pid = "C17"
    lean_modules = ["CoclsModel.Props.C17"]
    design_ref = "DESIGN.md §5 C17"
    technique = ("Lean 4 invariant proof over all schedules of a micro-step model (reference count, resolve tracer, awaiter chain) + step-for-step differential replay on "
                 "the real headers under a baton scheduler, ASan and life-time tracking of the shared state")
    level_text = ("Lean 4 theorems over a micro-step model of shared_future (one step per atomic operation of future.h/awaiter.h as used by shared_future.h; handle copy/drop are atomic "
                  "reference-count steps) for any number of handle threads, any programs of copy/drop/peek/await (coroutine, blocking, callback), every construction path "
                  "(both constructors, get_promise() late initialisation with and without a preceding init_if_needed() and copies taken before get_promise(), init_if_needed()+operator<<, ready-made factories), every resolver kind and every schedule, by induction "
                  "over the schedule with a 42-clause invariant: all observations equal the single result, every awaiter is woken/observes at most once and exactly once at quiescence, "
                  "a state where no thread can move is quiescent (no lost wake-up), the state is alive while pending whatever the handles do, is freed at most once and exactly once "
                  "at quiescence, is never accessed after the free, the tracer is the bottom node of the chain, late initialisation does not crash. The model is tied to the headers by "
                  "replaying generated and exhaustively enumerated schedules on the unmodified headers (baton scheduler, ASan/UBSan, life-time tracking of the make_shared block) and "
                  "diffing every operation line; oracles evaluate the statement on the implementation trace. "
                  "Second model (SharedFutureApi.lean, suite `api`): whole calls of one thread as atomic steps, any number of handles and shared states, ANY history of the public interface — "
                  "default construction / constructors / factories, copy, copy-assignment, destruction, init_if_needed(), get_promise(), operator<<, the promise used in any of the four ways, "
                  "every observer spelling (ready, value, wait, force_wait, join, sync, force_sync, co_await, callback awaiter, and through operator Base&: ready, pending, initialized, value, wait, "
                  "join, operator*, has_value, operator bool, operator!) on any handle at any point of the late-initialisation life cycle — with the stored value's state (intact / moved-from) as data: "
                  "by induction over the history, a resolved state shows exactly what the resolver stored to every spelling through every copy, ready() is false until the resolution, no value or "
                  "exception is visible before it, no call except the resolver, the promise-attaching calls and the user's explicit std::move(h.value()) changes what any later access observes, and an "
                  "intact value stays intact unless the user moves it out. Tied to the headers by replaying generated histories (all ordered pairs of spellings by two holders followed by re-reads, "
                  "life-cycle histories with polls at every point, random histories) with move-sensitive value types (a counted type whose move empties the source, std::string beyond the SSO buffer).")
    level_note = ("trusted: Lean kernel; hand-written list-level model (intrusive `_next` links abstracted to a list; pointer-level safety of the walk is covered by ASan in the harness); "
                  "std::shared_ptr as specified (count = number of live handles, last drop destroys; its counter is not a scheduling point; the transient references inside charge() — "
                  "the by-value parameter and `_ptr = ptr` before the CAS — are not modelled, the creator holds its own handle throughout); the baton shim (sequentially consistent "
                  "interleavings only — memory orders are C03's); the life time of the state is observed through the sanitizer's malloc/free hooks. A change that keeps the behaviour "
                  "but alters the sequence of atomic operations (e.g. dropping the pending() test before charge) breaks the step-for-step correspondence and is reported as "
                  "`no-failing-input-found` after the thorough search. Two defects of the pinned commit are repaired by fix: commits and kept as as-is variants with `decide` "
                  "witnesses: init_if_needed() tested the pointer the wrong way round (get_promise() on a default-constructed object dereferenced null) and operator<< did not wire "
                  "the resolve tracer (state destroyed while pending once every handle was dropped).")
    trusted_base = ["model lean/CoclsModel/SharedFuture.lean tied to shared_future.h/future.h/awaiter.h by step-for-step replay (harness/h_shared_future.cpp, shim/verif_shim.h) against lean/Drivers/C17.lean",
                    "model lean/CoclsModel/SharedFutureApi.lean (calls as atomic steps; blocking spellings only on resolved states) tied to the same headers by call-for-call replay (harness/h_shared_future_api.cpp: handle->state "
                    "book-keeping and the contract test `pre` are the harness's own, life time observed through weak_ptr::expired) against lean/Drivers/C17.lean (case kind `api`)",
                    "std::shared_ptr, C++20 coroutine machinery and libstdc++ as specified"]
    assumptions = ["every awaiter holds its own handle for as long as it waits (documented contract of shared_future)",
                   "one promise per shared state, not invoked concurrently with its own destruction (competing resolvers are C01's subject)",
                   "Pre (future.h contract, asserted by the code): a state is awaited only after get_promise()/operator<< has initialised it — co_await on a state that only went "
                   "through init_if_needed() subscribes to an uninitialised future ('Invalid future state' assert, awaiter dropped under NDEBUG); get_promise() is called once, on an "
                   "object without a state or with a fresh init_if_needed() state — on a pending or already resolved shared_future the unchanged code keeps the state and "
                   "future::get_promise asserts (no re-arming); operator<< needs a state and is not applied to a pending one (future::result_of contract)",
                   "interleavings are sequentially consistent (memory orders: C03)",
                   "api suite: the stored value is changed only through the documented way (the user moves it out of the reference value() returns: modelled as `take`); observers that block are "
                   "applied to resolved states only (one thread); awaiting spellings need a promised state (future.h asserts otherwise)"]

    def suites(self):
        return [SharedFutureSuite(), ApiSuite()]


SPEC = C17()
