"""Scenario generator and trace parser shared by C07 and C08 (harness/h_mutex.cpp, lean/Drivers/C07.lean)."""
import itertools
import re
from vlib.runner import Suite

HARNESS = ("h_mutex", ["h_mutex.cpp"], {"extra_flags": ["-fno-access-control", "-I/verif/harness/shim"]})
SYNC_ROUNDS = ["lx", "ld", "tx", "td"]
CORO_ROUNDS = ["cx", "cd", "ca"]


def make_case(threads, sched, kind="mutex"):
    """kind `mutexp`: the harness additionally prints a digest of the real pointer state after every operation line (suite
    `ptr-level` of C08, compared with the pointer-level model lean/Drivers/C08P.lean)"""
    return {"id": 0, "lines": ["case 0 " + kind] + threads + ["sched " + " ".join(map(str, sched)), "end"]}


def random_sched(rng, n, length):
    out = []
    while len(out) < length:
        t = rng.randrange(n)
        burst = 1 if rng.random() < 0.55 else rng.randint(2, 6)
        out += [t] * burst
    return out[:length]


def random_round(rng, kind, allow_block=True):
    """<fl><rel><opt>*: acquisition flavour, way of giving the ownership up, ownership object / spelling options
    (see the head of harness/h_mutex.cpp)"""
    if kind == "coro":
        fl = rng.choice("ccccctl" if allow_block else "cccccct")
        rel = rng.choice("xdaxdamg")
    else:
        fl = rng.choice("lllttkk")
        rel = rng.choice("xdxdmg")
    opts = ""
    if rel != "g" and rng.random() < 0.35:
        opts += "s"                         # ownership kept in the shared slot
    if fl == "l":
        opts += rng.choice(["", "", "f", "o"])   # wait() / force_wait() / ownership own(mx.lock())
    if rel == "x" and "s" not in opts and rng.random() < 0.25:
        opts += "r"                              # release() once more on the emptied ownership (no-op)
    if fl == "k":
        opts += rng.choice(["", "u"])            # subscribe(awaiter *) / await_suspend(resume_fn, ctx)
    return fl + rel + opts


def random_thread(rng, max_rounds, plain=False):
    k = rng.randint(1, max_rounds)
    if plain:   # the original round set: own ownership object, no callbacks, no blocking lock inside a coroutine
        if rng.random() < 0.55:
            return "t coro " + " ".join(rng.choice(CORO_ROUNDS) for _ in range(k))
        return "t sync " + " ".join(rng.choice(SYNC_ROUNDS if rng.random() < 0.8 else ["lx", "ld"]) for _ in range(k))
    kind = "coro" if rng.random() < 0.55 else "sync"
    return "t %s " % kind + " ".join(random_round(rng, kind) for _ in range(k))


def legalise(threads):
    """A blocking lock issued inside a coroutine blocks the whole OS thread together with the coroutines queued on it: when the
    owner it waits for is one of them the *program* deadlocks (that is why wait() asserts there). Such a request is therefore
    generated only where no coroutine can be queued on the thread yet: as the contender's first round, or in cases without
    `co_await lock()` rounds (where no coroutine is ever resumed by another party)."""
    has_co = any(r[0] == "c" for t in threads for r in t.split()[2:])
    out = []
    for t in threads:
        w = t.split()
        if w[1] == "coro" and has_co:
            w = w[:3] + [("c" + r[1:].replace("f", "").replace("o", "")) if r[0] == "l" else r for r in w[3:]]
        out.append(" ".join(w))
    return out


def gen_random(rng, count, min_t=2, max_t=4, max_rounds=3, kind="mutex"):
    cases = []
    for _ in range(count):
        n = rng.randint(min_t, max_t)
        plain = rng.random() < 0.3
        threads = legalise([random_thread(rng, max_rounds, plain) for _ in range(n)])
        sched = random_sched(rng, n, rng.randint(0, 16 * n))
        cases.append(make_case(threads, sched, kind))
    return cases


def gen_exhaustive_pairs(length=13, rounds=1, kind="mutex"):
    """all schedules of the given length for every pair of contender shapes; pairs that involve a shape of the ownership layer
    (shared slot, callback, hand-over-hand, move, blocking lock inside a coroutine) are enumerated two steps shorter"""
    cases = []
    old = [("sync", r) for r in ["lx", "ld", "tx"]] + [("coro", r) for r in CORO_ROUNDS]
    new = [("sync", r) for r in ["kxs", "lgo", "lms", "kdu"]] + [("coro", r) for r in ["lxf", "cg", "cas"]]
    for a, b in itertools.combinations_with_replacement(old + new, 2):
        threads = legalise(["t %s %s" % (a[0], " ".join([a[1]] * rounds)), "t %s %s" % (b[0], " ".join([b[1]] * rounds))])
        n = length if (a in old and b in old) else max(4, length - 2)
        for bits in itertools.product([0, 1], repeat=n):
            cases.append(make_case(threads, list(bits), kind))
    return cases


def gen_preemption_bounded_triples(rng, shapes_n=10, length=16, switches=3):
    """3 contenders, schedules with at most `switches` context switches (positions and targets enumerated)"""
    cases = []
    for _ in range(shapes_n):
        threads = legalise([random_thread(rng, 2) for _ in range(3)])
        for start in range(3):
            for pos in itertools.combinations(range(1, length), switches):
                for targets in itertools.product([1, 2], repeat=switches):
                    cur, sched, k = start, [], 0
                    for i in range(length):
                        if k < switches and i == pos[k]:
                            cur = (cur + targets[k]) % 3
                            k += 1
                        sched.append(cur)
                    cases.append(make_case(threads, sched))
    return cases


def parse(case, out):
    threads = [l.split() for l in case["lines"][1:] if l.split()[0] == "t"]
    info = {"threads": threads, "cs": [], "overlap": False, "tryfail": [], "done": [], "final": None, "rounds": {},
            "deadlock": False, "crash": False, "assert": None, "ops": [], "events": []}
    for l in out:
        w = l.split()
        if not w:
            continue
        if w[0] == "cs":
            info["cs"].append((int(w[1][1:]), int(w[2][1:])))
            info["events"].append(("cs", int(w[1][1:]), int(w[2][1:])))
            if "OVERLAP" in w:
                info["overlap"] = True
        elif w[0] == "try-fail":
            info["tryfail"].append((int(w[1][1:]), int(w[2][1:])))
        elif w[0] == "done":
            info["done"].append(int(w[1][1:]))
        elif w[0] == "final":
            info["final"] = tuple(w[1:])
        elif w[0] == "agent":
            d, t = w[2].split("=")[1].split("/")
            info["rounds"][int(w[1][1:])] = (int(d), int(t))
        elif w[0] == "deadlock":
            info["deadlock"] = True
        elif w[0] == "crash":
            info["crash"] = True
        elif w[0] == "assert-failed":
            info["assert"] = l
        elif w[0] == "s":
            info["ops"].append(l)
            if len(w) >= 6 and w[2].startswith("a") and w[3] == "cas+" and w[5] in ("door>ptr", "ptr>ptr"):
                info["events"].append(("publish", int(w[2][1:])))
    return info


def parse_digests(out):
    """the digest lines of a `mutexp` case: list of (index of the operation line it follows, req, queue, {node: next})"""
    res = []
    for i, l in enumerate(out):
        if not l.startswith("p "):
            continue
        head, _, links = l.partition("|")
        w = head.split()
        d = {"req": w[1].split("=")[1], "queue": w[2].split("=")[1], "next": {}, "after": i - 1}
        for tok in links.split():
            n, _, nx = tok.partition(">")
            d["next"][n] = nx
        res.append(d)
    return res


def chain(d, start):
    """follow the printed `_next` links from `start`; returns (nodes, end) with end = null | door | ? | cycle | unknown:<node>"""
    nodes, p = [], start
    while p not in ("null", "door", "?"):
        if p in nodes:
            return nodes, "cycle"
        if p not in d["next"]:
            return nodes, "unknown:" + p
        nodes.append(p)
        p = d["next"][p]
    return nodes, p


class MutexSuite(Suite):
    harness = HARNESS
    driver = "drv_c07"
    chunk = 400
    timeout = 600
    nontrivial_rule = "the effective interleaving (sequence of synchronising operations) is new and at least one request had to wait (published behind an owner)"

    def distinct_key(self, case, out):
        return "|".join(case["lines"][1:-2]) + "|" + "|".join(l for l in out if l.startswith("s "))

    def nontrivial(self, case, out):
        return any(re.search(r"cas\+ req (door|ptr)>ptr", l) for l in out)

    def stats(self, cases, outs):
        shapes, waits, hand, dl, kinds = {}, 0, 0, 0, {}
        acq, rel, opts = {}, {}, {}
        ACQ = {"l": "blocking lock", "t": "try_lock", "c": "co_await lock", "k": "callback awaiter"}
        REL = {"x": "release() discarded", "d": "destroyed / empty ownership assigned", "a": "co_await release()",
               "g": "hand-over-hand: aux mutex' ownership assigned over it", "m": "moved into a temporary"}
        OPT = {"s": "ownership in the shared slot", "f": "force_wait() spelling", "o": "ownership(co_awaiter&&) spelling",
               "u": "callback through await_suspend(resume_fn, ctx)", "r": "release() repeated on the emptied ownership"}
        for c in cases:
            ths = c["lines"][1:-2]
            k = "%d contenders" % len(ths)
            shapes[k] = shapes.get(k, 0) + 1
            for t in ths:
                kind = t.split()[1]
                for r in t.split()[2:]:
                    kinds[r[:2]] = kinds.get(r[:2], 0) + 1
                    a = "%s in a %s contender" % (ACQ.get(r[0], r[0]), "coroutine" if kind == "coro" else "thread")
                    acq[a] = acq.get(a, 0) + 1
                    rel[REL.get(r[1], r[1])] = rel.get(REL.get(r[1], r[1]), 0) + 1
                    for o in r[2:]:
                        opts[OPT.get(o, o)] = opts.get(OPT.get(o, o), 0) + 1
            o = outs.get(str(c["id"]), [])
            waits += sum(1 for l in o if re.search(r"cas\+ req (door|ptr)>ptr", l))
            hand += sum(1 for l in o if " xchg req " in l)
            dl += 1 if "deadlock" in o else 0
            cbw = sum(1 for l in o if l.endswith(" cb-pass"))
            acq["callback granted as a waiter (cases)"] = acq.get("callback granted as a waiter (cases)", 0) + (1 if cbw else 0)
        return {"contenders": shapes, "round_kinds": kinds, "acquisition": acq, "giving_up": rel, "options": opts,
                "requests_that_waited": waits, "queue_builds": hand, "deadlocks_reported": dl}
