"""C09 — awaitable queue: each item delivered exactly once, in order."""
import itertools
import re
from vlib.runner import Spec, Suite

# same source as C10's harness, own cache name: builds against a mutated tree (COCLS_REPO) must not evict C10's binary
HARNESS = ("h_queue_c09", ["h_queue.cpp"], {})

EV_RE = re.compile(r"pop#(\d+)(\+|=(.*))$")


def parse_line(line):
    """'head ; e1 e2' -> (head words, [(pop id, None | outcome)]);  None = issued and parked"""
    head, _, tail = line.partition(" ; ")
    evs = []
    for e in tail.split():
        m = EV_RE.match(e)
        if not m:
            raise ValueError("unparsable event %r" % e)
        evs.append((int(m.group(1)), None if m.group(2) == "+" else m.group(3)))
    return head.split(), evs


def is_value(o):
    return o == "ok" or o.startswith("v:")


class SeqSuite(Suite):
    """sequential histories over push/pop/cons/cbcons/unblock_pop/size/empty/destroy on queue<int> and queue<void>;
    pops issued through plain futures, through coroutine consumers (`cons n`: co_await pop() in a loop) and through
    callback consumers (`cbcons n`: the callback runs inside the resolving call and re-enters the queue)"""
    name = "q-sequential"
    harness = HARNESS
    driver = "drv_c09"
    corpus_prefix = "c09_seq"
    chunk = 60
    nontrivial_rule = "at least one pop parked and at least one pop resolved with a value"

    # ---- generation --------------------------------------------------------------------------
    @staticmethod
    def _mk(kind, ops):
        lines = ["case 0 %s" % kind]
        v = 100
        for o in ops:
            if o.startswith("pushn "):
                lines.append("%s %d" % (o, v))      # `pushn k` -> `pushn k v`
                v += 1
            elif o == "push":
                if kind.split()[0] == "q":
                    lines.append("push %d" % v)
                    v += 1
                else:
                    lines.append("push")
            else:
                lines.append(o)
        lines.append("end")
        return {"id": 0, "lines": lines}

    def gen_cases(self, rng, tier):
        cases = []
        # 1. every short history (systematic part)
        if tier == "quick":
            alpha_q, len_q = ["push", "pop", "cons 2", "upop 3"], 5
            alpha_v, len_v = ["push", "pop", "cons 2", "upop 3"], 4
        else:
            alpha_q, len_q = ["push", "pop", "cons 2", "upop 3", "size"], 7
            alpha_v, len_v = ["push", "pop", "cons 2", "upop 3", "size"], 6
        for kind, alpha, ln in (("q", alpha_q, len_q), ("vq", alpha_v, len_v)):
            for n in range(1, ln + 1):
                for ops in itertools.product(alpha, repeat=n):
                    cases.append(self._mk(kind, ops))
        # 1a. the other configurations of queue<T, Queue, CoroQueue, Lock>: primitives::no_lock (single-threaded use is its
        #     contract) and primitives::single_item_queue as item store (s1) / as store of the parked promises (w1)
        cfg_alpha = ["push", "pop", "cons 2", "cbcons 2", "upop 3", "pushthrow", "size"]
        ln_c = 4 if tier == "quick" else 6
        for kind in ("q s1w1", "q s1", "q w1", "q nl", "q w1m", "vq w1", "vq nl"):
            alpha = [o for o in cfg_alpha if not (kind.startswith("vq") and o == "pushthrow")]
            for n in range(1, (ln_c if kind in ("q s1w1", "q s1", "q w1", "vq w1") else ln_c - 1) + 1):
                for ops in itertools.product(alpha, repeat=n):
                    cases.append(self._mk(kind, ops))
        # 1c. a pop() during which the hand-over of the item throws (plain call / from a coroutine): the item must stay
        for n in range(2, 6 if tier == "quick" else 8):
            for ops in itertools.product(["push", "pop", "popthrow", "cothrow", "size"], repeat=n):
                if ("popthrow" in ops or "cothrow" in ops) and "push" in ops:
                    cases.append(self._mk("q", ops))
        for n in range(2, 5 if tier == "quick" else 6):
            for ops in itertools.product(["push", "pop", "popthrow", "cothrow", "cons 2"], repeat=n):
                if ("popthrow" in ops or "cothrow" in ops) and "push" in ops:
                    cases.append(self._mk("q s1w1", ops))
        # 1d. queue<std::vector<int>> (a type with an initializer_list constructor) filled through the emplace-style
        #     push(k, v): the item is k copies of v whether it is queued or handed to a waiting pop
        for n in range(1, 5 if tier == "quick" else 7):
            for ops in itertools.product(["pushn 3", "pushn 2", "push", "pop", "cons 2", "upop 3"], repeat=n):
                if any(o.startswith("push") for o in ops) and ("pop" in ops or "cons 2" in ops):
                    cases.append(self._mk("q vec", ops))
        # 1b. a push whose item constructor throws, with and without pops waiting
        for n in range(1, 5 if tier == "quick" else 7):
            for ops in itertools.product(["pushthrow", "push", "pop", "cons 2", "upop 3"], repeat=n):
                if "pushthrow" in ops:
                    cases.append(self._mk("q", ops))
        # 2. random longer histories with producer-heavy / consumer-heavy phases
        n = 2500 if tier == "quick" else 60000
        for i in range(n):
            kind = "q" if rng.random() < 0.7 else "vq"
            if i % 3 == 1:
                kind += " " + (rng.choice(["nl", "s1", "w1", "s1w1", "w1m", "vec", "vec"]) if kind == "q" else rng.choice(["nl", "w1"]))
            vec = kind == "q vec"
            nops = rng.randint(3, 14) if rng.random() < 0.3 else rng.randint(10, 50)
            bias = rng.choice([0.3, 0.5, 0.7])
            # callback consumers re-enter the queue from inside the resolving call; if the queue ever resolved a promise
            # under its lock the harness notices at once (it probes the lock before re-entering) instead of deadlocking
            cons_kinds = ["cons", "cbcons"] if i % 2 == 0 else ["cons"]
            throwing = kind.split()[0] == "q" and not vec and i % 2 == 0
            ops = []
            for k in range(nops):
                if rng.random() < 0.15:
                    bias = rng.choice([0.15, 0.5, 0.85])
                r = rng.random()
                if r < 0.74:
                    if rng.random() < bias:
                        ops.append("pushn %d" % rng.randint(2, 4) if vec and rng.random() < 0.6 else "push")
                    elif throwing and rng.random() < 0.15:
                        ops.append(rng.choice(["popthrow", "cothrow"]))
                    elif rng.random() < 0.35:
                        ops.append("%s %d" % (rng.choice(cons_kinds), rng.randint(1, 4)))
                    else:
                        ops.append("pop")
                elif r < 0.86:
                    ops.append("upop %d" % rng.randint(1, 9))
                elif r < 0.90 and throwing:
                    ops.append("pushthrow")
                elif r < 0.94:
                    ops.append("size")
                else:
                    ops.append("empty")
            if rng.random() < 0.25:
                ops.insert(rng.randint(max(0, len(ops) - 4), len(ops)), "destroy")
            cases.append(self._mk(kind, ops))
        return cases

    def nontrivial(self, case, out):
        parked = any(" pending" in l or "+" in l for l in out)
        value = any("=v:" in l or "=ok" in l or re.match(r"pop#\d+ (v:|ok)", l) for l in out)
        return parked and value

    def stats(self, cases, outs):
        ops, kinds, refused = {}, {}, {}
        parked = delivered = unblocked = canceled = 0
        for c in cases:
            k = " ".join(c["lines"][0].split()[2:])
            kinds[k] = kinds.get(k, 0) + 1
            for l in c["lines"][1:-1]:
                w = l.split()[0]
                ops[w] = ops.get(w, 0) + 1
            for l in outs.get(str(c["id"]), []):
                if l.split(" ;")[0].endswith(" full"):
                    refused[l.split()[0]] = refused.get(l.split()[0], 0) + 1
                parked += l.count("+") + (1 if l.startswith("pop#") and l.split()[1] == "pending" else 0)
                delivered += l.count("=v:") + l.count("=ok") + (1 if re.match(r"pop#\d+ (v:|ok)", l) else 0)
                unblocked += l.count("=exc:")
                canceled += l.count("=canceled")
        return {"configurations": kinds, "refused_by_a_full_single_item_queue": refused, "ops": ops, "pops_parked": parked,
                "pops_resolved_with_value": delivered,
                "pops_unblocked": unblocked, "pops_canceled": canceled}

    # ---- the property, evaluated on the implementation's trace -------------------------------
    def oracle(self, case, out):
        msgs = []
        hdr = case["lines"][0].split()
        kind = hdr[2]
        if kind not in ("q", "vq"):
            return msgs
        void = kind == "vq"
        cfg = hdr[3] if len(hdr) > 3 else ""
        item_cap = 1 if cfg.startswith("s1") else None          # Queue = single_item_queue
        wait_cap = 1 if "w1" in cfg else None                   # CoroQueue = single_item_queue
        ops = case["lines"][1:]
        pushed = []          # values pushed, in order (queue<void>: a running number)
        given = 0            # number of items handed to pops so far
        pop_state = {}       # pop id -> 'pending' | outcome
        got = {}             # pop id -> value received
        finished = False

        def pending():
            return sorted(i for i, s in pop_state.items() if s == "pending")

        def state_throw_ok(head):
            return head[-1] in ("threw", "n/a", "full")

        def new_pop(i, state):
            if i in pop_state:
                msgs.append("duplicate: pop#%d issued twice" % i)
            elif i != len(pop_state):
                msgs.append("order: pop ids not consecutive (pop#%d after %d pops)" % (i, len(pop_state)))
            pop_state[i] = state

        def resolve(i, o, expect_head=True):
            """pop i was resolved with outcome o (just now)"""
            nonlocal given
            if o == "v:-666":
                msgs.append("corrupt: pop#%d received a destroyed or moved-from item" % i)
            if o == "v:-777":
                msgs.append("corrupt: pop#%d received an item that is not the k copies of v that push(k, v) constructs" % i)
            if is_value(o):
                if given >= len(pushed):
                    msgs.append("duplicate: pop#%d received %s but every pushed item was already delivered" % (i, o))
                else:
                    want = "ok" if void else "v:%d" % pushed[given]
                    if o != want:
                        if (not void) and o.startswith("v:") and int(o[2:]) in pushed[:given]:
                            msgs.append("duplicate: item %s delivered twice (pop#%d)" % (o, i))
                        else:
                            msgs.append("order: pop#%d received %s, the oldest undelivered item is %s" % (i, o, want))
                given += 1
                got[i] = o
            pop_state[i] = o

        for op, line in zip(ops, out):
            w = op.split()
            head, evs = parse_line(line)
            pend = pending()
            n_items = len(pushed) - given
            completions = [(i, o) for i, o in evs if o is not None]
            if w[0] in ("destroy", "end"):
                finished = True
                want = [(i, "canceled") for i in pend]
                if sorted(completions) != want:
                    msgs.append("destroy: expected every parked pop canceled %s, got %s" % (want, completions))
                for i, o in completions:
                    if pop_state.get(i) != "pending":
                        msgs.append("duplicate: pop#%d resolved twice or never issued" % i)
                    pop_state[i] = o
                break
            if head[-1] == "full":
                # the bounded backing store refused the element: legitimate only when it really is full, and then the
                # operation must have no effect at all (nothing resolved; the item / the pop does not exist)
                if w[0] in ("push", "pushthrow"):
                    if item_cap is None or pend or n_items < item_cap:
                        msgs.append("spurious: `%s` refused although the item store (capacity %s) holds %d items and pops %s wait"
                                    % (op, item_cap, n_items, pend))
                elif w[0] in ("pop", "popthrow", "cothrow"):
                    if wait_cap is None or n_items > 0 or len(pend) < wait_cap:
                        msgs.append("spurious: pop refused although %d items are queued and only pops %s wait (capacity %s)"
                                    % (n_items, pend, wait_cap))
                else:
                    msgs.append("spurious: `%s` refused" % op)
                if completions:
                    msgs.append("spurious: a refused operation resolved %s" % completions)
                continue
            if w[0] in ("popthrow", "cothrow") and head[-1] in ("threw", "n/a"):
                # the hand-over of the oldest item threw: the caller is told, the item stays (checked by what the next
                # pop receives and by size()), no future exists
                if head[-1] == "threw" and n_items == 0:
                    msgs.append("spurious: `%s` threw although the queue is empty (nothing to hand over)" % op)
                if completions or evs:
                    msgs.append("spurious: `%s` resolved / issued %s" % (op, evs))
                continue
            if w[0] in ("popthrow", "cothrow") and n_items > 0 and not state_throw_ok(head):
                msgs.append("lost: `%s` on a queue with %d items: the hand-over must throw to the caller, got `%s`"
                            % (op, n_items, " ".join(head)))
            if w[0] == "popthrow":
                w = ["pop"]             # (empty queue: an ordinary pop)
            if w[0] in ("push", "pushn"):
                if w[0] == "pushn":
                    w = ["push", str(int(w[1]) * 1000 + int(w[2]))]
                elif cfg == "vec":
                    w = ["push", str(1000 + int(w[1]))]
            if w[0] == "push":
                pushed.append(len(pushed) if void else int(w[1]))
                woke = head[1] == "woke=1"
                if pend:
                    tgt = pend[0]
                    want = "ok" if void else "v:%s" % w[1]
                    if not woke:
                        msgs.append("lost: push with a waiting pop reported woke=0")
                    if completions != [(tgt, want)]:
                        msgs.append("waiters-fifo: push with pops %s waiting must resolve exactly the oldest with %s, got %s"
                                    % (pend, want, completions))
                else:
                    if woke:
                        msgs.append("push: woke=1 with no pop waiting")
                    if completions:
                        msgs.append("spurious: push with no pop waiting resolved %s" % completions)
            elif w[0] == "pop":
                m = re.match(r"pop#(\d+)$", head[0])
                i = int(m.group(1))
                st = head[1]
                new_pop(i, "pending")
                if st != "pending":
                    if n_items == 0 or not is_value(st):
                        msgs.append("spurious: pop#%d on a queue with %d items completed at once with %s" % (i, n_items, st))
                    resolve(i, st)
                elif n_items > 0:
                    msgs.append("lost: pop#%d parked although %d items were queued" % (i, n_items))
                if completions:
                    msgs.append("spurious: pop resolved other futures %s" % completions)
            elif w[0] == "pushthrow":
                if "nothrow" in head:
                    msgs.append("spurious: the push of an item whose constructor throws returned normally")
                # no item exists; the only future it may touch is the oldest waiting pop, which it may only cancel
                if completions and (not pend or completions != [(pend[0], "canceled")]):
                    msgs.append("spurious: a push that threw (pops %s waiting) resolved %s" % (pend, completions))
            elif w[0] in ("cons", "cbcons", "cothrow"):
                if any(pop_state.get(i) == "pending" for i, o in completions):
                    msgs.append("spurious: %s resolved older futures %s" % (w[0], completions))
            elif w[0] == "upop":
                r = head[1]
                if pend:
                    want = [(pend[0], "exc:%s" % w[1])]
                    if r != "1" or completions != want:
                        msgs.append("unblock_pop: with pops %s waiting must fail exactly the oldest (%s), got result %s %s"
                                    % (pend, want, r, completions))
                elif r != "0" or completions:
                    msgs.append("unblock_pop: reported success/effect with nobody waiting: %s %s" % (r, completions))
            elif w[0] == "size":
                if int(head[1]) != n_items:
                    msgs.append("size: size() = %s but %d pushed - %d delivered = %d" % (head[1], len(pushed), given, n_items))
                if completions:
                    msgs.append("spurious: size resolved %s" % completions)
            elif w[0] == "empty":
                if (head[1] == "1") != (n_items == 0):
                    msgs.append("size: empty() = %s but %d items are queued" % (head[1], n_items))
                if completions:
                    msgs.append("spurious: empty resolved %s" % completions)
            # register what happened to the pop futures during this op (ids ascending = issue order)
            for i, o in evs:
                if o is not None and not is_value(o) and not (w[0] == "upop" and o.startswith("exc:")) \
                        and not (w[0] == "pushthrow" and o == "canceled"):
                    msgs.append("spurious: pop#%d resolved with %s during `%s` on a live queue" % (i, o, op))
                if o is None:
                    new_pop(i, "pending")
                elif i not in pop_state:
                    # a coroutine consumer's pop that was issued and resolved within this op
                    new_pop(i, "pending")
                    if len(pushed) - given == 0:
                        msgs.append("spurious: pop#%d on an empty queue completed at once with %s" % (i, o))
                    resolve(i, o)
                elif pop_state[i] != "pending":
                    msgs.append("duplicate: pop#%d resolved twice (%s then %s)" % (i, pop_state[i], o))
                else:
                    resolve(i, o)
            # the anchor's invariant, seen from outside: nobody waits while items are queued
            if pending() and len(pushed) - given > 0:
                msgs.append("lost: pops %s are parked while %d items are queued" % (pending(), len(pushed) - given))
        if not finished:
            msgs.append("hang: the trace ends before the queue was destroyed (%d lines for %d ops)" % (len(out), len(ops)))
        elif any(s == "pending" for s in pop_state.values()):
            msgs.append("hang: a pop future is still pending after the queue was destroyed")
        # exactly-once and order over the whole history: values by pop id = prefix of the push sequence
        if not void:
            seq = [int(got[i][2:]) for i in sorted(got) if got[i].startswith("v:")]
            if len(set(seq)) != len(seq):
                msgs.append("duplicate: an item was delivered twice: %s" % seq)
            elif seq != pushed[:len(seq)]:
                msgs.append("order: delivered %s is not a prefix of the pushed sequence %s" % (seq, pushed))
        elif len(got) > len(pushed):
            msgs.append("duplicate: %d counts handed out for %d pushes" % (len(got), len(pushed)))
        # dedupe, keep order
        seen, res = set(), []
        for m in msgs:
            if m not in seen:
                seen.add(m)
                res.append(m)
        return res


class SchedSuite(Suite):
    """interleavings on the real header (harness `run_sched`): every operation runs on its own thread and the queue's
    Lock template argument is a scheduling point.  An operation parks `paused` after a lock region that took a promise
    out of `_awaiters` (`deliver k` then performs the out-of-lock resolution = the model's `Op.deliver`), `holding`
    (`hold <op>`) inside its lock region, `blocked` in front of a lock held by another operation (it takes effect when it
    is delivered, after the holder), `midcall` in front of a second lock region of the same operation.  Every line shows
    the number of lock regions the operation entered (`r=`)."""
    name = "q-scheduled"
    harness = HARNESS
    driver = "drv_c09"
    corpus_prefix = "c09_sched"
    chunk = 60
    nontrivial_rule = "some operation ran while another one was parked (resolution in flight, lock held, or blocked)"

    @staticmethod
    def _mk(kind, ops):
        lines = ["case 0 %s" % kind]
        v = 100
        for o in ops:
            if o.split()[-1] == "push":
                lines.append("%s %d" % (o, v) if kind == "sq" else o)
                v += 1
            else:
                lines.append(o)
        lines.append("end")
        return {"id": 0, "lines": lines}

    def gen_cases(self, rng, tier):
        cases = []
        base = ["push", "pop", "upop 3", "deliver 0", "deliver 1"]
        ln_q, ln_v = (6, 5) if tier == "quick" else (8, 7)
        for kind, ln in (("sq", ln_q), ("svq", ln_v)):
            for n in range(2, ln + 1):
                for ops in itertools.product(base, repeat=n):
                    # a history without a parked pop before the first push/upop is covered by the sequential suite
                    if "pop" in ops and any(o.startswith("deliver") for o in ops):
                        cases.append(self._mk(kind, ops))
        # operations issued while another one is inside its lock region
        ext = base + ["hold size", "hold push"]
        ln_h = 5 if tier == "quick" else 6
        for kind in ("sq", "svq"):
            for n in range(2, (ln_h if kind == "sq" else ln_h - 1) + 1):
                for ops in itertools.product(ext, repeat=n):
                    h = [i for i, o in enumerate(ops) if o.startswith("hold")]
                    if h and h[0] < n - 1 and "pop" in ops:
                        cases.append(self._mk(kind, ops))
        # a push whose item constructor throws, followed by other operations
        for n in range(1, 5 if tier == "quick" else 7):
            for ops in itertools.product(["pushthrow", "push", "pop", "size", "deliver 0"], repeat=n):
                if "pushthrow" in ops:
                    cases.append(self._mk("sq", ops))
        # a pop() during which the hand-over of the item throws
        for n in range(2, 6 if tier == "quick" else 7):
            for ops in itertools.product(["popthrow", "push", "pop", "size", "hold popthrow", "deliver 0"], repeat=n):
                if any("popthrow" in o for o in ops) and "push" in ops:
                    cases.append(self._mk("sq", ops))
        n = 3000 if tier == "quick" else 60000
        for i in range(n):
            kind = "sq" if rng.random() < 0.7 else "svq"
            nops = rng.randint(4, 14) if rng.random() < 0.3 else rng.randint(10, 60)
            bias = rng.choice([0.3, 0.4, 0.5])
            lazy = rng.choice([0.1, 0.3, 0.6])        # how long parked operations are left alone
            holdp = rng.choice([0.0, 0.08, 0.2])
            parked = items = npend = 0
            held = False
            ops = []
            for k in range(nops):
                if rng.random() < 0.15:
                    bias = rng.choice([0.2, 0.4, 0.6])
                r = rng.random()
                if npend and (npend >= 6 or rng.random() > lazy):
                    j = rng.randrange(npend)
                    ops.append("deliver %d" % j)
                    if held and j == 0:
                        held = False
                    npend -= 1
                    continue
                if r < 0.70:
                    op = "push" if rng.random() < bias else ("popthrow" if kind == "sq" and rng.random() < 0.12 else "pop")
                elif r < 0.82:
                    op = "upop %d" % rng.randint(1, 9)
                elif r < 0.88:
                    op = "size"
                elif r < 0.92:
                    op = "empty"
                elif r < 0.95 and kind == "sq":
                    op = "pushthrow"
                else:
                    ops.append("deliver %d" % rng.randint(0, 3))   # possibly no such call: must be a no-op
                    continue
                if held:
                    npend += 1          # blocked
                elif rng.random() < holdp:
                    op = "hold " + op
                    held = True
                    npend += 1
                elif op == "push":
                    if parked:
                        parked -= 1
                        npend += 1
                    else:
                        items += 1
                elif op == "pop":
                    if items:
                        items -= 1
                    else:
                        parked += 1
                elif op == "popthrow":
                    if not items:
                        parked += 1
                elif (op.startswith("upop") or op == "pushthrow") and parked:
                    parked -= 1
                    npend += 1
                ops.append(op)
            if rng.random() < 0.25:
                ops.append("destroy")
            cases.append(self._mk(kind, ops))
        return cases

    @staticmethod
    def _head(line):
        return line.split(" ;")[0]

    def nontrivial(self, case, out):
        open_ = 0
        for l in out:
            h = self._head(l)
            if h.startswith("deliver r="):
                st = h.rsplit(":", 1)[-1]
                if st not in ("paused", "midcall", "blocked"):
                    open_ -= 1
            elif open_ > 0 and not h.startswith("end") and not h.startswith("deliver"):
                return True
            if any(h.split()[1:2] == [s] for s in ("paused", "holding", "blocked", "midcall")):
                open_ += 1
        return False

    def stats(self, cases, outs):
        ops, kinds = {}, {}
        cnt = {"paused": 0, "holding": 0, "blocked": 0, "midcall": 0}
        for c in cases:
            k = c["lines"][0].split()[2]
            kinds[k] = kinds.get(k, 0) + 1
            for l in c["lines"][1:-1]:
                w = l.split()
                key = "hold" if w[0] == "hold" else w[0]
                ops[key] = ops.get(key, 0) + 1
            for l in outs.get(str(c["id"]), []):
                w = self._head(l).split()
                if len(w) > 1 and w[1] in cnt:
                    cnt[w[1]] += 1
        return {"kinds": kinds, "ops": ops, "calls_parked": cnt}

    def oracle(self, case, out):
        """C09 on an interleaved trace.  An operation takes effect on the line that shows its result (for an operation
        that was holding or blocked: its `deliver` line - its linearisation point).  While every operation is one lock
        region, each line is checked against the statement (FIFO of items, waiting pops served in arrival order,
        unblock_pop takes exactly the oldest, a pop parks only on an empty queue, size/empty).  Always, whenever no call
        is in progress: no pop future is pending while items are queued; nothing delivered twice; nothing left pending
        after destruction."""
        msgs = []
        hdr = case["lines"][0].split()
        kind = hdr[2]
        if kind not in ("sq", "svq"):
            return msgs
        void = kind == "svq"
        ops = case["lines"][1:]
        pushed = []               # values pushed, in linearisation order (void: a running number)
        given = 0                 # items assigned to pops so far
        pop_state = {}            # pop id -> 'incall' | 'pending' | outcome
        waiters = []              # parked pops whose promise is still in the queue, in arrival order
        parked = []               # calls in progress, in the order in which they parked
        pushes_done = 0           # push calls that returned
        got = {}
        state = {"concurrent": False, "finished": False}

        def val_of(k):
            return "ok" if void else "v:%d" % pushed[k]

        def resolved(i, o):
            if pop_state.get(i) not in ("pending", "incall"):
                msgs.append("duplicate: pop#%d resolved twice or never issued (%s)" % (i, o))
            pop_state[i] = o
            if is_value(o):
                got[i] = o
                if o == "v:-666":
                    msgs.append("corrupt: pop#%d received a destroyed or moved-from item" % i)

        def takers():
            """calls in progress that may still take a waiting pop"""
            return sum(1 for c in parked if c["type"] in ("deferred", "midcall") and c["w"][0] in ("push", "upop", "pushthrow"))

        def apply(w, label, status, completions):
            """the operation `w` takes effect now, returning / parking with `status`"""
            nonlocal given, pushes_done
            strict = not state["concurrent"]
            expect = []
            n_items = len(pushed) - given
            if w[0] == "push":
                pushed.append(len(pushed) if void else int(w[1]))
                if status in ("paused", "1"):
                    if not waiters:
                        if strict:
                            msgs.append("spurious: push reported a woken consumer (%s) with nobody waiting" % status)
                    else:
                        tgt = waiters.pop(0)
                        val = val_of(given) if given < len(pushed) else "?"
                        given += 1
                        early = completions == [(tgt, val)] or status == "1"
                        if status == "paused":
                            parked.append({"type": "resolve", "pop": tgt, "out": val, "ret": "push:1", "early": early,
                                           "tag": "waiters-fifo"})
                        if early:
                            expect = [(tgt, val)]
                    if status == "1":
                        pushes_done += 1
                else:
                    pushes_done += 1
                    if status != "0":
                        msgs.append("harness: push returned %s" % status)
                    elif strict and len(waiters) > takers():
                        msgs.append("lost: push with pops %s waiting did not take one" % waiters)
            elif w[0] == "pushthrow":
                # no item comes into existence.  A push that had taken a waiting pop's promise before its item
                # construction threw must complete that pop (as canceled) - it may not leave it pending
                if status == "nothrow":
                    msgs.append("spurious: the push of an item whose constructor throws returned normally")
                elif status == "paused":
                    if not waiters:
                        if strict:
                            msgs.append("spurious: a throwing push took a promise with nobody waiting")
                    else:
                        tgt = waiters.pop(0)
                        early = completions == [(tgt, "canceled")]
                        parked.append({"type": "resolve", "pop": tgt, "out": "canceled", "ret": "pushthrow:threw",
                                       "early": early, "tag": "pushthrow"})
                        if early:
                            expect = [(tgt, "canceled")]
            elif w[0] == "popthrow" and status == "threw":
                # the hand-over threw: the caller is told, no future exists, the item stays for the next pop
                pop_state[int(label[4:])] = "threw"
                if strict and n_items == 0:
                    msgs.append("spurious: popthrow threw although the queue is empty (nothing to hand over)")
            elif w[0] in ("pop", "popthrow"):
                i = int(label[4:])
                if w[0] == "popthrow" and strict and n_items > 0:
                    msgs.append("lost: popthrow on a queue with %d items: the hand-over must throw to the caller, got %s"
                                % (n_items, status))
                if status == "pending":
                    pop_state[i] = "pending"
                    waiters.append(i)
                    if strict and n_items > 0:
                        msgs.append("lost: pop#%d parked although %d items were queued" % (i, n_items))
                else:
                    pop_state[i] = "incall"
                    if strict:
                        if n_items == 0 or not is_value(status):
                            msgs.append("spurious: pop#%d on a queue with %d items completed at once with %s" % (i, n_items, status))
                        elif status != val_of(given):
                            dup = (not void) and status[2:].lstrip("-").isdigit() and int(status[2:]) in pushed[:given]
                            msgs.append("%s: pop#%d received %s, the oldest undelivered item is %s"
                                        % ("duplicate" if dup else "order", i, status, val_of(given)))
                    if is_value(status):
                        given += 1
                    resolved(i, status)
            elif w[0] == "upop":
                if status in ("paused", "1"):
                    if not waiters:
                        if strict:
                            msgs.append("unblock_pop: reported success with nobody waiting")
                    else:
                        tgt = waiters.pop(0)
                        out_ = "exc:%s" % w[1]
                        early = completions == [(tgt, out_)] or status == "1"
                        if status == "paused":
                            parked.append({"type": "resolve", "pop": tgt, "out": out_, "ret": "upop:1", "early": early,
                                           "tag": "unblock_pop"})
                        if early:
                            expect = [(tgt, out_)]
                elif status == "0":
                    if len(waiters) > takers():
                        msgs.append("unblock_pop: returned false although pops %s are waiting (nothing else could have "
                                    "taken them)" % waiters)
                else:
                    msgs.append("harness: unblock_pop returned %s" % status)
            elif w[0] == "size":
                if strict and status.isdigit() and int(status) != n_items:
                    msgs.append("size: size() = %s but %d pushed - %d handed out = %d" % (status, len(pushed), given, n_items))
            elif w[0] == "empty":
                if strict and (status == "1") != (n_items == 0):
                    msgs.append("size: empty() = %s but %d items are queued" % (status, n_items))
            return expect

        def quiescent(where):
            n = pushes_done - len(got)
            pend = sorted(i for i, s in pop_state.items() if s == "pending")
            if pend and n > 0:
                msgs.append("lost: pops %s are parked while %d items are queued (%s)" % (pend, n, where))
            if len(got) > len(pushed):
                msgs.append("duplicate: %d pops received a value for %d pushes" % (len(got), len(pushed)))

        for op, line in zip(ops, out):
            w = op.split()
            if w[0] == "hold" and len(w) > 1:
                w = w[1:]
            head, evs = parse_line(line)
            if any(o is None for _, o in evs):
                msgs.append("harness: unexpected event in %r" % line)
            completions = [(i, o) for i, o in evs if o is not None]
            expect = []
            if w[0] in ("destroy", "end"):
                state["finished"] = True
                # every call in progress finishes first: resolutions are performed; deferred calls take effect in an
                # order the trace does not show, so only the futures are judged
                if not state["concurrent"] and all(c["type"] == "resolve" for c in parked):
                    want = sorted([(c["pop"], c["out"]) for c in parked if not c["early"]] + [(i, "canceled") for i in waiters])
                    if sorted(completions) != want:
                        msgs.append("destroy: expected %s, got %s" % (want, sorted(completions)))
                # a deferred popthrow that took effect during the flush and threw leaves no future behind
                for c in parked:
                    if c["type"] != "resolve" and c["w"][0] == "popthrow":
                        i = int(c["label"][4:])
                        if i not in [j for j, _ in completions]:
                            pop_state[i] = "threw"
                for i, o in completions:
                    if i not in pop_state:
                        pop_state[i] = "incall"
                    elif pop_state[i] not in ("pending", "incall"):
                        msgs.append("duplicate: pop#%d resolved twice (%s)" % (i, o))
                    pop_state[i] = o
                    if is_value(o):
                        got[i] = o
                        if o == "v:-666":
                            msgs.append("corrupt: pop#%d received a destroyed or moved-from item" % i)
                break
            if head[0] == "bad-op":
                continue
            if w[0] == "deliver":
                k = int(w[1])
                if head[1] == "none":
                    if not state["concurrent"] and k < len(parked):
                        msgs.append("harness: deliver %d found no call" % k)
                elif head[1] == "held":
                    pass
                else:
                    r = head[1]
                    ret = head[2][4:] if len(head) > 2 and head[2].startswith("ret=") else ""
                    label, _, status = ret.partition(":")
                    c = parked.pop(k) if k < len(parked) else None
                    if c is None:
                        state["concurrent"] = True
                    elif c["type"] == "resolve":
                        if r != "r=0":
                            state["concurrent"] = True
                        if status in ("midcall", "blocked", "paused"):
                            state["concurrent"] = True
                            parked.append(c)
                        else:
                            if ret != c["ret"]:
                                msgs.append("%s: the parked call must return %s, got %s" % (c["tag"], c["ret"], ret))
                            expect = [] if c["early"] else [(c["pop"], c["out"])]
                            if completions != expect:
                                msgs.append("%s: the call that took pop#%d must resolve exactly it with %s, got %s"
                                            % (c["tag"], c["pop"], c["out"], completions))
                            if c["ret"].startswith("push:"):
                                pushes_done += 1
                    else:
                        if status in ("midcall", "blocked"):
                            if status == "midcall":
                                state["concurrent"] = True
                            c["type"] = "midcall" if status == "midcall" else c["type"]
                            parked.append(c)
                        else:
                            want_r = "r=0" if c.get("holding") else "r=1"
                            if c["type"] == "midcall" or r != want_r:
                                state["concurrent"] = True
                            expect = apply(c["w"], c["label"], status, completions)
                            if completions != expect:
                                msgs.append("spurious: `%s` (delivered) resolved %s" % (" ".join(c["w"]), completions))
            else:
                label, status = head[0], (head[1] if len(head) > 1 else "")
                r = head[2] if len(head) > 2 else ""
                if w[0] in ("pop", "popthrow"):
                    pop_state[int(label[4:])] = "incall"
                if status in ("holding", "blocked", "midcall"):
                    if status == "midcall":
                        state["concurrent"] = True
                    parked.append({"type": "midcall" if status == "midcall" else "deferred", "w": w, "label": label,
                                   "holding": status == "holding"})
                else:
                    if status != "n/a" and r not in ("r=1", "r=0"):
                        state["concurrent"] = True      # more lock regions than the operation has
                    expect = apply(w, label, status, completions)
            if completions != expect and head[0] != "deliver":
                msgs.append("spurious: `%s` resolved %s" % (op, completions))
            for i, o in completions:
                resolved(i, o)
            if not parked and not any(s == "incall" for s in pop_state.values()):
                quiescent("after `%s`" % op)
        if not state["finished"]:
            msgs.append("hang: the trace ends before the queue was destroyed (%d lines for %d ops)" % (len(out), len(ops)))
        elif any(s in ("pending", "incall") for s in pop_state.values()):
            msgs.append("hang: a pop future is still pending after the queue was destroyed")
        if not void:
            seq = [int(o[2:]) for o in got.values() if o.startswith("v:")]
            if len(set(seq)) != len(seq):
                msgs.append("duplicate: an item was delivered twice: %s" % sorted(seq))
        if len(got) > len(pushed) + sum(1 for c in parked if c.get("w", [""])[0] == "push"):
            msgs.append("duplicate: %d values handed out for %d pushes" % (len(got), len(pushed)))
        seen, res = set(), []
        for m in msgs:
            if m not in seen:
                seen.add(m)
                res.append(m)
        return res


FACT_RE = re.compile(r"(\w+)=(-?\d+)")


class ThreadSuite(Suite):
    """real producer / consumer threads on queue<int> and queue<void>; consumers block in pop().wait().
    The harness prints schedule-independent facts only; no model comparison."""
    name = "q-threads"
    harness = HARNESS
    driver = None
    compare = False
    corpus_prefix = "c09_mt"
    chunk = 1               # one process per case: a hang (killed by the harness's alarm) costs one case only
    timeout = 120
    nontrivial_rule = "at least 2 producers or 2 consumers"

    def gen_cases(self, rng, tier):
        n = 120 if tier == "quick" else 5000
        cases = []
        for i in range(n):
            kind = "mtq" if rng.random() < 0.7 else "mtv"
            P, C = rng.randint(1, 3), rng.randint(1, 3)
            if i % 6 == 0:
                P, C = 3, 3
            N = rng.choice([100, 300, 1000, 3000]) if tier == "quick" else rng.choice([300, 1000, 5000, 20000, 50000])
            mode = rng.randint(0, 1)
            cases.append({"id": 0, "lines": ["case 0 %s %d %d %d %d %d" % (kind, P, C, N, mode, rng.randint(1, 10 ** 6)),
                                             "run", "end"]})
        return cases

    def nontrivial(self, case, out):
        h = case["lines"][0].split()
        return int(h[3]) > 1 or int(h[4]) > 1

    def distinct_key(self, case, out):
        return " ".join(case["lines"][0].split()[2:])

    def stats(self, cases, outs):
        cfg = {}
        items = 0
        for c in cases:
            h = c["lines"][0].split()
            k = "%s P=%s C=%s mode=%s" % (h[2], h[3], h[4], h[6])
            cfg[k] = cfg.get(k, 0) + 1
            items += int(h[3]) * int(h[5])
        return {"configurations": cfg, "items_pushed": items}

    def oracle(self, case, out):
        msgs = []
        h = case["lines"][0].split()
        if h[2] not in ("mtq", "mtv"):
            return msgs
        P, C, N, mode = int(h[3]), int(h[4]), int(h[5]), int(h[6])
        if not out or not out[0].startswith("run "):
            return ["hang: no result line"]
        f = {k: int(v) for k, v in FACT_RE.findall(out[0])}
        total = P * N
        if f.get("total") != total:
            msgs.append("harness: total %s != %d" % (f.get("total"), total))
        if f.get("dup", 0):
            msgs.append("duplicate: %d items were received more than once" % f["dup"])
        if f.get("unknown", 0):
            msgs.append("spurious: %d received values were never pushed" % f["unknown"])
        if f.get("missing", 0):
            msgs.append("lost: %d pushed items were never received" % f["missing"])
        if f.get("received") != total:
            msgs.append("lost: %s pops returned a value for %d pushes" % (f.get("received"), total))
        if f.get("order_bad", 0):
            msgs.append("order: %d (consumer, producer) pairs saw the producer's items out of order" % f["order_bad"])
        if f.get("bad", 0):
            msgs.append("spurious: %d pops failed with an unexpected exception" % f["bad"])
        want_exc = C if mode == 1 else 0
        if f.get("exc") != want_exc or f.get("unblocked") != want_exc:
            msgs.append("unblock_pop: %s successful unblock_pop calls, %s pops failed with its exception, expected %d"
                        % (f.get("unblocked"), f.get("exc"), want_exc))
        if f.get("left", 0) or f.get("empty") != 1:
            msgs.append("size: %s items left / empty=%s after everything was consumed" % (f.get("left"), f.get("empty")))
        if f.get("mon_bad", 0):
            msgs.append("size: size() exceeded the number of pushes")
        return msgs


class C09(Spec):
    pid = "C09"
    lean_modules = ["CoclsModel.Props.C09"]
    design_ref = "DESIGN.md §5 C09"
    trusted_base = ["hand-written models lean/CoclsModel/Queue.lean (queue<T>, queue<void>) tied to queue.h by differential "
                    "correspondence (harness/h_queue.cpp vs lean/Drivers/C09.lean) on enumerated and generated histories",
                    "std::queue / std::mutex and the promise/future layer (C01/C02) taken as specified"]
    technique = "Lean 4 invariant proof (induction over all operation lists) + differential correspondence with the real header + thread stress"
    level_text = ("Lean 4 theorems over an executable model of queue<T> (one step per lock region, out-of-lock promise resolutions as "
                  "separate steps): FIFO refinement delivered++queued = pushed, exactly-once, one resolution per pop, waiters served in "
                  "arrival order, single-consumer and per-producer order, pop completes only by item/unblock_pop/destruction/a push whose "
                  "item construction threw, "
                  "unblock_pop hits exactly the oldest waiter; queue<void> proved to be the image of queue<T> under forgetting the "
                  "items (count conserved, clamp never fires); for every operation list = every interleaving of any number of producers "
                  "and consumers. The models are tied to queue.h by running both on every short history and on generated histories and "
                  "diffing every line; property oracles run on the implementation trace; a scheduled suite instantiates the queue with a parking "
                  "Lock (out-of-lock resolutions delayed past other lock regions, operations issued while another one holds the lock, "
                  "any second lock region of one operation, lock regions per operation compared with the model, a push whose item "
                  "constructor throws, with and without pops waiting); items own a heap resource and track their lifetime; a further suite runs real producer/consumer threads")
    level_note = ("trusted: Lean kernel (axioms propext/Classical.choice/Quot.sound at most), the hand-written models, the differential "
                  "harness (sampling + exhaustive short histories), std::queue/std::mutex and the promise/future layer (C01/C02). Thread "
                  "interleavings are covered by the theorems (any interleaving of lock regions and resolutions is an op list); on the real "
                  "code they are exercised sequentially (futures and re-entrant coroutine consumers) and by a thread stress suite")
    assumptions = ["the queue is not destroyed while another thread is inside one of its methods",
                   "configurations: Queue/CoroQueue = std_queue or single_item_queue (model: capacity none / some n; an operation that "
                   "would over-fill a bounded store is refused without effect - it throws std::runtime_error on the real header); "
                   "Lock = std::mutex, primitives::no_lock (sequential suite only: single-threaded use is its contract) or the harness's "
                   "parking lock; single_item_queue<void> does not exist; single_item_queue::clear() does not compile when instantiated "
                   "(`!_val.reset()` on void) and nothing in queue.h calls it",
                   "a consumer's receive order is the order of its pop() calls (a consumer that keeps several pops outstanding may see "
                   "their futures resolved in another order when different producers resolve them)",
                   "std::mutex gives mutual exclusion (each lock region is atomic)"]

    def suites(self):
        return [SeqSuite(), SchedSuite(), ThreadSuite()]


SPEC = C09()
