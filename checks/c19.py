"""C19 — coroutine storage policies give every frame exclusive, correctly freed memory."""
import re
from vlib import core
from vlib.runner import Spec, Suite

HARNESS = ("h_storage", ["h_storage.cpp", "h_storage_nd.cpp"], {"extra_flags": ["-fno-sanitize=alignment"]})

_sizes_cache = {}


def frame_sizes():
    """frame sizes of the eight coroutine kinds of the harness — four sizes of locals, as free function (kinds 0-3) and as
    non-static member function (4-7) — a property of the compiler, asked from the binary"""
    # the runner has just built the binary; take it from the build directory instead of building again (a second
    # build_harness call would delete the runner's copy if another agent touched a header in between)
    import os
    cands = [os.path.join(core.BUILD, f) for f in os.listdir(core.BUILD)
             if f.startswith(HARNESS[0] + "-") and ".tmp" not in f] if os.path.isdir(core.BUILD) else []
    exe = max(cands, key=os.path.getmtime) if cands else core.build_harness(HARNESS[0], HARNESS[1], **HARNESS[2])
    if exe in _sizes_cache:
        return _sizes_cache[exe]
    rc, out, err = core.run_proc(exe, "", timeout=60, args=["--sizes"])
    rows = [l.split() for l in out.splitlines() if l.startswith("sizes ")]
    if rc != 0:
        # a broken header can crash the cross-check part; the plain policy alone is enough to learn the sizes, and if
        # even that crashes the last known sizes are used: the crash then shows up in the suites as a violation
        rc, out, err = core.run_proc(exe, "", timeout=60, args=["--sizes", "default"])
        rows = [l.split() for l in out.splitlines() if l.startswith("sizes ")][:1]
        if not rows:
            rows = [["sizes", "fallback", "88", "152", "376", "1576", "96", "160", "384", "1584"]]
    elif not rows:
        raise core.InfraError("h_storage --sizes printed nothing: %s" % err[-800:])
    fs = [int(x) for x in rows[0][2:10]]
    for r in rows:
        if [int(x) for x in r[2:10]] != fs:
            raise core.InfraError("coroutine frame sizes depend on the storage type: %r" % rows)
    _sizes_cache[exe] = fs
    return fs


def split_line(line):
    head, _, tail = line.partition(" ; ")
    return head.split(), tail.split()


class HeapView:
    """live heap blocks / frames reconstructed from the implementation's trace; collects property violations"""

    def __init__(self, ext=None):
        self.blocks = {}      # id -> size
        self.frames = {}      # frame id -> (block name, offset, size)
        self.ext = dict(ext or {})
        self.msgs = []

    def events(self, evs, dying=None):
        news = 0
        for e in evs:
            p = e.split(":")
            if p[0] == "new":
                self.blocks[p[1]] = int(p[2])
                news += 1
            elif p[0] == "del":
                if p[1] == "?":
                    self.msgs.append("foreign-free: operator delete of a pointer the storage never got from operator new")
                elif p[1] not in self.blocks:
                    self.msgs.append("double-free: heap block %s released twice" % p[1])
                else:
                    del self.blocks[p[1]]
                    for fid, (b, off, sz) in self.frames.items():
                        if b == p[1] and fid != dying:
                            self.msgs.append("exclusive: block %s released while frame %s lives in it" % (b, fid))
        return news

    def place(self, fid, at, sz, overlap_flag):
        if overlap_flag:
            self.msgs.append("exclusive: frame %s overlaps another live frame (address check)" % fid)
        if at == "wild":
            self.msgs.append("exclusive: frame %s placed in memory the storage does not own" % fid)
            return
        if at == "null":
            if sz > 0:
                self.msgs.append("size: frame %s of %d bytes got a null pointer" % (fid, sz))
            return
        b, off = at.split("+")
        off = int(off)
        if b.startswith("b"):
            if b not in self.blocks:
                self.msgs.append("exclusive: frame %s placed in released block %s" % (fid, b))
                return
            cap = self.blocks[b]
        else:
            cap = self.ext.get(b, 0)
        if off + sz > cap:
            self.msgs.append("size: frame %s needs %d bytes at %s+%d but the block has %d" % (fid, sz, b, off, cap))
        for g, (b2, off2, sz2) in self.frames.items():
            if b2 == b and sz > 0 and sz2 > 0 and off < off2 + sz2 and off2 < off + sz:
                self.msgs.append("exclusive: frames %s and %s overlap in block %s" % (g, fid, b))
        self.frames[fid] = (b, off, sz)


def field(head, key):
    for w in head:
        if w.startswith(key + "="):
            return w[len(key) + 1:]
    return None


POLICIES = ["default", "reusable", "mtsafe", "stack", "placement", "buffer", "static", "static"]
RAW_SIZES = [0, 1, 7, 8, 16, 24, 40, 64, 100, 128, 200, 333, 512, 1000]


class SeqSuite(Suite):
    name = "storage-seq"
    harness = HARNESS
    driver = "drv_c19"
    corpus_prefix = "c19_seq"
    chunk = 60
    nontrivial_rule = "at least three frames, one of them served without a heap call or by a heap fallback"

    def gen_case(self, rng, fs):
        pol = rng.choice(POLICIES + ["mtsafe", "reusable", "stack", "reusable-moves", "reusable-moves"])
        plain = pol == "reusable-moves"      # a plain reusable_storage: the one that can be moved
        if plain:
            pol = "reusable"
        ex = 0
        p = None
        if pol in ("default", "reusable", "mtsafe") and not plain and rng.random() < 0.4:
            ex = rng.choice([16, 40])
        if pol == "stack":
            p = rng.choice([0, 0, 41, 100, 153, 400, 2000])
        elif pol == "placement":
            p = rng.choice([512, 2048, 4096])
        elif pol == "buffer":
            p = rng.choice([1, 4, 8, 3, 12, 24, 12, 24])      # sizeof(Item): powers of two and others
        asserts = 1
        if pol == "static":
            p = rng.choice([64, 256, 256, 2048])
            asserts = rng.choice([0, 1])
        hdr = "case 0 seq %s ex=%d fs=%s" % (pol, ex, ",".join(map(str, fs)))
        if pol == "static":
            hdr += " a=%d" % asserts
        if p is not None:
            hdr += " p=%d" % p
        lines = [hdr]
        nops = rng.randint(4, 12) if rng.random() < 0.3 else rng.randint(10, 40)
        live = []           # frame ids
        nframes = 0
        # generator-side bookkeeping needed to respect the documented contract of the single-block policies
        state = p if pol == "stack" else 0
        objs = []           # stack: (alloc_size, frame id living in the buffer or None)
        inplace = {}        # frame id -> object index
        maxlive = {"default": 6, "mtsafe": 5, "stack": 6, "static": 4 if not asserts else 1}.get(pol, 1)
        in_buffer = None    # static: the frame that occupies the object's buffer
        moves = pol == "reusable" and ex == 0
        palette = rng.sample(RAW_SIZES, rng.randint(2, 5))
        if pol == "stack":
            lines.append("newobj")
            objs.append([state, None])

        def pick_size():
            if rng.random() < 0.75:
                return rng.choice(palette)
            return rng.randint(0, 600)

        for _ in range(nops):
            r = rng.random()
            if pol == "stack" and r < 0.12:
                lines.append("newobj")
                objs.append([state, None])
                continue
            if pol == "buffer" and r < 0.08 and not live:
                lines.append("bufset %d" % rng.choice([0, 1, 3, 10, 50, 200]))
                continue
            if moves and r < 0.2:
                mv = rng.choice(["mvctor", "mvassign", "mvself", "swapobj", "swapobj"])
                if mv == "swapobj" and live:
                    mv = rng.choice(["mvctor", "mvassign"])
                lines.append(mv)
                continue
            if ex and r > 0.9 and len(live) < maxlive:
                # the factory of the extra object throws: raw request or coroutine creation; no frame comes into existence
                if rng.random() < 0.5:
                    lines.append("athrow 0 %d" % pick_size())
                else:
                    lines.append("cthrow 0 %d" % rng.randint(0, 7))
                continue
            want_alloc = len(live) < maxlive and (not live or rng.random() < 0.55)
            if want_alloc:
                k = 0
                coro = rng.random() < 0.45
                kind = rng.randint(0, 7)
                drop = coro and rng.random() < 0.25
                sz = fs[kind] if coro else pick_size()
                if pol == "buffer" and not coro and rng.random() < 0.5:
                    sz = max(0, p * rng.randint(0, 30) + rng.choice([-1, 0, 0, 1, p // 2]))   # around multiples of the item size
                if pol == "placement" and sz + ex > p:
                    continue
                if pol == "static":
                    if rng.random() < 0.35:     # aim at the boundary of the buffer
                        sz = max(0, p - 8 + rng.choice([-9, -1, 0, 0, 1, 8]))
                        coro = drop = False
                    fits = sz + 8 <= p
                    if fits and in_buffer is not None:
                        continue
                    if not fits and asserts:
                        # rejected by the library's assert: no frame
                        lines.append(("coro 0 %d" % kind) if coro else ("alloc 0 %d" % sz))
                        continue
                    if fits and not drop:
                        in_buffer = nframes
                if pol == "stack":
                    k = rng.randrange(len(objs)) if rng.random() < 0.5 else len(objs) - 1
                    fits = sz + ex + 1 <= objs[k][0]
                    if fits and objs[k][1] is not None:
                        continue            # the buffer of this object is occupied
                    if fits and not drop:
                        objs[k][1] = nframes
                        inplace[nframes] = k
                    if not fits:
                        state = sz + ex + 1
                if not drop and rng.random() < 0.07 and pol != "static":
                    # this request's operator new (if the policy calls it) throws bad_alloc; the generator cannot know
                    # whether a frame results, so it is used as the last request of the case
                    lines.append(("cfail %d %d" % (k, kind)) if coro else ("afail %d %d" % (k, sz)))
                    # tail that is valid whether or not a frame resulted: every candidate id is released after each request
                    lines.append("free %d" % nframes)
                    if pol == "stack" and objs[k][1] is not None:
                        break       # the object's buffer is occupied by an older frame: no further requests on it
                    for rnd in range(1, rng.randint(2, 4)):
                        tsz = rng.choice([0, 1, 8, 8, 16, 40, sz // 2, sz, sz + 8])
                        if pol == "placement":
                            tsz = min(tsz, max(0, p - ex))
                        lines.append("%s %d %d" % ("afail" if rng.random() < 0.2 else "alloc", k, tsz))
                        for c in range(nframes, nframes + rnd + 1):
                            lines.append("free %d" % c)
                    break
                if coro and drop and rng.random() < 0.5:
                    # started with a promise that cannot be claimed (default constructed / moved-from / already resolved)
                    lines.append("cstart %d %d %d" % (k, kind, rng.randint(0, 2)))
                elif coro:
                    lines.append("%s %d %d" % ("cdrop" if drop else "coro", k, kind))
                else:
                    lines.append("alloc %d %d" % (k, sz))
                if not drop:
                    live.append(nframes)
                nframes += 1
            elif live:
                f = live.pop(rng.randrange(len(live)))
                if f == in_buffer:
                    in_buffer = None
                if f in inplace:
                    objs[inplace.pop(f)][1] = None
                lines.append("%s %d" % (rng.choice(["free", "fin", "kill"]), f))
            if rng.random() < 0.03:
                lines.append("free %d" % rng.randint(0, nframes + 1) if not live else "free %d" % (nframes + 3))
        lines.append("end")
        return {"id": 0, "lines": lines}

    def gen_cases(self, rng, tier):
        fs = frame_sizes()
        n = 1500 if tier == "quick" else 250000
        return [self.gen_case(rng, fs) for _ in range(n)]

    def nontrivial(self, case, out):
        allocs = [l for l in out if re.match(r"(alloc|coro|cdrop|cstart)#", l)]
        if len(allocs) < 3:
            return False
        return any(" ; " not in l for l in allocs) or case["lines"][0].split()[3] in ("default", "placement")

    def stats(self, cases, outs):
        pol, ops = {}, {}
        reuse = fallback = growth = extra = coro = raw = asserts = moves_live = 0
        for c in cases:
            h = c["lines"][0].split()
            key = h[3] + ("+extra" if "ex=0" not in h else "")
            pol[key] = pol.get(key, 0) + 1
            for l in c["lines"][1:-1]:
                k = l.split()[0]
                ops[k] = ops.get(k, 0) + 1
            nlive = 0
            for l in outs.get(str(c["id"]), []):
                head, evs = split_line(l)
                if head and head[0] == "assert":
                    asserts += 1
                if head and re.match(r"(free|fin|kill)#", head[0]):
                    nlive -= 1
                if head and head[0] in ("mvctor", "mvassign") and nlive > 0:
                    moves_live += 1
                if not head or not re.match(r"(alloc|coro|cdrop|cstart)#", head[0]):
                    continue
                if not head[0].startswith(("cdrop", "cstart")):
                    nlive += 1
                if head[0].startswith("alloc"):
                    raw += 1
                else:
                    coro += 1
                if field(head, "ex"):
                    extra += 1
                news = sum(1 for e in evs if e.startswith("new"))
                dels = sum(1 for e in evs if e.startswith("del"))
                if news == 0:
                    reuse += 1
                elif dels and not head[0].startswith(("cdrop", "cstart")):
                    growth += 1
                elif h[3] in ("mtsafe", "stack", "static"):
                    fallback += 1
        return {"policies": pol, "ops": ops, "raw_frames": raw, "coroutine_frames": coro, "frames_without_heap_call": reuse,
                "growths": growth, "first_or_fallback_allocations": fallback, "extra_objects": extra,
                "static_storage_assert_rejections": asserts, "moves_with_a_live_frame": moves_live,
                "requests_with_failing_operator_new": sum(1 for c in cases for l in outs.get(str(c["id"]), [])
                                                          if l.startswith(("afail", "cfail")))}

    def oracle(self, case, out):
        """the statement of C19 evaluated on the implementation's trace"""
        hdr = case["lines"][0].split()
        if len(hdr) < 4 or hdr[2] != "seq":
            return []
        pol = hdr[3]
        kv = dict(w.split("=", 1) for w in hdr[4:] if "=" in w)
        ex = int(kv.get("ex", "0"))
        p = int(kv.get("p", "0"))
        space = 64 if p <= 64 else 256 if p <= 256 else 2048       # static_storage<space>
        asserts = kv.get("a", "1") != "0"
        hv = HeapView({"x0": p} if pol == "placement" else {"x0": space} if pol == "static" else {})
        msgs = hv.msgs
        maxneed_other = -1      # reusable: the other storage object (moves)
        ops = case["lines"][1:]
        maxneed = -1            # reusable / buffer: largest request served so far
        shared = None           # mtsafe: the frame that occupies the shared block
        max_shared = -1         # mtsafe: largest request served from the shared block so far
        last_fallback = None    # stack: size of the most recent heap-allocated frame
        obj_warm = {}           # stack: object -> frame size it is warmed up for
        fsz = {}
        for op, line in zip(ops, out):
            w = op.split()
            head, evs = split_line(line)
            if not head:
                continue
            m = re.match(r"(alloc|coro|cdrop|cstart|free|fin|kill|obj)#(\d+)$", head[0])
            kind = m.group(1) if m else head[0]
            if kind == "cstart":
                if field(head, "started") != "0":
                    msgs.append("routing: start(promise) reported success for a promise that cannot be claimed")
                kind = "cdrop"
            if kind in ("alloc", "coro", "cdrop"):
                fid = m.group(2)
                sz = int(field(head, "sz"))
                need = sz + ex
                evs_alloc = evs
                evs_free = []
                if kind == "cdrop":
                    # events of creation, then of destruction: the destruction can only delete
                    cut = len(evs)
                    while cut > 0 and evs[cut - 1].startswith("del"):
                        cut -= 1
                    # a reusable/growing alloc is `del new`; a trailing del after the last new belongs to the release
                    evs_alloc, evs_free = evs[:cut], evs[cut:]
                # the documented contract of the single-block policies (none of them has a busy flag): one live frame
                # at a time; an input that breaks it (only shrinking produces such inputs) is not judged any further
                at = field(head, "at") or ""
                if pol in ("reusable", "placement", "buffer") and hv.frames:
                    break
                if pol == "static" and at.startswith("x") and any(b == "x0" for b, _, _ in hv.frames.values()):
                    break
                if pol == "static" and asserts and sz + 8 > space:
                    msgs.append("size: static_storage<%d> accepted a %d byte frame although its assert (frame + trailer <= space) "
                                "is compiled in" % (space, sz))
                if pol == "stack" and at.startswith("x") and any(b == at.split("+")[0] for b, _, _ in hv.frames.values()):
                    break
                news = hv.events(evs_alloc)
                if "noalloc" in head:
                    msgs.append("routing: the coroutine frame was not obtained from the storage")
                if field(head, "in") == "0":
                    msgs.append("routing: the coroutine's locals are outside the memory the storage returned")
                hv.place(fid, field(head, "at"), sz, "OVERLAP" in head)
                if field(head, "bsz") is not None and int(field(head, "bsz")) < need:
                    msgs.append("size: the user's buffer holds %s bytes after serving a frame of %d (sizeof(Item)=%d)" % (field(head, "bsz"), need, p))
                fsz[fid] = sz
                # no further heap memory for equally sized (or smaller) frames after warm-up
                if pol in ("reusable", "buffer"):
                    if need <= maxneed and evs_alloc:
                        msgs.append("warm: %s storage served %d bytes before but made a heap call for %d" % (pol, maxneed, need))
                    maxneed = max(maxneed, need)
                elif pol == "mtsafe":
                    if shared is None:
                        if need <= max_shared and evs_alloc:
                            msgs.append("warm: free shared block served %d bytes before but a heap call was made for %d" % (max_shared, need))
                        max_shared = max(max_shared, need)
                        if kind != "cdrop":
                            shared = fid
                elif pol == "stack":
                    k = int(w[1])
                    if k in obj_warm and need <= obj_warm[k] and evs_alloc:
                        msgs.append("warm: stack object created after a %d byte frame made a heap call for %d" % (obj_warm[k], need))
                    if news:
                        last_fallback = need
                if ex:
                    exs = [x for x in head if x.startswith("ex=")]
                    if not exs or exs[0] != "ex=+1-0@%d:ok" % sz:
                        msgs.append("extra: after creation expected one live extra object right behind the frame, got %s" % (exs[:1] or "nothing"))
                if kind == "cdrop":
                    if field(head, "freed") != "ok":
                        msgs.append("routing: an unstarted coroutine's frame was not returned to the storage (freed=%s)" % field(head, "freed"))
                    hv.frames.pop(fid, None)
                    hv.events(evs_free)
                    if ex:
                        exs = [x for x in head if x.startswith("ex=")]
                        if len(exs) < 2 or exs[1] != "ex=+0-1@%d:ok" % sz:
                            msgs.append("extra: the extra object was not destroyed exactly once with the frame")
            elif kind in ("free", "fin", "kill"):
                fid = m.group(2)
                if field(head, "cn") == "bad":
                    msgs.append("canary: memory of frame %s was overwritten during its lifetime" % fid)
                if field(head, "body") == "bad":
                    msgs.append("canary: the coroutine found its own locals overwritten (frame %s)" % fid)
                if kind != "free" and field(head, "freed") != "ok":
                    msgs.append("routing: frame %s was not returned to the storage with its pointer and size (freed=%s)" % (fid, field(head, "freed")))
                hv.frames.pop(fid, None)
                if shared == fid:
                    shared = None
                hv.events(evs, dying=fid)
                if ex:
                    exs = [x for x in head if x.startswith("ex=")]
                    if not exs or exs[0] != "ex=+0-1@%d:ok" % fsz.get(fid, -1):
                        msgs.append("extra: the extra object was not destroyed exactly once with the frame (%s)" % (exs[:1] or "nothing"))
            elif kind in ("afail", "cfail"):
                # operator new threw bad_alloc inside the request: no frame; what the storage released on the way must
                # have been its own, unused block (hv.events), and nothing it keeps may be stale (checked by what follows:
                # a later frame in a released block, a second delete, a leak)
                if field(head, "thrown") != "1":
                    msgs.append("routing: bad_alloc thrown inside the storage did not reach the caller")
                hv.events(evs)
                if any(e.startswith("del") for e in evs):
                    maxneed = -1
                    if shared is None:
                        max_shared = -1
            elif kind in ("athrow", "cthrow"):
                # the extra object's factory threw: nothing may remain — no object (ctor/dtor balance), and the memory
                # handed out by the inner policy is back (a leaked block shows at `end`, a stuck _busy at the next frame)
                if field(head, "thrown") != "1":
                    msgs.append("extra: the exception of the extra object's factory did not reach the caller")
                if field(head, "ex") != "+0-0":
                    msgs.append("extra: a throwing factory left constructor/destructor calls unbalanced (%s)" % field(head, "ex"))
                news_before = set(hv.blocks)
                hv.events(evs)
                left = [b for b in hv.blocks if b not in news_before]
                if pol in ("default", "mtsafe") and left and not (pol == "mtsafe" and shared is None and len(left) == 1):
                    msgs.append("leak: the block obtained for a frame whose extra object could not be constructed was kept (%s)" % ",".join(left))
                if pol == "mtsafe" and shared is None:
                    # the request went to the free shared block, which thereby warmed up
                    max_shared = max(max_shared, int(field(head, "sz")) + ex)
                if pol == "reusable":
                    maxneed = max(maxneed, int(field(head, "sz")) + ex)
            elif kind == "assert":
                # the library rejected the request (static_storage's assert): allowed exactly when frame + trailer do not fit
                sz = int(field(head, "sz"))
                if pol != "static" or sz + 8 <= space:
                    msgs.append("size: a %d byte frame was rejected by an assertion although it fits (%s)" % (sz, pol))
                hv.events(evs)
            elif kind in ("mvctor", "mvassign", "mvself", "swapobj"):
                # moves of the storage object: a block must not be released under a live frame (hv.events), the warm-up
                # travels with the block
                hv.events(evs)
                if kind == "swapobj":
                    maxneed, maxneed_other = maxneed_other, maxneed
                elif kind != "mvself":
                    maxneed_other = -1
            elif kind == "obj":
                k = int(m.group(2))
                hv.ext["x%d" % k] = int(field(head, "size"))
                if last_fallback is not None:
                    obj_warm[k] = last_fallback
                hv.events(evs)
            elif kind == "end":
                hv.frames.clear()
                hv.events(evs)
                if field(head, "live") != "0":
                    msgs.append("leak: %s heap block(s) never released" % field(head, "live"))
                if field(head, "exlive") not in (None, "0"):
                    msgs.append("extra: %s extra object(s) never destroyed" % field(head, "exlive"))
                if field(head, "exbad") not in (None, "0"):
                    msgs.append("extra: an extra object was constructed over a live one or destroyed twice")
            else:
                hv.events(evs)
        return msgs


SEL_SHAPES = ["f:S", "f:SS", "f:D", "f:DS", "f:DSS", "f:SD", "f:OS", "f:OD", "f:SO", "m:S", "m:SS", "m:D", "m:DS", "m:SD",
              "d:", "d:O", "d:S", "d:SS", "d:SO", "l:S", "l:DS"]
_selsizes_cache = {}


def sel_sizes():
    """frame sizes of the coroutine signatures of the `sel` cases, asked from the binary"""
    import os
    cands = [os.path.join(core.BUILD, f) for f in os.listdir(core.BUILD)
             if f.startswith(HARNESS[0] + "-") and ".tmp" not in f] if os.path.isdir(core.BUILD) else []
    exe = max(cands, key=os.path.getmtime) if cands else core.build_harness(HARNESS[0], HARNESS[1], **HARNESS[2])
    if exe in _selsizes_cache:
        return _selsizes_cache[exe]
    rc, out, err = core.run_proc(exe, "", timeout=60, args=["--selsizes"])
    rows = [l.split() for l in out.splitlines() if l.startswith("selsizes ")]
    tab = {}
    if rows:
        for w in rows[0][1:]:
            k, _, v = w.partition("=")
            tab[k] = int(v)
    for sh in SEL_SHAPES:           # a broken header can crash the query: last known sizes, the crash shows up in the suite
        npar = len(sh) - 2 + (1 if sh[0] != "f" else 0)
        tab.setdefault(sh + "/0", 96 + 8 * npar)
        tab.setdefault(sh + "/1", 472 + 8 * npar)
    _selsizes_cache[exe] = tab
    return tab


def sel_args(shape, ids):
    """the arguments `operator new` sees: ('S'|'D', object) or ('O', None); `*this` first for members and lambdas"""
    ids = list(ids)
    args = []
    if shape[0] == "d":
        args.append(("D", 2 + ids.pop(0) % 2))
    elif shape[0] in "ml":
        args.append(("O", None))
    for c in shape[2:]:
        if c == "O":
            args.append(("O", None))
        else:
            i = ids.pop(0)
            args.append((c, i % 2 if c == "S" else 2 + i % 2))
    args.append(("O", None))
    return args


def api_select(shape, ids):
    """the storage objects the API may select for this call (with_allocator.h: the storage is the first argument of the
    coroutine — after the object for member functions and lambdas; an object that merely derives from the storage type
    does not displace a storage that is passed explicitly right behind it).  Two explicit storages in the first two
    positions: the statement does not say which one, either is accepted."""
    a = sel_args(shape, ids)
    a0, a1 = a[0], a[1] if len(a) > 1 else ("O", None)
    if a0[0] == "S":
        return {a0[1], a1[1]} if a1[0] == "S" else {a0[1]}
    if a0[0] == "D":
        return {a1[1]} if a1[0] == "S" else {a0[1]}
    return {a1[1]} if a1[0] in "SD" else set()


def sel_current(shape, ids):
    """what the validated tree does (generator only: which object will be occupied)"""
    a = sel_args(shape, ids)
    if a[0][0] == "S" and a[1][0] == "S":
        return a[1][1]
    return min(api_select(shape, ids))


class SelSuite(Suite):
    name = "storage-select"
    harness = HARNESS
    driver = "drv_c19"
    corpus_prefix = "c19_sel"
    chunk = 60
    nontrivial_rule = "at least three coroutines, two of them alive at once in different storage objects"

    def gen_case(self, rng, sizes):
        lines = ["case 0 sel"]
        live = {}       # frame -> object
        nframes = 0
        weights = rng.choice([None, ["d:", "d:S", "d:SS", "d:SO", "d:O", "f:DS", "f:DSS", "l:DS", "m:DS", "f:D"]])
        for _ in range(rng.randint(4, 24)):
            if live and rng.random() < 0.4:
                f = rng.choice(sorted(live))
                del live[f]
                lines.append("%s %d" % (rng.choice(["fin", "kill"]), f))
                continue
            sh = rng.choice(weights if weights and rng.random() < 0.7 else SEL_SHAPES)
            ar = (1 if sh[0] == "d" else 0) + sum(1 for c in sh[2:] if c != "O")
            roles = (["D"] if sh[0] == "d" else []) + [c for c in sh[2:] if c != "O"]
            busy = set(live.values())
            ids = []
            for r in roles:
                pool = [0, 1] if r == "S" else [2, 3]
                # prefer an occupied object for the arguments that must NOT be selected, a free one for the selected one
                ids.append(rng.choice(pool))
            t = sel_current(sh, ids)
            if t in busy:
                # the selected storage is occupied: try the other object of that role, else release its frame first
                alt = [list(ids)]
                for i in range(len(ids)):
                    x = list(ids)
                    x[i] ^= 1
                    alt.append(x)
                alt = [x for x in alt if sel_current(sh, x) not in busy and not (api_select(sh, x) & busy)]
                if alt and rng.random() < 0.8:
                    ids = rng.choice(alt)
                    t = sel_current(sh, ids)
                else:
                    f = [g for g, o in live.items() if o == t][0]
                    del live[f]
                    lines.append("%s %d" % (rng.choice(["fin", "kill"]), f))
            if api_select(sh, ids) & set(live.values()):
                continue        # f:SS with one of the two storages occupied: either may be used
            n = rng.randint(0, 1)
            lines.append("coro %s %s %d %d %d" % (sh, ",".join(map(str, ids)) or "-", n, sizes["%s/%d" % (sh, n)], t))
            live[nframes] = t
            nframes += 1
        lines.append("end")
        return {"id": 0, "lines": lines}

    def gen_cases(self, rng, tier):
        sizes = sel_sizes()
        n = 600 if tier == "quick" else 40000
        return [self.gen_case(rng, sizes) for _ in range(n)]

    def nontrivial(self, case, out):
        coros = [l for l in out if l.startswith("coro#")]
        live = {}
        two = False
        for l in out:
            head, _ = split_line(l)
            m = re.match(r"(coro|fin|kill)#(\d+)$", head[0]) if head else None
            if not m:
                continue
            if m.group(1) == "coro":
                live[m.group(2)] = field(head, "sel")
                two = two or len(set(live.values())) >= 2
            else:
                live.pop(m.group(2), None)
        return len(coros) >= 3 and two

    def stats(self, cases, outs):
        shapes = {}
        coros = reuse = growth = first = bystander_busy = derived_first_explicit = 0
        for c in cases:
            live = {}
            for op, l in zip(c["lines"][1:], outs.get(str(c["id"]), [])):
                head, evs = split_line(l)
                w = op.split()
                m = re.match(r"(coro|fin|kill)#(\d+)$", head[0]) if head else None
                if not m:
                    continue
                if m.group(1) != "coro":
                    live.pop(m.group(2), None)
                    continue
                coros += 1
                shapes[w[1]] = shapes.get(w[1], 0) + 1
                ids = [] if w[2] == "-" else [int(x) for x in w[2].split(",")]
                objs = {o for k, o in sel_args(w[1], ids) if o is not None}
                sel = field(head, "sel")
                if any(str(o) in live.values() for o in objs if str(o) != sel):
                    bystander_busy += 1
                a = sel_args(w[1], ids)
                if a[0][0] == "D" and a[1][0] == "S":
                    derived_first_explicit += 1
                if not evs:
                    reuse += 1
                elif any(e.startswith("del") for e in evs):
                    growth += 1
                else:
                    first += 1
                live[m.group(2)] = sel
        return {"coroutines": coros, "by_signature": shapes, "served_without_heap_call": reuse, "growths": growth,
                "first_allocations": first,
                "created_while_another_argument's_storage_holds_a_live_frame": bystander_busy,
                "derived_object_first_then_explicit_storage": derived_first_explicit}

    def oracle(self, case, out):
        """C19 on the implementation's trace: every frame lives in the storage the API selects for it, exclusively"""
        hdr = case["lines"][0].split()
        if len(hdr) < 3 or hdr[2] != "sel":
            return []
        hv = HeapView()
        msgs = hv.msgs
        occupied = {}       # frame -> storage object the API selected for it
        warm = {}           # object -> largest frame served
        for op, line in zip(case["lines"][1:], out):
            w = op.split()
            head, evs = split_line(line)
            if not head:
                continue
            m = re.match(r"(coro|fin|kill)#(\d+)$", head[0])
            kind = m.group(1) if m else head[0]
            if kind == "coro":
                fid = m.group(2)
                ids = [] if w[2] == "-" else [int(x) for x in w[2].split(",")]
                want = api_select(w[1], ids)
                if want & set(occupied.values()):
                    break       # the caller broke the one-live-frame contract of the selected storage: not judged
                sz = int(field(head, "sz"))
                sel = field(head, "sel")
                if "noalloc" in head:
                    msgs.append("routing: the coroutine frame was not obtained from a storage")
                elif not sel.isdigit() or int(sel) not in want:
                    msgs.append("selection: coroutine %s called with storage objects %s: the frame was served by storage object %s, "
                                "the API selects %s" % (w[1], w[2], sel, "/".join(map(str, sorted(want)))))
                if "BUSY" in head:
                    msgs.append("exclusive: frame %s was placed into storage object %s, in which another frame is alive" % (fid, sel))
                hv.events(evs)
                hv.place(fid, field(head, "at"), sz, "OVERLAP" in head)
                if field(head, "in") == "0":
                    msgs.append("routing: the coroutine's locals are outside the memory the storage returned")
                if sel.isdigit():
                    if sz <= warm.get(sel, -1) and evs:
                        msgs.append("warm: storage object %s served %d bytes before but made a heap call for %d" % (sel, warm[sel], sz))
                    warm[sel] = max(warm.get(sel, -1), sz)
                if "BUSY" in head or "OVERLAP" in head:
                    break
                occupied[fid] = int(sel) if sel.isdigit() else -1
            elif kind in ("fin", "kill"):
                fid = m.group(2)
                if field(head, "cn") == "bad":
                    msgs.append("canary: memory of frame %s was overwritten during its lifetime" % fid)
                if field(head, "body") == "bad":
                    msgs.append("canary: the coroutine found its own locals overwritten (frame %s)" % fid)
                if field(head, "freed") != "ok":
                    msgs.append("routing: frame %s was not returned to the storage with its pointer and size (freed=%s)" % (fid, field(head, "freed")))
                hv.frames.pop(fid, None)
                occupied.pop(fid, None)
                hv.events(evs, dying=fid)
            elif kind == "end":
                hv.frames.clear()
                hv.events(evs)
                if field(head, "live") != "0":
                    msgs.append("leak: %s heap block(s) never released" % field(head, "live"))
            else:
                hv.events(evs)
        return msgs


class SchedSuite(Suite):
    name = "mtsafe-sched"
    harness = HARNESS
    driver = "drv_c19"
    corpus_prefix = "c19_mtsafe"
    chunk = 25
    nontrivial_rule = "a growth (delete, then new) was interleaved with another thread's step, or two frames were live at once"

    def gen_cases(self, rng, tier):
        n = 1000 if tier == "quick" else 140000
        cases = []
        ladder = [8, 16, 24, 40, 56, 64, 120, 128, 200, 300, 500]
        for _ in range(n):
            nt = rng.choice([2, 2, 2, 3, 3, 4])
            nsteps = rng.randint(6, 45)
            if tier != "quick" and rng.random() < 0.15:      # a share of long schedules with more threads
                nt = rng.choice([3, 4, 5, 6])
                nsteps = rng.randint(50, 120)
            lines = ["case 0 sched %d" % nt]
            used = []
            begun = 0
            pending = [0] * nt          # guess: hooked operations the thread still has to perform
            owner = {}                  # frame -> thread that allocates it
            maybe_live = []
            grow_p = rng.choice([0.2, 0.5, 0.8])
            for _ in range(nsteps):
                t = rng.randrange(nt)
                r = rng.random()
                if pending[t] > 0 and r < 0.85:
                    lines.append("%d %s" % (t, "fail" if rng.random() < 0.12 else "go"))
                    pending[t] -= 1
                    continue
                cand = [f for f in maybe_live if pending[owner[f]] == 0 or rng.random() < 0.15]
                if r < 0.5 or not cand:
                    bigger = [x for x in ladder if not used or x > max(used)]
                    if bigger and (not used or rng.random() < grow_p):
                        sz = bigger[0] if rng.random() < 0.7 else rng.choice(bigger)
                    else:
                        sz = rng.choice(used)
                    grows = not used or sz > max(used)
                    used.append(sz)
                    lines.append("%d alloc %d" % (t, sz))
                    if pending[t] == 0:
                        owner[begun] = t
                        maybe_live.append(begun)
                        begun += 1
                        pending[t] = 2 if grows and len(used) > 1 else 1
                    else:
                        pending[t] -= 1
                elif r < 0.93:
                    f = rng.choice(cand)
                    lines.append("%d free %d" % (t, f))
                    if pending[t] == 0:
                        maybe_live.remove(f)
                    else:
                        pending[t] -= 1
                else:
                    lines.append("%d go" % t)
                    pending[t] = max(0, pending[t] - 1)
            lines.append("end")
            cases.append({"id": 0, "lines": lines})
        return cases

    def nontrivial(self, case, out):
        live = 0
        mx = 0
        for l in out:
            if " done f" in l:
                live += 1
                mx = max(mx, live)
            elif " freed f" in l:
                live -= 1
        paused_del = any("paused@new ; del" in l for l in out)
        return mx >= 2 or paused_del

    def stats(self, cases, outs):
        st = {"threads": {}, "steps": 0, "growth_windows": 0, "failed_allocations": 0,
              "steps_of_other_threads_inside_a_growth_window": 0,
              "frames": 0, "max_live_frames": 0, "skips": 0}
        for c in cases:
            nt = c["lines"][0].split()[3]
            st["threads"][nt] = st["threads"].get(nt, 0) + 1
            st["steps"] += len(c["lines"]) - 2
            window = None
            live = 0
            for l in outs.get(str(c["id"]), []):
                h = l.split()
                if "paused@new ; del" in l:
                    st["growth_windows"] += 1
                    window = h[0]
                elif window is not None and h and h[0] != window and h[0].startswith("t") and "skip" not in h:
                    st["steps_of_other_threads_inside_a_growth_window"] += 1
                elif window is not None and h and h[0] == window:
                    window = None
                if " failed f" in l:
                    st["failed_allocations"] += 1
                if " done f" in l:
                    st["frames"] += 1
                    live += 1
                    st["max_live_frames"] = max(st["max_live_frames"], live)
                elif " freed f" in l:
                    live -= 1
                if l.endswith(" skip") or l == "skip":
                    st["skips"] += 1
        return st

    def oracle(self, case, out):
        hdr = case["lines"][0].split()
        if len(hdr) < 3 or hdr[2] != "sched":
            return []
        hv = HeapView()
        msgs = hv.msgs
        sizes = {}
        nalloc = 0
        # frame sizes in the order the allocations were begun
        st_inop = {}
        for op, line in zip(case["lines"][1:], out):
            head, evs = split_line(line)
            w = op.split()
            if len(head) >= 3 and head[1] == "alloc" and head[2] in ("paused@new", "paused@del", "done"):
                sizes[str(nalloc)] = int(w[2]) if len(w) > 2 and w[2].isdigit() else 0
                nalloc += 1
            if "done" in head:
                fid = head[head.index("done") + 1][1:]
                hv.events(evs)
                hv.place(fid, field(head, "at"), sizes.get(fid, 0), "OVERLAP" in head)
            elif "failed" in head:
                hv.events(evs)
            elif "freed" in head:
                fid = head[head.index("freed") + 1][1:]
                if field(head, "cn") == "bad":
                    msgs.append("canary: memory of frame %s was overwritten during its lifetime" % fid)
                hv.frames.pop(fid, None)
                hv.events(evs, dying=fid)
            elif head and head[0] == "end":
                hv.frames.clear()
                hv.events(evs)
                if field(head, "live") != "0":
                    msgs.append("leak: %s heap block(s) never released" % field(head, "live"))
            else:
                hv.events(evs)
        return msgs


class StressSuite(Suite):
    name = "mtsafe-threads"
    harness = HARNESS
    driver = None
    compare = False
    corpus_prefix = None
    chunk = 1
    timeout = 600
    nontrivial_rule = "every case (two or three real threads, real coroutines, one shared storage)"

    def gen_cases(self, rng, tier):
        n, iters = (10, 2000) if tier == "quick" else (160, 60000)
        return [{"id": 0, "lines": ["case 0 stress %d %d %d" % (rng.choice([2, 2, 3]), iters, rng.randint(1, 10 ** 6)), "end"]}
                for _ in range(n)]

    def stats(self, cases, outs):
        frames = 0
        for c in cases:
            for l in outs.get(str(c["id"]), []):
                f = field(l.split(), "frames")
                if f:
                    frames += int(f)
        return {"cases": len(cases), "coroutine_frames": frames}

    def oracle(self, case, out):
        msgs = []
        ends = [l for l in out if l.startswith("end ")]
        if not ends:
            return ["stress: no summary line"]
        h = ends[0].split()
        if field(h, "overlap") != "0":
            msgs.append("exclusive: %s pairs of simultaneously live frames overlapped (real threads)" % field(h, "overlap"))
        if field(h, "canary") != "0":
            msgs.append("canary: %s frames were overwritten during their lifetime (real threads)" % field(h, "canary"))
        if field(h, "unfreed") != "0":
            msgs.append("routing: %s frames were not returned to the storage with their pointer and size" % field(h, "unfreed"))
        if field(h, "outside") != "0":
            msgs.append("routing: %s coroutines had their locals outside the memory the storage returned" % field(h, "outside"))
        if field(h, "heap_balance") != "0":
            msgs.append("leak: operator new/delete calls of the storage do not balance (%s)" % field(h, "heap_balance"))
        return msgs


class C19(Spec):
    pid = "C19"
    lean_modules = ["CoclsModel.Props.C19"]
    design_ref = "DESIGN.md §5 C19"
    trusted_base = [
        "hand-written models lean/CoclsModel/Storage.lean (all policies, sequential) and StorageMt.lean (reusable_storage_mtsafe, "
        "any number of threads, one step per hooked operation) and StorageSel.lean (custom_allocator_base's operator new overload "
        "set as a function of the coroutine's argument list: free function / member / lambda, object derived from the storage "
        "type, several storages; any number of reusable_storage objects) tied to coro_storage.h / alloca_storage.h / with_allocator.h by "
        "differential correspondence (harness/h_storage.cpp vs lean/Drivers/C19.lean) on generated histories and schedules",
        "operator new returns memory disjoint from every live block; std::vector<T>::resize as libstdc++ implements it "
        "(reallocation iff n > capacity, new capacity size+max(size,n-size)); the C++20 coroutine machinery calls the promise's "
        "operator new/delete once per frame with equal sizes (observed by the harness, not proved)"]
    technique = "Lean 4 invariant proofs (induction over all operation lists / all schedules) + differential correspondence with the real headers"
    level_text = ("Lean 4 theorems over executable models of every storage policy: exclusivity of live frames, block >= request + "
                  "trailer, heap blocks released exactly once and never leaked, no heap call after warm-up, extra object constructed "
                  "and destroyed once; which argument of a coroutine selects the storage (every signature: the documented argument, an "
                  "explicitly passed storage is never displaced by an object that merely derives from the storage type) and, over all "
                  "histories of coroutines of all signatures on any number of storage objects, every frame in the block of its selected "
                  "object, no two live frames in one block; for reusable_storage_mtsafe additionally over all interleavings of any number of threads at the "
                  "granularity of single hooked operations (_busy exchange/store, operator new/delete). The models are tied to the "
                  "headers by running both on generated histories/schedules and diffing every line; the property oracles run on the "
                  "implementation's trace; a third suite runs real threads.")
    level_note = ("trusted: Lean kernel (axioms propext/Classical.choice/Quot.sound at most), the hand-written models, the differential "
                  "harness (sampling), operator new/delete, std::vector growth, the compiler's coroutine frame handling. Memory orders of "
                  "_busy (relaxed) are C03's subject and not part of these theorems: the interleaving model is sequentially consistent. "
                  "Single-block policies (reusable_storage, placement_alloc, reusable_buffer_storage, one stack_storage buffer) are "
                  "proved exclusive under their documented one-live-frame contract (ghost flag `ok`).")
    assumptions = ["single-block policies serve one live frame at a time (documented contract; they have no busy flag)",
                   "placement_alloc's buffer is at least as large as the frame", "sizeof(Item) >= 1 for reusable_buffer_storage",
                   "a storage object outlives the frames it serves", "operator new does not fail"]

    def suites(self):
        return [SeqSuite(), SelSuite(), SchedSuite(), StressSuite()]


SPEC = C19()
