"""C06 — a suspend point never loses or duplicates a ready coroutine."""
import re
from vlib.runner import Spec, Suite

HARNESS = ("h_suspend_point", ["h_suspend_point.cpp"], {})
DRIVER_ID = 99          # id of the coroutine that performs the operations in coroutine mode
NCOROS = 90             # counting coroutines per case (ids 0..89); awaiting coroutines of normal mode use ids >= 100
GROW_POINTS = (4, 7, 13, 25, 49)   # sizes at which add() allocates: inline->heap(6), 12, 24, 48, 96


class Abs:
    """The *specification-level* view of a pool of suspend points: which handles each object holds (a list, no
    representation), the value of typed ones, and the handles waiting in the thread's ready queue (coroutine mode).
    Used by the generator to produce meaningful operations and by the oracle to know what the statement of C06
    demands of each operation; it knows nothing about flags, inline slots, capacities or blocks."""

    def __init__(self, mode, nslots):
        self.mode = mode
        self.slots = [None] * nslots      # None | {"typed": bool, "val": int, "h": [ids]}
        self.pending = []                 # coroutine mode: enqueued, not yet resumed
        self.given = {}
        self.popped = {}
        self.ncoros = NCOROS
        self.outside = False              # the history left the quantifier of C06 (see `own handle`)
        self.rep = {}                     # generator only: slot -> [heap?, capacity], to aim fault plans at growth positions

    # ---- generator-side prediction of where add() allocates (never used for a verdict: the oracle goes by the
    # implementation's own `threw` / `ok`)
    def _needs_alloc(self, i, n):
        heap, cap = self.rep.get(i, [False, 0])
        return n == cap if heap else n >= 3

    def _grow(self, i, n):
        heap, cap = self.rep.get(i, [False, 0])
        self.rep[i] = [True, cap * 2] if heap else [True, 6]

    def _note_add(self, i, n):
        """one add() to slot i that holds n handles"""
        if self._needs_alloc(i, n):
            self._grow(i, n)

    def predict_merge_throws(self, i, j, k):
        """would `mrgf i j k` throw (k-th allocation of the merge fails)? (generator only)"""
        n = len(self.slots[i]["h"])
        rep = list(self.rep.get(i, [False, 0]))
        try:
            for _ in self.slots[j]["h"]:
                if self._needs_alloc(i, n):
                    if k == 0:
                        return True
                    k -= 1
                    self._grow(i, n)
                n += 1
            return False
        finally:
            self.rep[i] = rep

    def live(self, i):
        return 0 <= i < len(self.slots) and self.slots[i] is not None

    def vacant(self, i):
        return 0 <= i < len(self.slots) and self.slots[i] is None

    def give(self, h):
        self.given[h] = self.given.get(h, 0) + 1

    def consume(self, hs, final=False):
        """handles of a discarded suspend point: resumed now (normal mode) or enqueued (coroutine mode)"""
        if self.mode == "c":
            if DRIVER_ID in hs and not final:
                # the handle of the *running* coroutine was discarded into the ready queue: it is not a ready
                # coroutine (only its own co_await may consume it); outside the quantifier
                self.outside = True
            self.pending += hs
            return []
        return list(hs)

    def me_ok(self, me):
        return me == DRIVER_ID if self.mode == "c" else me >= self.ncoros

    def apply(self, w, popped=None, head=None):
        """returns (valid, handles that must be resumed during this operation); `head` = first words of the implementation's
        output line (the oracle passes it: whether an operation under a fault plan threw is the implementation's business)"""
        op = w[0]
        if op in ("call", "callx"):
            return self.apply_call(w)
        a = [int(x) for x in w[1:]]
        if op in ("addhf", "mrgf", "asgf"):
            return self.apply_fault(op, a, head)
        if op == "cspx":
            # create_suspend_point(fn), fn readies the coroutines and throws: no suspend point, the coroutines are owed
            if any(not (0 <= h < NCOROS) for h in a): return False, []
            for h in a:
                self.give(h)
            return True, self.consume(a)
        if op == "act":
            return True, []
        self.track_rep(op, a)
        # a suspend point destroyed / discarded *during stack unwinding* owes its coroutines exactly the same
        if op == "delx": op = "del"
        if op == "clearx": op = "clear"
        S = self.slots
        if op == "ctor":
            if not self.vacant(a[0]): return False, []
            S[a[0]] = {"typed": False, "val": None, "h": []}
        elif op == "ctorh":
            if not self.vacant(a[0]) or not (0 <= a[1] < NCOROS): return False, []
            S[a[0]] = {"typed": False, "val": None, "h": [a[1]]}
            self.give(a[1])
        elif op == "ctorv":
            if not self.vacant(a[0]): return False, []
            S[a[0]] = {"typed": True, "val": a[1], "h": []}
        elif op == "ctorhv":
            if not self.vacant(a[0]) or not (0 <= a[1] < NCOROS): return False, []
            S[a[0]] = {"typed": True, "val": a[2], "h": [a[1]]}
            self.give(a[1])
        elif op in ("ctorsv", "mov", "movb"):
            i, j = a[0], a[1]
            if not self.vacant(i) or not self.live(j): return False, []
            src = S[j]
            if op == "ctorsv":
                S[i] = {"typed": True, "val": a[2], "h": src["h"]}
            elif op == "mov":
                S[i] = {"typed": src["typed"], "val": src["val"], "h": src["h"]}
                if src["typed"]:
                    src["val"] = None       # value(std::move(other.value)): the source's value is moved-from (unspecified)
            else:
                S[i] = {"typed": False, "val": None, "h": src["h"]}
            src["h"] = []
        elif op in ("mrg", "asg"):
            i, j = a[0], a[1]
            if not self.live(i) or not self.live(j): return False, []
            if i == j: return True, []          # merging a suspend point into itself keeps its handles
            if op == "asg" and S[i]["typed"] and not S[j]["typed"]: return False, []
            S[i]["h"] = S[i]["h"] + S[j]["h"]
            S[j]["h"] = []
            if op == "asg" and S[i]["typed"]:
                S[i]["val"] = S[j]["val"]    # value = std::move(other.value)
                S[j]["val"] = None           # ... which leaves the source's value moved-from (unspecified)
        elif op == "addh":
            if not self.live(a[0]) or not (0 <= a[1] < NCOROS): return False, []
            S[a[0]]["h"] = S[a[0]]["h"] + [a[1]]
            self.give(a[1])
        elif op == "addme":
            if not self.live(a[0]) or not self.me_ok(a[1]): return False, []
            S[a[0]]["h"] = S[a[0]]["h"] + [a[1]]
            self.give(a[1])
        elif op == "ctorself":
            if self.mode != "c" or a[1] != DRIVER_ID or not self.vacant(a[0]): return False, []
            S[a[0]] = {"typed": False, "val": None, "h": [a[1]]}
            self.give(a[1])
        elif op == "pop":
            if not self.live(a[0]): return False, []
            if popped is not None and popped in S[a[0]]["h"]:
                hs = list(S[a[0]]["h"])
                # remove the last occurrence
                k = len(hs) - 1 - hs[::-1].index(popped)
                del hs[k]
                S[a[0]]["h"] = hs
                self.popped[popped] = self.popped.get(popped, 0) + 1
        elif op in ("csp", "cspv"):
            # create_suspend_point(fn): the coroutines fn made ready are held by the new suspend point in the order they were made
            # ready (/repo fix 34c6158; the pinned code reversed them), nothing is resumed, the rest of the queue is untouched
            first = 1 if op == "csp" else 2
            hs = a[first:]
            if not self.vacant(a[0]) or len(a) < first or any(not (0 <= h < NCOROS) for h in hs): return False, []
            S[a[0]] = {"typed": op == "cspv", "val": a[1] if op == "cspv" else None, "h": list(hs)}
            for h in hs:
                self.give(h)
        elif op == "clear":
            if not self.live(a[0]): return False, []
            hs = S[a[0]]["h"]
            S[a[0]]["h"] = []
            return True, self.consume(hs)
        elif op == "del":
            if not self.live(a[0]): return False, []
            hs = S[a[0]]["h"]
            S[a[0]] = None
            return True, self.consume(hs)
        elif op == "await":
            if not self.live(a[0]): return False, []
            if not self.me_ok(a[1]): return False, []
            me = a[1]
            hs = S[a[0]]["h"]
            if not hs:
                return True, []
            S[a[0]]["h"] = []
            if me in self.pending:
                # the awaiting coroutine is already queued (it is not suspended, so it was not a *ready* coroutine when it
                # was handed in): outside the quantifier
                self.outside = True
                return True, []
            if hs[-1] == me:
                # own handle last (or sole): pop() takes it for the symmetric transfer, the coroutine is resumed exactly
                # once - by the transfer - and not queued again; nothing new is handed in. Coroutine mode: it continues at
                # once, the other handles wait in the ready queue; normal mode: they have all run when co_await returns
                if self.mode != "c":
                    return True, list(hs)
                self.pending = self.pending + hs[:-1]
                return True, [me]
            if me in hs:
                # own handle among the others (the yield idiom): it is queued exactly once, nothing new is handed in.
                # normal mode: everything runs before co_await returns to plain code; coroutine mode: the scheduler
                # runs up to the own handle, the handles behind it stay queued
                if self.mode != "c":
                    return True, list(hs)
                q = self.pending + hs[:-1]
                k = q.index(me)
                self.pending = q[k + 1:]
                return True, [hs[-1]] + q[:k + 1]
            self.give(me)
            out = self.pending + hs + [me]
            self.pending = []
            return True, out
        elif op == "yield":
            if self.mode != "c" or a[0] != DRIVER_ID: return False, []
            if a[0] in self.pending:
                self.outside = True
                return True, []
            self.give(a[0])
            out = self.pending + [a[0]]
            self.pending = []
            return True, out
        elif op in ("size", "empty"):
            if not self.live(a[0]): return False, []
        elif op in ("val", "conv", "cconv", "ares"):
            # reading the attached value (any way, any number of times) changes nothing
            if not self.live(a[0]) or not S[a[0]]["typed"]: return False, []
        elif op == "end":
            out = []
            for i in range(len(S)):
                if S[i] is not None:
                    out += self.consume(S[i]["h"], final=True)
                    S[i] = None
            out += self.pending
            self.pending = []
            return True, out
        else:
            return False, []
        return True, []


def _abs_track_rep(self, op, a):
    """generator-side bookkeeping of the storage kind / capacity (see `rep`)"""
    S = self.slots
    try:
        if op in ("ctor", "ctorh", "ctorv", "ctorhv", "ctorself"):
            if self.vacant(a[0]): self.rep[a[0]] = [False, 0]
        elif op in ("ctorsv", "mov", "movb"):
            if self.vacant(a[0]) and self.live(a[1]):
                self.rep[a[0]] = self.rep.get(a[1], [False, 0])
                self.rep[a[1]] = [False, 0]
        elif op in ("mrg", "asg"):
            i, j = a[0], a[1]
            if self.live(i) and self.live(j) and i != j and not (op == "asg" and S[i]["typed"] and not S[j]["typed"]):
                n = len(S[i]["h"])
                for _ in S[j]["h"]:
                    self._note_add(i, n)
                    n += 1
                self.rep[j] = [False, 0]
        elif op in ("addh", "addme"):
            if self.live(a[0]): self._note_add(a[0], len(S[a[0]]["h"]))
        elif op in ("csp", "cspv"):
            if self.vacant(a[0]):
                self.rep[a[0]] = [False, 0]
                for n in range(len(a) - (1 if op == "csp" else 2)):
                    self._note_add(a[0], n)
        elif op in ("clear", "clearx", "del", "delx"):
            if self.live(a[0]): self.rep[a[0]] = [False, 0]
        elif op == "await":
            if self.live(a[0]) and S[a[0]]["h"]: self.rep[a[0]] = [False, 0]
    except (IndexError, KeyError):
        pass


def _abs_apply_fault(self, op, a, head):
    S = self.slots
    if op == "addhf":
        if len(a) < 2 or not self.live(a[0]) or not (0 <= a[1] < NCOROS): return False, []
        n = len(S[a[0]]["h"])
        threw = (head[0] == "threw") if head else self._needs_alloc(a[0], n)
        if not threw:
            # (the generator's prediction said "no allocation needed": a plain add)
            S[a[0]]["h"] = S[a[0]]["h"] + [a[1]]
            self.give(a[1])
        # threw: the handle stays with the caller, the suspend point owes exactly what it owed before
        return True, []
    i, j, k = a[0], a[1], a[2] if len(a) > 2 else -1
    if not self.live(i) or not self.live(j) or k < 0: return False, []
    if op == "asgf" and S[i]["typed"]: return False, []
    if i == j: return True, []
    threw = (head[0] == "threw") if head else self.predict_merge_throws(i, j, k)
    # storage bookkeeping (generator): the allocations before the failing one happened
    n = len(S[i]["h"])
    kk = k
    for _ in S[j]["h"]:
        if self._needs_alloc(i, n):
            if kk == 0: break
            kk -= 1
            self._grow(i, n)
        n += 1
    if not threw:
        S[i]["h"] = S[i]["h"] + S[j]["h"]
        S[j]["h"] = []
        self.rep[j] = [False, 0]
    # threw: both objects owe exactly what they owed before
    return True, []


def _abs_apply_call(self, w):
    """install_queue_and_call(fn): fn readies coroutines, optionally clears a suspend point, returns or throws - either way
    everything is owed a resumption before the call is over (the queue is flushed and uninstalled)"""
    if len(w) < 2: return False, []
    S = self.slots
    tgt = None
    if w[1] != "-":
        if not w[1].isdigit() or not self.live(int(w[1])): return False, []
        tgt = int(w[1])
    hs = [int(x) for x in w[2:]]
    if any(not (0 <= h < NCOROS) for h in hs): return False, []
    if self.mode == "c" and (DRIVER_ID in self.pending or (tgt is not None and DRIVER_ID in S[tgt]["h"])):
        return False, []        # refused by the harness: the running coroutine's own handle would be resumed while it runs
    for h in hs:
        self.give(h)
    out = self.pending + hs
    self.pending = []
    if tgt is not None:
        out += S[tgt]["h"]
        S[tgt]["h"] = []
        self.rep[tgt] = [False, 0]
    return True, out


Abs.track_rep = _abs_track_rep
Abs.apply_fault = _abs_apply_fault
Abs.apply_call = _abs_apply_call


def parse_line(line):
    """'head | sizes ; e1 e2' -> (head words, sizes list, events list)"""
    left, _, evs = line.partition(" ; ")
    head, _, sizes = left.partition(" | ")
    return head.split(), sizes.split(","), evs.split()


class SPSuite(Suite):
    name = "sp-ops"
    harness = HARNESS
    driver = "drv_c06"
    corpus_prefix = "c06_"
    chunk = 25
    nontrivial_rule = "some suspend point went from inline to heap storage and at least one consumer resumed a handle"

    # ------------------------------------------------------------------ generator
    def gen_case(self, rng):
        mode = "c" if rng.random() < 0.45 else "n"
        nslots = rng.choice([2, 3, 4, 4])
        prof = rng.choice(["grow", "grow", "merge", "mixed", "mixed", "small"])
        nops = {"grow": rng.randint(20, 90), "merge": rng.randint(20, 70), "mixed": rng.randint(10, 60),
                "small": rng.randint(3, 18)}[prof]
        ab = Abs(mode, nslots)
        lines = ["case 0 sp %s %d %d" % (mode, nslots, NCOROS)]
        nxt = [0]
        me = [100]

        def fresh():
            if nxt[0] >= NCOROS:
                return None
            nxt[0] += 1
            return nxt[0] - 1

        def me_id():
            if mode == "c":
                return DRIVER_ID
            me[0] += 1
            return me[0]

        def emit(s):
            lines.append(s)
            ab.apply(s.split(), popped=(ab.slots[int(s.split()[1])]["h"][-1]
                                        if s.startswith("pop ") and ab.live(int(s.split()[1])) and ab.slots[int(s.split()[1])]["h"]
                                        else None))

        def own_handle_block():
            """the awaiting coroutine puts its OWN handle into a suspend point (first / middle / last / sole) and awaits it"""
            live = [i for i in range(nslots) if ab.live(i)]
            vac = [i for i in range(nslots) if ab.vacant(i)]
            m = me_id()
            k = rng.random()
            if rng.random() < 0.3:
                # own handle LAST or sole: `me = co_await self(); co_await me;` / `sp << me` added last
                if mode == "c" and vac and k < 0.3:
                    i = rng.choice(vac)
                    emit("ctorself %d %d" % (i, m))
                else:
                    if live and k < 0.8:
                        i = rng.choice(live)
                    elif vac:
                        i = rng.choice(vac)
                        emit("ctor %d" % i if rng.random() < 0.6 else "ctorv %d %d" % (i, rng.randint(0, 999)))
                    else:
                        return
                    for _ in range(rng.choice([0, 0, 1, 2, 3, 4, 6, 12])):
                        h = fresh()
                        if h is not None:
                            emit("addh %d %d" % (i, h))
                    if m in ab.slots[i]["h"]:
                        return
                    emit("addme %d %d" % (i, m))
                vac = [j for j in range(nslots) if ab.vacant(j)]
                if vac and rng.random() < 0.2:
                    j = rng.choice(vac)
                    emit("%s %d %d" % (rng.choice(["mov", "movb"]), j, i))
                    i = j
                emit("await %d %d" % (i, m))
                return
            if mode == "c" and vac and k < 0.35:
                i = rng.choice(vac)
                emit("ctorself %d %d" % (i, m))                     # sp = co_await self(): own handle first
            else:
                if not live:
                    if not vac:
                        return
                    i = rng.choice(vac)
                    emit("ctor %d" % i if rng.random() < 0.6 else "ctorv %d %d" % (i, rng.randint(0, 999)))
                else:
                    i = rng.choice(live)
                emit("addme %d %d" % (i, m))
            for _ in range(rng.choice([1, 1, 2, 3, 4, 6, 10, 22])):
                h = fresh()
                if h is None:
                    break
                emit("addh %d %d" % (i, h))
            live = [j for j in range(nslots) if ab.live(j) and j != i]
            if live and rng.random() < 0.35:
                j = rng.choice(live)
                if rng.random() < 0.5 and ab.slots[j]["h"]:
                    emit("mrg %d %d" % (i, j))                      # others appended behind the own handle
                elif not (ab.slots[j]["typed"] and not ab.slots[i]["typed"]):
                    emit("%s %d %d" % (rng.choice(["mrg", "asg"]), j, i))   # own handle travels into another object
                    i = j
            vac = [j for j in range(nslots) if ab.vacant(j)]
            if vac and rng.random() < 0.2:
                j = rng.choice(vac)
                emit("%s %d %d" % (rng.choice(["mov", "movb"]), j, i))
                i = j
            if rng.random() < 0.15 and len(ab.slots[i]["h"]) >= 2 and ab.slots[i]["h"][-2] != m:
                emit("pop %d" % i)
            if not ab.slots[i]["h"] or ab.slots[i]["h"][-1] == m or m not in ab.slots[i]["h"]:
                h = fresh()
                if h is None:
                    # cannot make the own handle non-last: take it out again
                    while ab.slots[i]["h"] and m in ab.slots[i]["h"]:
                        emit("pop %d" % i)
                    return
                emit("addh %d %d" % (i, h))
            emit("await %d %d" % (i, m))

        def fault_block():
            """one operation under a fault plan / with a throwing callable, aimed at a growth position, and follow-up operations
            on the same objects (retry, merge, pop, clear, destruction)"""
            live = [i for i in range(nslots) if ab.live(i)]
            vac = [i for i in range(nslots) if ab.vacant(i)]
            k = rng.random()
            if k < 0.4 and live:
                i = rng.choice(live)
                # bring the suspend point to a position where the next add allocates (most of the time)
                if rng.random() < 0.8:
                    guard = 0
                    while not ab._needs_alloc(i, len(ab.slots[i]["h"])) and guard < 30:
                        h = fresh()
                        if h is None:
                            break
                        emit("addh %d %d" % (i, h))
                        guard += 1
                h = fresh()
                if h is None:
                    return
                emit("addhf %d %d" % (i, h))
                r = rng.random()
                if r < 0.6:
                    emit("addh %d %d" % (i, h))                       # retry
                    if rng.random() < 0.3:
                        h2 = fresh()
                        if h2 is not None:
                            emit("addhf %d %d" % (i, h2))             # no allocation needed now: a plain add
                elif r < 0.7:
                    emit("size %d" % i)
                elif r < 0.8:
                    emit("pop %d" % i)
                elif r < 0.9:
                    emit("%s %d" % (rng.choice(["clear", "del", "delx"]), i))
                else:
                    emit("await %d %d" % (i, me_id()))
            elif k < 0.7 and len(live) >= 2:
                i, j = rng.sample(live, 2)
                for _ in range(rng.choice([0, 0, 1, 2, 4, 7])):
                    h = fresh()
                    if h is not None:
                        emit("addh %d %d" % (j, h))
                opn = "asgf" if (rng.random() < 0.4 and not ab.slots[i]["typed"]) else "mrgf"
                emit("%s %d %d %d" % (opn, i, j, rng.choice([0, 0, 0, 1, 1, 2])))
                r = rng.random()
                if r < 0.4:
                    emit("mrg %d %d" % (i, j))                         # retry
                elif r < 0.55:
                    emit("mrg %d %d" % (j, i))                         # the other way round
                elif r < 0.7:
                    emit("%s %d" % (rng.choice(["del", "clear"]), rng.choice([i, j])))
                elif r < 0.8:
                    emit("pop %d" % rng.choice([i, j]))
                elif r < 0.9:
                    h = fresh()
                    if h is not None:
                        emit("addh %d %d" % (i, h))
            else:
                hs = []
                for _ in range(rng.choice([0, 1, 2, 2, 3, 4, 5, 8])):
                    h = fresh()
                    if h is not None:
                        hs.append(h)
                r = rng.random()
                if r < 0.3:
                    emit(" ".join(["cspx"] + [str(h) for h in hs]))
                else:
                    ok = [i for i in live if not (mode == "c" and DRIVER_ID in ab.slots[i]["h"])]
                    tgt = str(rng.choice(ok)) if ok and rng.random() < 0.6 else "-"
                    emit(" ".join(["callx" if rng.random() < 0.75 else "call", tgt] + [str(h) for h in hs]))
                if rng.random() < 0.7:
                    emit("act")
                # ... and the thread goes on using suspend points
                if vac and rng.random() < 0.6:
                    i = rng.choice(vac)
                    emit("ctor %d" % i)
                    for _ in range(rng.choice([1, 3, 4, 7])):
                        h = fresh()
                        if h is not None:
                            emit("addh %d %d" % (i, h))
                    emit("%s %d" % (rng.choice(["clear", "del", "clearx"]), i))

        own = rng.random() < 0.4
        faults = rng.random() < 0.5
        target = rng.randrange(nslots)           # the slot the "grow" profile feeds
        burst = 0
        for _ in range(nops):
            if own and rng.random() < 0.06:
                own_handle_block()
                continue
            if faults and rng.random() < 0.08:
                fault_block()
                continue
            live = [i for i in range(nslots) if ab.live(i)]
            vac = [i for i in range(nslots) if ab.vacant(i)]
            r = rng.random()
            if rng.random() < 0.03:
                # deliberately invalid operation (totalisation: must be refused without effect)
                k = rng.randrange(6)
                if k == 0 and live: emit("ctor %d" % rng.choice(live))
                elif k == 1 and vac: emit("addh %d %d" % (rng.choice(vac), 0))
                elif k == 2 and live: emit("size %d" % live[0])
                elif k == 3 and vac: emit("pop %d" % rng.choice(vac))
                elif k == 4 and vac and live: emit("mov %d %d" % (live[0], vac[0]))
                elif k == 5:
                    ty = [i for i in live if ab.slots[i]["typed"]]
                    vo = [i for i in live if not ab.slots[i]["typed"]]
                    if ty and vo: emit("asg %d %d" % (ty[0], vo[0]))
                continue
            if burst > 0 and ab.live(target):
                h = fresh()
                if h is not None:
                    emit("addh %d %d" % (target, h))
                    burst -= 1
                    continue
            if not live or (vac and r < 0.12):
                i = rng.choice(vac) if vac else None
                if i is None:
                    continue
                k = rng.random()
                if k < 0.12:
                    # create_suspend_point: a function makes 0..n coroutines ready, optionally returns a value
                    hs = []
                    for _ in range(rng.choice([0, 1, 2, 3, 4, 5, 7, 9, 13])):
                        h = fresh()
                        if h is not None:
                            hs.append(h)
                    if rng.random() < 0.5:
                        emit(" ".join(["csp %d" % i] + [str(h) for h in hs]))
                    else:
                        emit(" ".join(["cspv %d %d" % (i, rng.randint(0, 999))] + [str(h) for h in hs]))
                    continue
                h = fresh()
                if k < 0.3 or h is None: emit("ctor %d" % i) if rng.random() < 0.6 else emit("ctorv %d %d" % (i, rng.randint(0, 999)))
                elif k < 0.65: emit("ctorh %d %d" % (i, h))
                else: emit("ctorhv %d %d %d" % (i, h, rng.randint(0, 999)))
                continue
            pa = {"grow": 0.62, "merge": 0.45, "mixed": 0.40, "small": 0.35}[prof]
            if r < pa:
                i = target if (prof == "grow" and ab.live(target) and rng.random() < 0.8) else rng.choice(live)
                h = fresh()
                if h is None:
                    continue
                emit("addh %d %d" % (i, h))
                if prof in ("grow", "merge") and rng.random() < 0.25:
                    burst = rng.choice([2, 3, 5, 8, 12, 20])
                    target = i
                continue
            r = rng.random()
            pm = 0.30 if prof == "merge" else 0.16
            if r < 0.02:
                i = rng.choice(live)
                emit("%s %d %d" % (rng.choice(["mrg", "asg"]), i, i))      # self-merge / self move-assignment
            elif r < pm and len(live) >= 2:
                i, j = rng.sample(live, 2)
                emit("%s %d %d" % ("asg" if rng.random() < 0.4 and not (ab.slots[i]["typed"] and not ab.slots[j]["typed"]) else "mrg", i, j))
            elif r < pm + 0.12 and vac:
                j = rng.choice(live)
                k = rng.random()
                if k < 0.5: emit("mov %d %d" % (rng.choice(vac), j))
                elif k < 0.75: emit("movb %d %d" % (rng.choice(vac), j))
                else: emit("ctorsv %d %d %d" % (rng.choice(vac), j, rng.randint(0, 999)))
            elif r < pm + 0.27:
                emit("pop %d" % rng.choice(live))
            elif r < pm + 0.35:
                emit("%s %d" % ("clearx" if rng.random() < 0.3 else "clear", rng.choice(live)))
            elif r < pm + 0.43:
                emit("%s %d" % ("delx" if rng.random() < 0.3 else "del", rng.choice(live)))
            elif r < pm + 0.53:
                emit("await %d %d" % (rng.choice(live), me_id()))
            elif r < pm + 0.56 and mode == "c":
                emit("yield %d" % DRIVER_ID)
            elif r < pm + 0.62:
                emit("%s %d" % (rng.choice(["size", "empty"]), rng.choice(live)))
            else:
                ty = [i for i in live if ab.slots[i]["typed"]]
                if ty:
                    i = rng.choice(ty)
                    # read the value: one way, or several reads in a row (a read must not disturb a later one)
                    for _ in range(rng.choice([1, 1, 2, 3])):
                        emit("%s %d" % (rng.choice(["val", "conv", "conv", "cconv", "ares"]), i))
                    if rng.random() < 0.3:
                        emit("await %d %d" % (i, me_id()))       # co_await yields the value as well
                        if rng.random() < 0.5:
                            emit("%s %d" % (rng.choice(["conv", "ares"]), i))
        lines.append("end")
        return {"id": 0, "lines": lines}

    def boundary_cases(self):
        """deterministic: one suspend point filled to every size 0..50 and consumed each way, in both modes"""
        cases = []
        for mode in ("n", "c"):
            for size in list(range(0, 14)) + [24, 25, 26, 40, 48, 49, 50]:
                for how in ("del", "clear", "delx", "clearx", "await", "pop", "popall", "mrg", "mov", "asg", "csp", "cspv"):
                    ls = ["case 0 sp %s 3 %d" % (mode, NCOROS), "ctorv 0 7" if how == "asg" else "ctor 0"]
                    ls += ["addh 0 %d" % k for k in range(size)]
                    if how in ("csp", "cspv"):
                        # the same number of coroutines, made ready by a function under create_suspend_point, with other
                        # coroutines already waiting in the ready queue (coroutine mode)
                        ls = ["case 0 sp %s 3 %d" % (mode, NCOROS), "ctorh 1 80", "addh 1 81", "clear 1",
                              " ".join([how + " 0"] + (["7"] if how == "cspv" else []) + [str(k) for k in range(size)]),
                              "size 0", "pop 0", "delx 0" if size % 2 else "await 0 %d" % (DRIVER_ID if mode == "c" else 100)]
                        if how == "cspv":
                            ls.insert(5, "conv 0")
                    elif how in ("del", "clear", "delx", "clearx"):
                        ls.append("%s 0" % how)
                        if how == "clearx":
                            ls += ["size 0", "addh 0 85", "delx 0"]
                    elif how == "await":
                        ls.append("await 0 %d" % (DRIVER_ID if mode == "c" else 100))
                    elif how == "pop":
                        ls += ["pop 0"] * (size + 1)
                        ls += ["addh 0 %d" % (60 + k) for k in range(min(size, 8))]
                    elif how == "popall":
                        ls += ["pop 0"] * size + ["size 0", "del 0"]
                    elif how == "mrg":
                        ls += ["ctorh 1 80", "addh 1 81", "mrg 1 0", "size 1", "del 0", "pop 1"]
                    elif how == "mov":
                        ls += ["mov 1 0", "addh 0 80", "movb 2 1", "clear 0", "size 2"]
                    elif how == "asg":
                        ls += ["ctorhv 1 80 9", "asg 1 0", "val 1", "val 0", "await 1 %d" % (DRIVER_ID if mode == "c" else 100)]
                    ls.append("end")
                    cases.append({"id": 0, "lines": ls})
        return cases

    def fault_cases(self):
        """deterministic: allocation failure at every position 0..13, 24, 25, 48 of one suspend point (the inline->heap switch and
        every doubling among them), retried and consumed each way; merges of two suspend points of many size pairs with the
        1st / 2nd / 3rd allocation failing, then retried / discarded; callables that throw (or return) under a freshly installed
        queue followed by further use of suspend points on the same thread; both modes"""
        cases = []
        for mode in ("n", "c"):
            me = DRIVER_ID if mode == "c" else 100
            hdr = "case 0 sp %s 3 %d" % (mode, NCOROS)
            for size in list(range(0, 14)) + [24, 25, 48]:
                for how in ("del", "clear", "popall", "mrg", "await", "twice"):
                    ls = [hdr, "ctor 0"] + ["addh 0 %d" % k for k in range(size)]
                    ls += ["addhf 0 60", "size 0", "addh 0 60", "size 0"]
                    if how in ("del", "clear"):
                        ls.append("%s 0" % how)
                    elif how == "popall":
                        ls += ["pop 0"] * (size + 2)
                    elif how == "mrg":
                        ls += ["ctorh 1 70", "mrg 1 0", "size 1", "del 0"]
                    elif how == "await":
                        ls.append("await 0 %d" % me)
                    elif how == "twice":
                        ls += ["addhf 0 61", "addhf 0 62", "addh 0 63", "size 0"]
                    ls.append("end")
                    cases.append({"id": 0, "lines": ls})
            for ni in (0, 2, 3, 5, 6, 7, 12):
                for nj in (1, 3, 4, 7, 13):
                    for k in (0, 1, 2):
                        for after in ("retry", "del", "use"):
                            ls = [hdr, "ctor 0"] + ["addh 0 %d" % x for x in range(ni)]
                            if ni == 5:
                                # a heap-backed target with room: 7 handles, two popped
                                ls += ["addh 0 5", "addh 0 6", "pop 0", "pop 0"]
                            ls += ["ctorv 1 9"] + ["addh 1 %d" % (30 + x) for x in range(nj)]
                            ls += ["%s 0 1 %d" % ("asgf" if (ni + nj + k) % 2 else "mrgf", k), "size 0", "size 1"]
                            if after == "retry":
                                ls += ["mrg 0 1", "size 0", "clear 0"]
                            elif after == "del":
                                ls += ["del 1", "pop 0", "del 0"]
                            else:
                                ls += ["addh 0 80", "addh 1 81", "mrgf 1 0 0", "mov 2 0", "await 2 %d" % me]
                            ls.append("end")
                            cases.append({"id": 0, "lines": ls})
            for nh in (0, 1, 2, 5):
                for tsz in (None, 0, 2, 5):
                    for opn in ("callx", "call", "cspx"):
                        if opn == "cspx" and tsz is not None:
                            continue
                        ls = [hdr, "ctorh 1 80", "addh 1 81", "clear 1"]
                        if tsz is not None:
                            ls += ["ctor 0"] + ["addh 0 %d" % (40 + x) for x in range(tsz)]
                        hs = " ".join(str(x) for x in range(nh))
                        if opn == "cspx":
                            ls.append(("cspx " + hs).strip())
                        else:
                            ls.append(("%s %s %s" % (opn, "0" if tsz is not None else "-", hs)).strip())
                        ls += ["act", "ctor 2"] + ["addh 2 %d" % (50 + x) for x in range(nh + 2)]
                        ls += ["clear 2", "addh 2 60", "addh 2 61", "mov 0 2" if tsz is None else "mrg 0 2", "del 0", "act", "end"]
                        cases.append({"id": 0, "lines": ls})
        return cases

    def own_handle_cases(self):
        """deterministic: the awaiting coroutine's own handle first / in the middle / second to last / last / sole among k
        others, k across the inline limit and the doublings, both modes, directly and via co_await self()"""
        cases = []
        for mode in ("n", "c"):
            me = DRIVER_ID if mode == "c" else 100
            for k in (0, 1, 2, 3, 4, 5, 6, 7, 11, 12, 13, 24, 25, 39):
                for pos in sorted({0, min(1, k), k // 2, max(k - 1, 0), k}):
                    for via in (("addme", "self") if mode == "c" and pos == 0 else ("addme",)):
                        ls = ["case 0 sp %s 3 %d" % (mode, NCOROS)]
                        if via == "self":
                            ls.append("ctorself 0 %d" % me)
                        else:
                            ls.append("ctor 0")
                        for x in range(k + 1):
                            if x == pos and via == "addme":
                                ls.append("addme 0 %d" % me)
                            if x < k:
                                ls.append("addh 0 %d" % x)
                        ls += ["ctorh 1 80", "clear 1", "size 0", "await 0 %d" % me, "size 0", "addh 0 81",
                               "await 0 %d" % (me if mode == "c" else 101), "end"]
                        cases.append({"id": 0, "lines": ls})
        return cases

    def value_cases(self):
        """deterministic: every order of up to 3 reads of a typed suspend point's value (conversion on a non-const / const
        object, await_resume, co_await), alone and with a typed move construction / move assignment / slicing move /
        merge in between, with 0, 1 and 5 handles, both modes"""
        cases = []
        reads = ["conv", "cconv", "ares", "val", "await"]
        seqs = [[a] for a in reads] + [[a, b] for a in reads for b in reads] + \
               [[a, b, c] for a in ("conv", "ares", "await") for b in ("conv", "cconv", "await") for c in ("conv", "ares", "val")]
        for mode in ("n", "c"):
            for nh in (0, 1, 5):
                for between in (None, "mov", "asg", "movb", "mrg", "self"):
                    for sq in seqs:
                        if between is not None and len(sq) != 2:
                            continue
                        ls = ["case 0 sp %s 3 %d" % (mode, NCOROS), "ctorv 0 321"] + ["addh 0 %d" % k for k in range(nh)]
                        slot = 0
                        me = 100
                        for k, r in enumerate(sq):
                            if k == 1 and between == "mov":
                                ls.append("mov 1 0"); slot = 1
                            elif k == 1 and between == "asg":
                                ls += ["ctorhv 1 50 654", "asg 1 0"]; slot = 1
                            elif k == 1 and between == "movb":
                                ls.append("movb 1 0")
                            elif k == 1 and between == "mrg":
                                ls += ["ctorh 1 50", "mrg 0 1"]
                            elif k == 1 and between == "self":
                                ls.append("asg 0 0")
                            if r == "await":
                                me += 1
                                ls.append("await %d %d" % (slot, DRIVER_ID if mode == "c" else me))
                            else:
                                ls.append("%s %d" % (r, slot))
                        ls += ["val %d" % slot, "end"]
                        cases.append({"id": 0, "lines": ls})
        return cases

    def exhaustive_cases(self, depth):
        """every sequence of up to `depth` macro-operations over two suspend points (slot 0 starts with 3 handles, i.e.
        at the inline limit, slot 1 with one), in both modes; `grow` adds 4 handles at once (crosses the next boundary)"""
        alphabet = ["add0", "add1", "grow0", "mrg01", "mrg10", "asg01", "self0", "mov", "pop0", "pop1", "clear0", "del0",
                    "del1", "await0", "await1", "own0", "conv1", "tmov1", "delx0", "clearx1", "csp", "ownlast0"]
        cases = []

        def rec(prefix):
            if prefix:
                for mode in ("n", "c"):
                    cases.append(self.expand(mode, prefix))
            if len(prefix) < depth:
                for a in alphabet:
                    rec(prefix + [a])
        rec([])
        return cases

    def expand(self, mode, macros):
        ls = ["case 0 sp %s 3 %d" % (mode, NCOROS), "ctorh 0 0", "addh 0 1", "addh 0 2", "ctorhv 1 3 5"]
        nxt = 4
        me = 100
        for m in macros:
            if m in ("add0", "add1"):
                ls.append("addh %s %d" % (m[-1], nxt)); nxt += 1
            elif m == "grow0":
                for _ in range(4):
                    ls.append("addh 0 %d" % nxt); nxt += 1
            elif m in ("mrg01", "mrg10"):
                ls.append("mrg %s %s" % (m[3], m[4]))
            elif m == "asg01":
                ls.append("asg 0 1")
            elif m == "self0":
                ls.append("asg 0 0")
            elif m == "mov":
                ls += ["mov 2 0", "mrg 1 2", "del 2"]
            elif m in ("pop0", "pop1"):
                ls.append("pop %s" % m[-1])
            elif m == "clear0":
                ls.append("clear 0")
            elif m in ("del0", "del1"):
                ls += ["del %s" % m[-1], "ctor %s" % m[-1]] if m == "del0" else ["del 1", "ctorv 1 6"]
            elif m in ("await0", "await1"):
                me += 1
                ls.append("await %s %d" % (m[-1], DRIVER_ID if mode == "c" else me))
            elif m == "conv1":
                ls += ["conv 1", "ares 1"]
            elif m == "tmov1":
                # typed move construction and typed move assignment back: the value travels with them
                ls += ["mov 2 1", "conv 2", "asg 1 2", "del 2", "conv 1"]
            elif m == "delx0":
                ls += ["delx 0", "ctor 0"]
            elif m == "clearx1":
                ls.append("clearx 1")
            elif m == "csp":
                ls += ["csp 2 %d %d" % (nxt, nxt + 1), "mrg 0 2", "del 2"]
                nxt += 2
            elif m == "ownlast0":
                # own handle last behind whatever slot 0 holds, then co_await
                me += 1
                ls += ["addme 0 %d" % (DRIVER_ID if mode == "c" else me), "await 0 %d" % (DRIVER_ID if mode == "c" else me)]
            elif m == "own0":
                # own handle behind whatever slot 0 holds, one more handle behind it, then co_await
                me += 1
                ls += ["addme 0 %d" % (DRIVER_ID if mode == "c" else me), "addh 0 %d" % nxt,
                       "await 0 %d" % (DRIVER_ID if mode == "c" else me)]
                nxt += 1
        ls.append("end")
        return {"id": 0, "lines": ls}

    def gen_cases(self, rng, tier):
        n = 1000 if tier == "quick" else 150000
        cases = self.boundary_cases() + self.fault_cases() + self.own_handle_cases() + self.value_cases() + \
            self.exhaustive_cases(3 if tier == "quick" else 4)
        for _ in range(n):
            cases.append(self.gen_case(rng))
        return cases

    # ------------------------------------------------------------------ oracle
    def oracle(self, case, out):
        """the statement of C06 evaluated on the implementation's trace: every handle handed in is resumed (or
        handed back by pop) exactly once, consumers resume exactly what the object holds, emptied / moved-from
        objects resume nothing, array allocations balance, the typed value is the one supplied"""
        msgs = []
        hdr = case["lines"][0].split()
        if hdr[2] != "sp":
            return msgs
        ab = Abs(hdr[3], int(hdr[4]))
        ops = case["lines"][1:]
        resumed = {}
        live_blocks = 0
        news = dels = 0
        if len(out) != len(ops) and not any(l.startswith("stuck") for l in out):
            msgs.append("trace: %d output lines for %d operations" % (len(out), len(ops)))
        for op, line in zip(ops, out):
            w = op.split()
            head, sizes, evs = parse_line(line)
            if head and head[0] == "stuck":
                msgs.append("lost: the awaiting coroutine was never resumed (%s)" % op)
                break
            popped = None
            if w[0] == "pop" and len(head) > 1 and head[0] == "pop" and head[1] != "noop":
                popped = int(head[1]) if head[1].isdigit() else -1
            before = list(ab.slots[int(w[1])]["h"]) if w[0] == "pop" and len(w) > 1 and ab.live(int(w[1])) else None
            want_val = None
            if w[0] in ("val", "conv", "cconv", "ares", "await") and len(w) > 1 and w[1].isdigit() and ab.live(int(w[1])) \
                    and ab.slots[int(w[1])]["typed"]:
                want_val = ab.slots[int(w[1])]["val"]
            valid, must = ab.apply(w, popped=popped, head=head)
            if ab.outside:
                return []       # the input left the quantifier of the property: no verdict
            got = [int(e[1:]) for e in evs if e[0] == "r"]
            for e in evs:
                if e == "dBAD":
                    msgs.append("double-free: delete[] of a block that is not live (%s)" % op)
                elif e[0] == "n":
                    news += 1
                    live_blocks += 1
                elif e[0] == "d":
                    dels += 1
                    live_blocks -= 1
            for h in got:
                resumed[h] = resumed.get(h, 0) + 1
            if not valid:
                if got:
                    msgs.append("duplicate: refused operation `%s` resumed %s" % (op, got))
                continue
            if w[0] == "act" and len(head) > 1 and head[0] == "act":
                want_act = "1" if hdr[3] == "c" else "0"
                if head[1] != want_act:
                    msgs.append("mode: coro_queue::is_active() is %s in %s after the operations so far - suspend points "
                                "discarded from now on %s their coroutines" % (
                                    head[1], "plain code" if hdr[3] == "n" else "a running coroutine",
                                    "only queue (nobody flushes)" if hdr[3] == "n" else "resume at once"))
            if w[0] == "pop":
                if popped is None:
                    if before:
                        msgs.append("lost: pop() returned noop although the object holds %s" % before)
                elif popped not in (before or []):
                    msgs.append("duplicate: pop() returned %s which the object does not hold (%s)" % (popped, before))
            if (w[0] in ("val", "conv", "cconv", "ares") and head[:1] == [w[0]]) or (w[0] == "await" and head[:1] == ["aw"]):
                # `want` is None after the value was moved away by a typed move construction / assignment (unspecified)
                want = want_val
                if want is not None and len(head) > 1 and head[1] != str(want):
                    msgs.append("value: `%s` on a typed suspend point yields %s, its producer supplied %s" % (op, head[1], want))
            if sorted(got) != sorted(must):
                missing = sorted(set(must) - set(got))
                extra = sorted(h for h in set(got) if got.count(h) > must.count(h))
                if missing:
                    msgs.append("lost: `%s` had to resume %s, resumed %s (missing %s)" % (op, must, got, missing))
                if extra:
                    msgs.append("duplicate: `%s` had to resume %s, resumed %s (extra %s)" % (op, must, got, extra))
                if not missing and not extra:
                    msgs.append("lost: `%s` had to resume %s, resumed %s" % (op, must, got))
            if w[0] == "end":
                m = re.match(r"live=(\d+)", head[1]) if len(head) > 1 else None
                if m and int(m.group(1)) != 0:
                    msgs.append("leak: %s heap block(s) still allocated after every suspend point was destroyed" % m.group(1))
                if news != dels:
                    msgs.append("leak: %d new[] vs %d delete[] over the whole history" % (news, dels))
        # global exactly-once balance
        if not any(m.startswith("lost: the awaiting") or m.startswith("trace") for m in msgs):
            for h, n in sorted(ab.given.items()):
                r = resumed.get(h, 0) + ab.popped.get(h, 0)
                if r < n:
                    msgs.append("lost: coroutine %d handed in %d time(s), resumed/popped %d time(s)" % (h, n, r))
                elif r > n:
                    msgs.append("duplicate: coroutine %d handed in %d time(s), resumed/popped %d time(s)" % (h, n, r))
            for h, n in sorted(resumed.items()):
                if h not in ab.given:
                    msgs.append("duplicate: coroutine %d resumed %d time(s) but never handed in" % (h, n))
        # keep one message per category first
        return msgs

    def nontrivial(self, case, out):
        txt = " ".join(out)
        return bool(re.search(r"\bn\d+", txt)) and bool(re.search(r"\br\d+", txt))

    def stats(self, cases, outs):
        ops, modes = {}, {}
        reached = {str(g): 0 for g in GROW_POINTS}
        allocs = frees = resumes = heap_merges = 0
        maxsize = 0
        for c in cases:
            modes[c["lines"][0].split()[3]] = modes.get(c["lines"][0].split()[3], 0) + 1
            for l in c["lines"][1:]:
                k = l.split()[0]
                ops[k] = ops.get(k, 0) + 1
            o = outs.get(str(c["id"]), [])
            mx = 0
            for l, opl in zip(o, c["lines"][1:]):
                head, sizes, evs = parse_line(l)
                for s in sizes:
                    if s.isdigit():
                        mx = max(mx, int(s))
                a = sum(1 for e in evs if e[0] == "n")
                allocs += a
                frees += sum(1 for e in evs if e[0] == "d" and e != "dBAD")
                resumes += sum(1 for e in evs if e[0] == "r")
                if opl.split()[0] in ("mrg", "asg") and any(e[0] == "d" for e in evs):
                    heap_merges += 1
            maxsize = max(maxsize, mx)
            for g in GROW_POINTS:
                if mx >= g:
                    reached[str(g)] += 1
        threw = {}
        threw_at = {}
        after_fault = 0
        for c in cases:
            o = outs.get(str(c["id"]), [])
            seen = False
            for l, opl in zip(o, c["lines"][1:]):
                w = opl.split()
                if seen and w[0] not in ("act", "size", "end"):
                    after_fault += 1
                if w[0] in ("addhf", "mrgf", "asgf", "callx", "cspx", "call"):
                    head, sizes, evs = parse_line(l)
                    if head[:1] == ["threw"]:
                        threw[w[0]] = threw.get(w[0], 0) + 1
                        seen = True
                        if w[0] == "addhf" and w[1].isdigit() and int(w[1]) < len(sizes):
                            threw_at[sizes[int(w[1])]] = threw_at.get(sizes[int(w[1])], 0) + 1
        own = 0
        for c in cases:
            mes = set()
            for l in c["lines"][1:]:
                w = l.split()
                if w[0] in ("addme", "ctorself"):
                    mes.add(w[2])
                elif w[0] == "await" and w[2] in mes:
                    own += 1
        return {"ops": ops, "modes": modes, "awaits_by_a_coroutine_whose_handle_was_handed_in": own, "cases_reaching_size": reached, "max_size": maxsize,
                "new[]": allocs, "delete[]": frees, "resumptions": resumes, "merges_from_heap_source": heap_merges,
                "operations_left_by_an_exception": threw, "failed_add_by_size_of_the_suspend_point": threw_at,
                "operations_after_a_fault_in_the_same_case": after_fault}


class C06(Spec):
    pid = "C06"
    lean_modules = ["CoclsModel.Props.C06"]
    design_ref = "DESIGN.md §5 C06"
    trusted_base = ["hand-written representation-level model lean/CoclsModel/SuspendPoint.lean tied to suspend_point.h / coro_queue.h by "
                    "differential correspondence (harness/h_suspend_point.cpp vs lean/Drivers/C06.lean) on generated operation sequences",
                    "the union {_local,_ext} is modelled as two fields of which only the one selected by the flag is read (as in the code)",
                    "g++ coroutine code generation, std::deque of the ready queue, ASan/LSan for what the model calls oob/badfree"]
    technique = "Lean 4 invariant proof (induction over all operation lists) + differential correspondence with the real headers"
    level_text = ("Lean 4 theorems over an executable model of suspend_point at the level of the real representation (_count_flag with the "
                  "heap bit, 3 inline cells, heap block with doubling, ghost heap with live blocks / allocation events / invalid-free events, "
                  "the thread's ready queue): per-operation abstraction theorems (add, <<, move, pop, clear/destructor, co_await in both "
                  "modes), conservation of the multiset of handles over every operation list on any number of suspend points, exactly-once "
                  "at end of life, heap balance / no invalid free / no out-of-bounds write, no allocation up to 3 handles, typed value "
                  "preserved by every operation including every way of reading it (value type with an observable moved-from state); fault "
                  "operations are part of the operation alphabet: `sp << h` and merges while the n-th new[] of the operation throws "
                  "std::bad_alloc (strong guarantee of add, handle-level strong guarantee of merge after /repo fix 07a2414), callables "
                  "that throw under a freshly installed queue (install_queue_and_call / create_suspend_point: queue flushed, mode restored), "
                  "so every conservation / heap theorem covers histories with faults followed by further operations; the model is tied to the headers by running both on generated sequences and diffing every line; property "
                  "oracles run on the implementation trace under ASan/UBSan/LSan")
    level_note = ("trusted: Lean kernel (axioms propext/Classical.choice/Quot.sound at most), the hand-written model, the differential harness "
                  "(sampling), the assumption that resumed coroutines are trivial (they do not touch the suspend points or the queue while "
                  "being resumed), _count_flag does not overflow 2^31 handles")
    assumptions = ["resumed coroutines do not operate on the suspend points / ready queue while they are being resumed (trivial counting coroutines)",
                   "a coroutine that awaits a suspend point is not already waiting in the ready queue (its own handle inside the "
                   "awaited suspend point, in any position, is covered: c06_await_own_handle)",
                   "the handle of a coroutine that is currently running is consumed only by that coroutine's own co_await",
                   "fewer than 2^31 handles per suspend point (unsigned _count_flag)",
                   "single thread (suspend_point is not a shared object)",
                   "allocation failure = operator new[] throwing std::bad_alloc once, at a chosen allocation of one operation (addhf / mrgf / "
                   "asgf); the ready queue's own std::deque allocations (operator new) are not failed",
                   "an exception thrown by a callable under install_queue_and_call / create_suspend_point is caught by the caller "
                   "(the code that performs the operations); coroutines resumed by the flush do not throw"]

    def suites(self):
        return [SPSuite()]


SPEC = C06()
