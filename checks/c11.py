"""C11 — thread pool: every submission runs once on a worker or is cancelled once; stop()/destructor terminate."""
import itertools
import re
from vlib.runner import Spec, Suite

HARNESS = ("h_pool", ["h_pool.cpp"], {"extra_flags": ["-I/verif/harness/shim", "-fno-access-control"]})

KINDS = ["co", "fn", "det", "rh", "ra", "aw"]
CANCELLABLE = {"co", "fn", "det", "ra"}       # kinds whose closure has a cancellation channel (ra: since the fix)
BARE = {"rh", "aw"}                           # bare coroutine handle: no channel in the API (open finding)


def make_case(nw, clients, sched, opts=""):
    return {"id": 0, "lines": [("case 0 pool %d %s" % (nw, opts)).strip()] + ["c " + " ".join(c) for c in clients] +
            ["sched " + " ".join(map(str, sched)), "end"]}


def with_cv_yield(rng, cases, share=0.4):
    """a share of the cases runs with a scheduling point at the entry of the pool's `_cond.wait` (predicate evaluated, mutex
    held, waiter not yet registered): notifications that are not issued under the mutex get lost there. Not combined with
    'r' (a cancelled party calling is_stopped() while a worker holds the mutex is not modelled)."""
    for c in cases:
        if rng.random() < share and not any("r" in w.split(":")[1] for l in c["lines"] if l.startswith("c ") for w in l.split()[1:] if ":" in w):
            c["lines"][0] += " cvy"
    return cases


def random_sched(rng, n, length):
    out = []
    while len(out) < length:
        t = rng.randrange(n)
        burst = 1 if rng.random() < 0.5 else rng.randint(2, 7)
        out += [t] * burst
    return out[:length]


def rand_kind(rng, bare=0.22):
    if rng.random() < bare:
        return rng.choice(["rh", "aw"])
    return rng.choice(["co", "co", "fn", "fn", "det", "det", "ra"])


def rand_prims(rng, allow_stop, p=0.3):
    if rng.random() > p:
        return ""
    out = ""
    for _ in range(rng.randint(1, 2)):
        out += rng.choice("fds" if allow_stop else "fd")
    return out


def rand_submit(rng, allow_stop, bare=0.22):
    k = rand_kind(rng, bare)
    p = rand_prims(rng, allow_stop)
    return k + (":" + p if p else "")


def prim_tokens(p):
    out, i = [], 0
    while i < len(p):
        if p[i] in "we" and i + 1 < len(p):
            out.append(p[i:i + 2])
            i += 2
        else:
            out.append(p[i])
            i += 1
    return out


def with_current_api(rng, cases, share=0.45):
    """the "pool of this worker thread" API and the closure container: in a share of the cases jobs ask
    thread_pool::current::is_stopped() ('q') / any_enqueued() ('a'), coroutine jobs re-submit the rest of their body with
    `co_await thread_pool::current()` ('c'), client threads (no worker: thread-local pointer null) use the same API
    (curq / cura / curc), and run_detached closures are large (detL, heap) or handed over in a caller-side cocls::function
    (detF small, detG large). 'c' is not combined with 'r' (see gen_stop_family)."""
    for c in cases:
        if rng.random() > share:
            continue
        has_r = any("r" in w.split(":")[1] for l in c["lines"] if l.startswith("c ") for w in l.split()[1:] if ":" in w)
        for n, l in enumerate(c["lines"]):
            if not l.startswith("c "):
                continue
            ops = l.split()[1:]
            for k, o in enumerate(ops):
                if o in ("stop", "destroy", "stopB", "destroyB"):
                    continue
                kind, _, prims = o.partition(":")
                toks = prim_tokens(prims)
                if rng.random() < 0.35:
                    toks.insert(rng.randint(0, len(toks)), rng.choice("qa"))
                if kind in ("co", "rh", "aw") and not has_r and rng.random() < 0.4:
                    toks.insert(rng.randint(0, len(toks)), "c")
                    if rng.random() < 0.25:
                        toks.insert(rng.randint(0, len(toks)), "c")
                if kind == "det" and rng.random() < 0.4:
                    kind = rng.choice(["detL", "detF", "detG"])
                if kind == "fn" and rng.random() < 0.5:      # function returning void / large closure / throwing function
                    kind = "fn" + rng.choice(["T", "T", "V", "VT", "L", "LT", "VL", "VLT"])
                ops[k] = kind + (":" + "".join(toks) if toks else "")
            if rng.random() < 0.25:
                ops.insert(rng.randint(0, len(ops)), rng.choice(["curq", "cura", "curc"]))
            c["lines"][n] = "c " + " ".join(ops)
    return cases


def gen_stop_family(rng, count):
    """1..3 workers, 1..3 clients, submissions of every kind, stop() from clients and from jobs (concurrent stops,
    self-stop); the pool object outlives the run, so every timing is legal"""
    cases = []
    for _ in range(count):
        nw = rng.randint(1, 3)
        nc = rng.randint(1, 3)
        clients = []
        for ci in range(nc):
            ops = [rand_submit(rng, True) for _ in range(rng.randint(1, 3 if nc > 1 else 5))]
            r = rng.random()
            if r < 0.45:
                ops.insert(rng.randint(0, len(ops)), "stop")
            elif r < 0.55:
                ops.insert(rng.randint(0, len(ops)), "stop")
                ops.append("stop")
            clients.append(ops)
        # cancelled parties that call back into the pool ('r'); only while every submission fits into the first node of the
        # std::deque (7 closures), so that the destruction order of the swapped-out queue is the submission order
        total = sum(1 + (o.split(":")[1].count("f") + o.split(":")[1].count("d") + o.split(":")[1].count("c") if ":" in o else 0) for ops in clients for o in ops if o != "stop")
        if total <= 7 and rng.random() < 0.6:
            for ops in clients:
                for k, o in enumerate(ops):
                    if o != "stop" and o.split(":")[0] in ("co", "fn", "det", "ra") and rng.random() < 0.6:
                        ops[k] = o + ("r" if ":" in o else ":r")
        n = nw + nc
        cases.append(make_case(nw, clients, random_sched(rng, n, rng.choice([0, 10, 30, 60, 100, 140]))))
    return cases


def gen_destroy_client(rng, count):
    """one client that submits, maybe stops, and finally deletes the pool (no job calls stop(): a destructor overlapping
    another thread's stop() is a caller error)"""
    cases = []
    for _ in range(count):
        nw = rng.randint(1, 3)
        ops = [rand_submit(rng, False, bare=0.1) for _ in range(rng.randint(1, 5))]
        if rng.random() < 0.25:
            ops.insert(rng.randint(0, len(ops)), "stop")
        ops.append("destroy")
        cases.append(make_case(nw, [ops], random_sched(rng, nw + 1, rng.choice([0, 10, 30, 60, 100]))))
    return cases


def gen_destroy_job(rng, count):
    """the pool is deleted from one of its own threads: by the body of the last submitted job (`D`) or by the
    destructor of its closure (`x`, the shared_ptr-captured-in-the-job pattern)"""
    cases = []
    for _ in range(count):
        nw = rng.randint(1, 3)
        ops = [rand_submit(rng, False, bare=0.1) for _ in range(rng.randint(0, 4))]
        pre = "".join(rng.choice("fd") for _ in range(rng.choice([0, 0, 1])))
        r = rng.random()
        if r < 0.4:
            ops.append("det:" + pre + "x")
        else:
            ops.append(rng.choice(["co", "fn", "det", "ra"]) + ":" + pre + "D")
        cases.append(make_case(nw, [ops], random_sched(rng, nw + 1, rng.choice([0, 10, 30, 60, 100]))))
    return cases


def gen_idle_family(rng, count):
    """no stop at all: the run must end with every job executed and the workers waiting (lost wake-ups show here)"""
    cases = []
    for _ in range(count):
        nw = rng.randint(1, 3)
        nc = rng.randint(1, 2)
        clients = [[rand_submit(rng, False, bare=0.2) for _ in range(rng.randint(1, 4))] for _ in range(nc)]
        cases.append(make_case(nw, clients, random_sched(rng, nw + nc, rng.choice([0, 10, 30, 60, 100]))))
    return cases


def gen_dependent_family(rng, count):
    """a job that blocks until a job submitted right after it has run (A waits for B's completion): 2..3 workers, at most
    nw-1 waiting jobs, so with a correct pool B always finds a free worker; dependent pairs are submitted back-to-back.
    Half of the schedules let all workers reach the condition wait first and then run the client in one burst."""
    cases = []
    for _ in range(count):
        nw = rng.randint(2, 3)
        nc = rng.randint(1, 2)
        flag = 0
        waiters = 0
        clients = []
        for ci in range(nc):
            ops = []
            if rng.random() < 0.3:
                ops.append(rand_submit(rng, False, bare=0.0))
            while True:
                if waiters >= nw - 1 or (ops and rng.random() < 0.4):
                    break
                chain = 2 if (waiters + 2 <= nw - 1 and rng.random() < 0.3) else 1
                ka = rng.choice(["fn", "det", "co", "ra"])
                if chain == 1:
                    ops += ["%s:w%d" % (ka, flag), "%s:e%d" % (rng.choice(["fn", "det", "co", "ra"]), flag)]
                    flag += 1
                    waiters += 1
                else:
                    ops += ["%s:w%d" % (ka, flag), "%s:w%de%d" % (rng.choice(["fn", "det", "co"]), flag + 1, flag),
                            "%s:e%d" % (rng.choice(["fn", "det"]), flag + 1)]
                    flag += 2
                    waiters += 2
            if rng.random() < 0.3:
                ops.append(rand_submit(rng, False, bare=0.0))
            clients.append(ops)
        if rng.random() < 0.15:
            clients[0].append("stop")
        n = nw + nc
        if rng.random() < 0.5:
            sched = [w for w in range(nw) for _ in range(2)] + [t for t in range(nw, n) for _ in range(2 * len(clients[t - nw]) + 1)]
            sched += random_sched(rng, n, rng.choice([0, 0, 20]))
        else:
            sched = random_sched(rng, n, rng.choice([10, 30, 60, 100]))
        cases.append(make_case(nw, clients, sched))
    return cases


def gen_two_pools(rng, count):
    """a second pool instance B (one worker, no submissions): jobs of A and clients stop or destroy it, then more work is
    submitted to A, which must keep all its workers (`_current` is one thread-local shared by all instances). Either any
    number of B.stop() calls, or exactly one destruction of B and nothing else on B."""
    cases = []
    for _ in range(count):
        nw = rng.randint(1, 2)
        nc = rng.randint(1, 2)
        destroy = rng.random() < 0.35
        clients = [[rand_submit(rng, False, bare=0.05) for _ in range(rng.randint(1, 3))] for _ in range(nc)]
        if destroy:
            ci = rng.randrange(nc)
            if rng.random() < 0.7:
                k = rng.choice([n for n, o in enumerate(clients[ci]) if o not in ("stopB", "destroyB")])
                o = clients[ci][k]
                clients[ci][k] = o + ("B" if ":" in o else ":B")
            else:
                clients[ci].insert(rng.randint(0, len(clients[ci])), "destroyB")
        else:
            for _ in range(rng.randint(1, 3)):
                ci = rng.randrange(nc)
                if rng.random() < 0.75:
                    k = rng.choice([n for n, o in enumerate(clients[ci]) if o not in ("stopB", "destroyB")])
                    o = clients[ci][k]
                    clients[ci][k] = o + ("b" if ":" in o else ":b")
                else:
                    clients[ci].insert(rng.randint(0, len(clients[ci])), "stopB")
        for ops in clients:       # further submissions to A afterwards
            ops += [rand_submit(rng, False, bare=0.0) for _ in range(rng.randint(1, 2))]
        if rng.random() < 0.25:
            clients[0].append("stop")
        n = nw + 1 + nc
        opts = "B cvy" if rng.random() < 0.3 else "B"
        cases.append(make_case(nw, clients, random_sched(rng, n, rng.choice([0, 10, 30, 60, 100])), opts))
    return cases


def gen_aw_race(rng, count):
    """co_await pool(awaitable) on an operation resolved by ANOTHER thread: one client parks coroutines (`ax<n>`, scheduling
    point right after the registration on the awaited future, still inside enqueue_awaiter::await_suspend), another client
    (`res<n>`) or a job (`v<n>`) resolves as soon as the awaiter is registered and thereby submits the coroutine. Half of
    the schedules give the baton to the resolver at that very point. Mostly without stop(), so a lost coroutine shows."""
    cases = []
    for _ in range(count):
        nw = rng.randint(1, 2)
        nslots = rng.randint(1, 3)
        parker = []
        for n in range(nslots):
            if rng.random() < 0.3:
                parker.append(rand_submit(rng, False, bare=0.0))
            p = rng.choice(["", "", "q", "f", "d", "c"])
            parker.append("ax%d" % n + (":" + p if p else ""))
        resolver = []
        for n in rng.sample(range(nslots), nslots):
            if rng.random() < 0.7:
                resolver.append("res%d" % n)
            else:
                resolver.append(rng.choice(["fn", "det", "co"]) + ":v%d" % n)
        clients = [parker, resolver]
        if rng.random() < 0.3:
            clients.append([rand_submit(rng, False, bare=0.0) for _ in range(rng.randint(1, 2))])
        if rng.random() < 0.15:
            clients[rng.randrange(len(clients))].append("stop")
        n = nw + len(clients)
        if rng.random() < 0.5:
            # workers idle, the resolver blocks, then strictly alternate parker / resolver
            sched = [w for w in range(nw) for _ in range(2)] + [nw + 1] + [t for _ in range(4 * nslots + 4) for t in (nw, nw + 1, nw + 1)]
            sched += random_sched(rng, n, rng.choice([0, 20]))
        else:
            sched = random_sched(rng, n, rng.choice([10, 30, 60, 100]))
        cases.append(make_case(nw, clients, sched, "cvy" if rng.random() < 0.2 else ""))
    return cases


def gen_exhaustive(shapes, length):
    """every schedule prefix of `length` entries over the scenario's threads"""
    cases = []
    for nw, clients in shapes:
        n = nw + len(clients)
        for sch in itertools.product(range(n), repeat=length):
            cases.append(make_case(nw, clients, list(sch)))
    return cases


EXH_SHAPES_2T = [
    (1, [["co", "stop"]]), (1, [["fn", "det", "stop"]]), (1, [["det:s", "co"]]), (1, [["fn:s", "fn"]]),
    (1, [["co", "destroy"]]), (1, [["fn", "det:D"]]), (1, [["det", "det:x"]]), (1, [["ra", "stop", "ra"]]),
    (1, [["co:s", "co", "fn"]]), (1, [["rh", "stop"]]), (1, [["aw", "stop", "rh"]]), (1, [["det:d", "stop"]]),
]
EXH_SHAPES_CUR = [
    (1, [["co:cq", "stop"]]), (1, [["co:sc", "detL"]]), (1, [["rh:ac", "curc", "stop"]]), (1, [["detF", "stop", "detG"]]),
]
EXH_SHAPES_AW = [
    (1, [["ax0"], ["res0"]]), (1, [["ax0", "stop"], ["res0"]]), (1, [["ax0:c"], ["det:v0"]]),
]
EXH_SHAPES_3T = [
    (2, [["co", "fn", "stop"]]), (1, [["co", "fn"], ["stop"]]), (2, [["det:s", "det:s"]]), (1, [["stop"], ["stop", "co"]]),
    (2, [["det:w0", "co:e0"]]), (2, [["fn:w0", "det:e0"]]), (2, [["det:f", "destroy"]]), (2, [["fn", "co:D"]]), (2, [["det", "det:x"]]), (1, [["fn:s"], ["stop"]]),
]


def parse(case, out):
    hdr = case["lines"][0].split()
    nw = int(hdr[3])
    nc = sum(1 for l in case["lines"] if l.split()[0] == "c")
    has_b = "B" in hdr[4:]
    info = {"nw": nw, "nt": nw + nc + (1 if has_b else 0), "hasB": has_b, "bw": nw if has_b else None, "b_events": [], "cur_events": [], "function_bad": None, "throws": set(), "parks": [], "closures_live": 0, "jobs": {}, "events": [], "quiescent": False, "crash": None, "assert": None,
            "threads": None, "final": {}, "pool": None, "fin": set(), "ops": [], "last": {}}
    for idx, l in enumerate(out):
        w = l.split()
        if not w:
            continue
        if w[0] == "submit":
            j = int(w[1][1:])
            info["jobs"][j] = {"kind": w[2], "by": int(w[3][1:]), "exit": w[4] == "exit=1", "runs": [], "cancels": [], "values": [], "at": idx}
            info["events"].append(("submit", j, idx))
        elif w[0] == "park":
            info["parks"].append((int(w[1][1:]), int(w[2][1:]), idx))
        elif w[0] == "throw":
            info["throws"].add(int(w[1][1:]))
        elif w[0] in ("run", "cancel", "value", "exc"):
            j = int(w[1][1:])
            t = int(w[2][1:])
            jb = info["jobs"].setdefault(j, {"kind": "?", "by": -1, "exit": False, "runs": [], "cancels": [], "values": [], "at": idx})
            if w[0] == "run":
                jb["runs"].append((t, w[3] == "cur=1", idx))
            elif w[0] == "cancel":
                jb["cancels"].append((t, idx))
            else:
                jb["values"].append((t, idx))
                if w[0] == "exc":
                    jb["excs"] = jb.get("excs", 0) + 1
        elif w[0] in ("stop-begin", "stop-end", "destroy-begin", "destroyed", "destroy-skip"):
            info["events"].append((w[0], int(w[1][1:]), idx))
        elif w[0] in ("stopB-begin", "stopB-end", "destroyB-begin", "destroyedB", "destroyB-skip"):
            info["b_events"].append((w[0], int(w[1][1:]), idx))
        elif w[0] in ("cur-stopped", "cur-enq", "cur-inline"):
            info["cur_events"].append((w[0], int(w[1][1:]), w[2] if len(w) > 2 else None, idx))
        elif w[0] == "closures":
            info["closures_live"] = int(w[1].split("=")[1])
        elif w[0].startswith("function-bad"):
            info["function_bad"] = l
        elif w[0] == "quiescent":
            info["quiescent"] = True
        elif w[0] == "threads":
            info["threads"] = {int(x.split("=")[0]): x.split("=")[1] for x in w[1:]}
        elif w[0] == "job":
            info["final"][int(w[1][1:])] = dict(x.split("=") for x in w[3:])
        elif w[0] == "pool":
            info["pool"] = "destroyed" if w[1] == "destroyed" else dict(x.split("=") for x in w[1:])
        elif w[0] == "crash":
            info["crash"] = l
        elif w[0] == "assert-failed":
            info["assert"] = l
        elif w[0] == "s":
            info["ops"].append(l)
            info["last"][int(w[1])] = w[2:]
            if w[2] == "fin":
                info["events"].append(("fin", int(w[1]), idx))
    return info


class PoolSuite(Suite):
    name = "pool-schedules"
    harness = HARNESS
    driver = "drv_c11"
    corpus_prefix = "c11_"
    chunk = 150
    timeout = 900
    nontrivial_rule = ("the effective interleaving (scenario + sequence of synchronising operations) is new and either a stop()/destructor "
                       "raced with at least one submission or at least two jobs were executed")

    def gen_cases(self, rng, tier):
        if tier == "quick":
            return (with_current_api(rng, with_cv_yield(rng, gen_stop_family(rng, 3000) + gen_destroy_client(rng, 800)
                                    + gen_destroy_job(rng, 800) + gen_idle_family(rng, 600) + gen_dependent_family(rng, 800))
                                    + gen_two_pools(rng, 800)) + gen_exhaustive(EXH_SHAPES_2T[:4] + EXH_SHAPES_CUR, 8)
                    + gen_aw_race(rng, 600) + gen_exhaustive(EXH_SHAPES_AW, 7))
        base = (gen_stop_family(rng, 60000) + gen_destroy_client(rng, 14000) + gen_destroy_job(rng, 14000) + gen_idle_family(rng, 8000)
                + gen_dependent_family(rng, 12000))
        exh = gen_exhaustive(EXH_SHAPES_2T, 12) + gen_exhaustive(EXH_SHAPES_3T, 8)
        exh_cv = [dict(c, lines=[c["lines"][0] + " cvy"] + c["lines"][1:]) for c in gen_exhaustive(EXH_SHAPES_2T[:6], 11)]
        exh += gen_exhaustive(EXH_SHAPES_CUR, 12) + gen_exhaustive(EXH_SHAPES_AW, 10) + gen_aw_race(rng, 10000)
        return with_current_api(rng, with_cv_yield(rng, base) + gen_two_pools(rng, 12000)) + exh + exh_cv

    def normalize(self, lines):
        """the order in which stop() destroys the closures of the swapped-out queue is std::deque's (unspecified; libstdc++
        destroys the full middle nodes first): a run of consecutive `cancel` lines is compared as a set"""
        out, run = [], []
        for l in lines:
            if l.startswith("cancel j"):
                run.append(l)
                continue
            if run:
                out += sorted(run, key=lambda x: int(x.split()[1][1:]))
                run = []
            out.append(l)
        if run:
            out += sorted(run, key=lambda x: int(x.split()[1][1:]))
        return out

    def distinct_key(self, case, out):
        return "|".join(case["lines"][:-2]) + "|" + "|".join(l for l in out if l.startswith("s "))

    def nontrivial(self, case, out):
        stops = any(l.startswith(("stop-begin", "destroy-begin")) for l in out)
        subs = sum(1 for l in out if l.startswith("submit "))
        runs = sum(1 for l in out if l.startswith("run "))
        return (stops and subs >= 1) or runs >= 2

    def oracle(self, case, out):
        """the statement of C11 evaluated on the implementation's trace"""
        i = parse(case, out)
        if i["crash"]:
            return ["crash: the implementation crashed (use after free / double resume): " + i["crash"]]
        if i["assert"]:
            return ["assert: " + i["assert"]]
        msgs = []
        nw = i["nw"]
        begins = [(k, t, idx) for k, t, idx in i["events"] if k in ("stop-begin", "destroy-begin")]
        first_stop = begins[0][2] if begins else None
        # the stop() that took the thread list is the one whose critical section came first (with a contended mutex that need
        # not be the one that was entered first): its critical section ends at the thread's first `unlock mx` after the begin
        def cs_index(t, idx):
            for n in range(idx + 1, len(out)):
                w = out[n].split()
                if len(w) >= 4 and w[0] == "s" and w[1] == str(t) and w[2] == "unlock" and w[3] == "mx":
                    return n
            return len(out) + idx
        first_cs_begin = min(begins, key=lambda b: cs_index(b[1], b[2]))[2] if begins else None
        # 1. never twice, on a worker, cancellation only when the pool is being stopped
        for j, jb in sorted(i["jobs"].items()):
            kd = jb["kind"]
            if len(jb["runs"]) > 1:
                msgs.append("twice: job j%d (%s) was executed %d times" % (j, kd, len(jb["runs"])))
            if len(jb["cancels"]) > 1:
                msgs.append("twice: job j%d (%s) was cancelled %d times" % (j, kd, len(jb["cancels"])))
            if jb["runs"] and jb["cancels"]:
                msgs.append("twice: job j%d (%s) was executed and cancelled" % (j, kd))
            for t, cur, idx in jb["runs"]:
                if t >= nw or not cur:
                    msgs.append("worker: job j%d (%s) ran on thread t%d which is not a worker of the pool" % (j, kd, t))
            for t, idx in jb["cancels"]:
                if first_stop is None or idx < first_stop:
                    msgs.append("spurious-cancel: job j%d (%s) was cancelled although the pool was not being stopped" % (j, kd))
            if len(jb["values"]) > 1:
                msgs.append("twice: the future of job j%d delivered its value %d times" % (j, len(jb["values"])))
            if jb["values"] and not jb["runs"]:
                msgs.append("value: the future of job j%d has a value but the job never ran" % j)
        # 1b. the closure container and the current-pool API
        if i["function_bad"]:
            msgs.append("closure: cocls::function lost or duplicated a target (assignment / move / emptiness): " + i["function_bad"])
        if i["closures_live"] != 0:
            msgs.append("closure: %d run_detached closure object(s) were never destroyed (or destroyed twice) by the pool's "
                        "closure container" % i["closures_live"])
        for k, t, r, idx in i["cur_events"]:
            if t >= nw and k == "cur-stopped" and r != "1":
                msgs.append("current: thread_pool::current::is_stopped() is false on thread t%d which is no worker" % t)
            if t >= nw and k == "cur-enq" and r != "0":
                msgs.append("current: thread_pool::current::any_enqueued() is true on thread t%d which is no worker" % t)
            if t < nw and k == "cur-inline" and (first_stop is None or idx < first_stop):
                msgs.append("current: co_await thread_pool::current() on worker t%d of a running pool did not hand the coroutine "
                            "to the pool" % t)
            if t < nw and k == "cur-stopped" and r == "1" and (first_stop is None or idx < first_stop):
                msgs.append("current: thread_pool::current::is_stopped() is true on worker t%d although the pool was not stopped" % t)
        # 2. stop()/destructor terminate; the first stop joins every other worker; no job is stranded while a worker idles.
        #    A thread blocked in a user-level wait (`flag-block`: a job waiting for another job) is the program's business;
        #    everything else that is blocked at the end of the run must be explained by it.
        user_wait = False
        if i["quiescent"]:
            th = i["threads"] or {}
            blocked = sorted(t for t, s in th.items() if s != "F")
            why = {t: (i["last"].get(t) or ["?"]) for t in blocked}
            user_wait = any(why[t][0] == "flag-block" for t in blocked)
            queued = int(i["pool"].get("queue", 0)) if isinstance(i["pool"], dict) else 0
            sleepers = [t for t in blocked if why[t][:2] == ["cv-block", "cv"]]
            b_begun = any(k in ("stopB-begin", "destroyB-begin") for k, t, idx in i["b_events"])
            bad = []
            for t in blocked:
                op = why[t]
                if op[0] == "flag-block":
                    continue
                if op[:2] == ["cv-block", "cvB"]:
                    if b_begun:
                        bad.append(t)        # B was stopped but its worker still sleeps
                    continue
                if op[0] == "cv-block":
                    if begins:
                        bad.append(t)
                    continue
                if op[0] == "join-block":
                    u = int(op[1][1:])
                    if why.get(u, ["?"])[0] == "flag-block":
                        continue
                bad.append(t)
            if bad and (begins or b_begun):
                msgs.append("deadlock: stop()/destructor did not terminate, threads %s are blocked (%s)" % (
                    blocked, ", ".join("t%d:%s" % (t, " ".join(why[t])) for t in blocked)))
                return msgs
            if bad:
                msgs.append("deadlock: threads %s are blocked although nobody stopped the pool (%s)" % (
                    bad, ", ".join("t%d:%s" % (t, " ".join(why[t])) for t in bad)))
            lost = [t for t in range(nw) if th.get(t) == "F"]
            if not begins and lost:
                msgs.append("worker-lost: worker(s) %s returned from worker() although the pool was never stopped "
                            "(later submissions are never executed)" % lost)
            if not begins and queued > 0 and sleepers:
                msgs.append("forgotten-idle: %d submission(s) sit in the queue while worker(s) %s sleep in the condition wait "
                            "(lost wake-up; a job waiting for them hangs)" % (queued, sleepers))
        open_stops = {}
        finished = set()
        for k, t, idx in i["events"]:
            if k == "fin":
                finished.add(t)
            elif k in ("stop-begin", "destroy-begin"):
                open_stops[t] = idx
            elif k in ("stop-end", "destroyed"):
                is_first = begins and open_stops.get(t) == first_cs_begin
                open_stops.pop(t, None)
                if is_first or k == "destroyed":
                    left = [w for w in range(nw) if w != t and w not in finished]
                    if left:
                        msgs.append("join: %s on t%d returned while workers %s were still running" % ("destructor" if k == "destroyed" else "stop()", t, left))
        if not i["quiescent"]:
            if open_stops:
                msgs.append("stop: stop() of %s never returned" % sorted(open_stops))
        # 3. every submission has exactly one fate; futures are never left pending
        for j, jb in sorted(i["jobs"].items()):
            kd = jb["kind"]
            fate = len(jb["runs"]) + len(jb["cancels"])
            fin = i["final"].get(j, {})
            if user_wait and fate == 0:
                pass        # the program dead-locked itself (a job waits for a job that cannot run); stranded jobs are checked above
            elif fate == 0:
                if not begins:
                    msgs.append("forgotten-idle: job j%d (%s) never ran although the pool was never stopped (lost wake-up)" % (j, kd))
                else:
                    how = "rejected" if jb["exit"] else "swapped-out"
                    msgs.append("forgotten-%s: job j%d (%s, %s by stop) was neither executed nor cancelled%s" % (
                        kd, j, kd, how, "; its future stays pending" if fin.get("fut") == "pending" else ""))
            elif not begins and not jb["runs"]:
                msgs.append("forgotten-idle: job j%d (%s) did not run" % (j, kd))
            if kd in ("fn", "ra") and fate == 1 and not (user_wait and fin.get("fut") == "pending"):
                want = ("exc" if j in i["throws"] else "value") if jb["runs"] else "broken"
                if jb["runs"] and j in i["throws"] and jb.get("excs", 0) != len(jb["values"]):
                    msgs.append("future: job j%d (%s) threw but its future was seen with a value, not with the exception" % (j, kd))
                if jb["runs"] and j not in i["throws"] and jb.get("excs", 0):
                    msgs.append("future: job j%d (%s) did not throw but its future holds an exception" % (j, kd))
                if fin.get("fut") != want:
                    msgs.append("future: job j%d (%s) %s but its future is %s" % (j, kd, "ran" if jb["runs"] else "was cancelled", fin.get("fut")))
                if jb["runs"] and len(jb["values"]) != 1:
                    msgs.append("future: job j%d (%s) ran but its value was observed %d times" % (j, kd, len(jb["values"])))
            if fin and (int(fin.get("ran", 0)) != len(jb["runs"]) or int(fin.get("cancelled", 0)) != len(jb["cancels"])):
                msgs.append("count: job j%d counters %s disagree with the events" % (j, fin))
        return msgs

    def signature(self, case, msg):
        m = re.match(r"forgotten-(\w+):", msg)
        if m:
            return {"suite": self.name, "job_kind": m.group(1), "fate": "dropped", "msg": msg}
        return {"suite": self.name, "msg": msg}

    def stats(self, cases, outs):
        st = {"workers": {}, "clients": {}, "kinds": {}, "fates": {}, "rejected": 0, "swapped_out": 0, "client_stops": 0,
              "job_stops": 0, "self_detach": 0, "concurrent_stops": 0, "destroy_by_client": 0, "destroy_by_job": 0,
              "destroy_by_closure_dtor": 0, "idle_ends": 0, "deadlocks": 0, "nested_submissions": 0, "cv_blocks": 0, "join_blocks": 0, "user_waits_blocked": 0,
              "user_deadlock_ends": 0, "dependent_pairs": 0,
              "cv_entry_yield_cases": 0, "current_is_stopped": 0, "current_any_enqueued": 0, "current_co_await_inline": 0,
              "current_co_await_resubmitted": 0, "current_api_from_non_worker": 0, "closures_large_heap": 0,
              "closures_via_caller_function": 0, "aw_parked": 0, "aw_submitted_by_other_thread": 0, "aw_resolved_at_registration_point": 0, "fn_throwing": 0, "fn_threw_and_reported": 0,
              "fn_void": 0, "fn_large_closure": 0, "lock_blocks": 0, "two_pool_cases": 0, "other_pool_stops": 0, "other_pool_destroys": 0}
        for c in cases:
            o = outs.get(str(c["id"]), [])
            try:
                i = parse(c, o)
            except Exception:
                continue
            st["workers"][str(i["nw"])] = st["workers"].get(str(i["nw"]), 0) + 1
            st["clients"][str(i["nt"] - i["nw"])] = st["clients"].get(str(i["nt"] - i["nw"]), 0) + 1
            begins = [(k, t, idx) for k, t, idx in i["events"] if k in ("stop-begin", "destroy-begin")]
            for j, jb in i["jobs"].items():
                st["kinds"][jb["kind"]] = st["kinds"].get(jb["kind"], 0) + 1
                f = "ran" if jb["runs"] else ("cancelled" if jb["cancels"] else "neither")
                st["fates"][jb["kind"] + ":" + f] = st["fates"].get(jb["kind"] + ":" + f, 0) + 1
                if not jb["runs"]:
                    st["rejected" if jb["exit"] else "swapped_out"] += 1
                if jb["by"] < i["nw"]:
                    st["nested_submissions"] += 1
            for k, t, idx in begins:
                if k == "stop-begin":
                    st["client_stops" if t >= i["nw"] else "job_stops"] += 1
                else:
                    st["destroy_by_client" if t >= i["nw"] else "destroy_by_job"] += 1
            if begins and begins[0][1] < i["nw"]:   # (statistics only: by begin order)
                st["self_detach"] += 1
            open_n = 0
            conc = False
            for k, t, idx in i["events"]:
                if k in ("stop-begin", "destroy-begin"):
                    open_n += 1
                    conc = conc or open_n > 1
                elif k in ("stop-end", "destroyed"):
                    open_n -= 1
            st["concurrent_stops"] += 1 if conc else 0
            st["destroy_by_closure_dtor"] += 1 if any(":" in w and "x" in w.split(":")[1] for l in c["lines"] if l.startswith("c ") for w in l.split()[1:]) and any(k == "destroy-begin" for k, t, idx in begins) else 0
            if i["quiescent"]:
                st["idle_ends" if not begins else "deadlocks"] += 1
            st["cv_blocks"] += sum(1 for l in i["ops"] if "cv-block" in l)
            st["join_blocks"] += sum(1 for l in i["ops"] if "join-block" in l)
            st["current_is_stopped"] += sum(1 for k, t, r, idx in i["cur_events"] if k == "cur-stopped")
            st["current_any_enqueued"] += sum(1 for k, t, r, idx in i["cur_events"] if k == "cur-enq")
            st["current_co_await_inline"] += sum(1 for k, t, r, idx in i["cur_events"] if k == "cur-inline")
            st["current_api_from_non_worker"] += sum(1 for k, t, r, idx in i["cur_events"] if t >= i["nw"])
            st["current_co_await_resubmitted"] += sum(1 for j, jb in i["jobs"].items() if jb["kind"] == "co" and jb["by"] < i["nw"])
            words = [w for l in c["lines"] if l.startswith("c ") for w in l.split()[1:]]
            st["aw_parked"] += len(i["parks"])
            parkers = {t for n, t, idx in i["parks"]}
            st["aw_submitted_by_other_thread"] += sum(1 for j, jb in i["jobs"].items() if jb["kind"] == "aw" and parkers and jb["by"] not in parkers)
            for n, t, idx in i["parks"]:       # the submit of the resolver directly follows the aw-reg op of the parker
                if idx + 2 < len(o) and o[idx + 1].split()[2:3] == ["aw-reg"] and o[idx + 2].startswith("submit ") and " aw " in o[idx + 2]:
                    st["aw_resolved_at_registration_point"] += 1
            fnw = [w.split(":")[0][2:] for w in words if w.startswith("fn")]
            st["fn_throwing"] += sum(1 for f in fnw if "T" in f)
            st["fn_void"] += sum(1 for f in fnw if "V" in f)
            st["fn_large_closure"] += sum(1 for f in fnw if "L" in f)
            st["fn_threw_and_reported"] += sum(1 for j, jb in i["jobs"].items() if j in i["throws"] and jb.get("excs", 0))
            st["closures_large_heap"] += sum(1 for w in words if w.split(":")[0] in ("detL", "detG"))
            st["closures_via_caller_function"] += sum(1 for w in words if w.split(":")[0] in ("detF", "detG"))
            st["cv_entry_yield_cases"] += 1 if "cvy" in c["lines"][0].split()[4:] else 0
            st["lock_blocks"] += sum(1 for l in i["ops"] if "lock-block" in l)
            st["two_pool_cases"] += 1 if i["hasB"] else 0
            st["other_pool_stops"] += sum(1 for k, t, idx in i["b_events"] if k == "stopB-begin")
            st["other_pool_destroys"] += sum(1 for k, t, idx in i["b_events"] if k == "destroyB-begin")
            st["user_waits_blocked"] += sum(1 for l in i["ops"] if "flag-block" in l)
            st["dependent_pairs"] += sum(1 for l in c["lines"] if l.startswith("c ") for w in l.split()[1:] if ":" in w and "w" in w.split(":")[1])
            if i["quiescent"] and any((i["last"].get(t) or ["?"])[0] == "flag-block" for t, s_ in (i["threads"] or {}).items() if s_ != "F"):
                st["user_deadlock_ends"] += 1
        return st


class C11(Spec):
    pid = "C11"
    lean_modules = ["CoclsModel.Props.C11"]
    design_ref = "DESIGN.md §5 C11"
    technique = "Lean 4 invariant proof over all schedules of a micro-step model + step-for-step differential replay on the real header under a baton scheduler"
    level_text = ("Lean 4 theorems over a micro-step model of cocls::thread_pool (one step per critical section on the pool mutex, per join, per closure "
                  "destruction; any number of workers and clients, arbitrary scripts of submissions of every kind, stop() and destruction from clients and from "
                  "jobs, every schedule and every choice of the notified waiter): every closure is invoked once on a worker or destroyed once, a destroyed closure "
                  "cancels observably (coroutine resumed with the exception / future broken), nothing is pending at quiescence, stop() terminates for every timing "
                  "including self-stop and concurrent stops, a self-detached worker never touches the pool again, no submission is queued while a worker sleeps in the condition wait (also when jobs block waiting for other jobs), the entry of _cond.wait (predicate evaluated, mutex held, not yet registered) is a step of its own with the pool mutex modelled, and a worker of pool A that stops or destroys another pool instance B stays a worker of A. The model (including which worker takes which job) "
                  "is tied to thread_pool.h by replaying generated and exhaustively enumerated schedules on the unmodified header and diffing every line.")
    level_note = ("trusted: Lean kernel; hand-written model lean/CoclsModel/ThreadPool.lean; baton shim (std::mutex/condition_variable/thread interposed, optional scheduling point at the entry of the pool's _cond.wait, FIFO "
                  "notify_one, no spurious wake-ups; the theorems allow any waiter to be notified); std::atomic is left real in this harness (future/promise internals "
                  "are C01/C02). Bare-handle submissions (resume(suspend_point), pool(awaitable)) have no cancellation channel: open finding, excluded from the outcome theorem.")
    trusted_base = ["model lean/CoclsModel/ThreadPool.lean tied to thread_pool.h by step-for-step replay (harness/h_pool.cpp, shim/verif_shim.h) against lean/Drivers/C11.lean",
                    "C++20 coroutine machinery, std::queue/std::vector and libstdc++ as specified; promise/future layer (C01/C02)"]
    assumptions = ["the pool has at least one worker", "the pool is not destroyed while another thread is inside one of its methods (including a stop() running in a job)",
                   "condition variable without spurious wake-ups",
                   "the optional second pool instance B never receives a submission (it is only stopped / destroyed, by clients and by jobs of A); destroying it overlaps no other call on it",
                   "with the scheduling point at the entry of _cond.wait (cvy) a cancelled party calling is_stopped() is not generated (its lock contention is not modelled)",
                   "_queue/_exit/_threads are only accessed inside critical sections on _mx (C03's lock table), so a critical section is one atomic step",
                   "job bodies of the harness do nothing but stop(), nested run()/run_detached(), deleting the pool, waiting for / signalling an event; a cancelled party at most calls is_stopped()",
                   "quiescence theorems (outcome, futures, termination) assume no thread is blocked in a wait of the program itself (a job waiting for a job that can never run); "
                   "c11_no_stranded_job / c11_stop_blocked_only_by_user_waits say what holds without that assumption"]

    def suites(self):
        return [PoolSuite()]


SPEC = C11()
