"""C20 — the core synchronisation primitives never allocate."""
import collections
import hashlib
import os
import re
from vlib import core
from vlib.runner import Spec, Suite

HARNESS = ("h_alloc", ["h_alloc.cpp"], {})

INLINE = 3          # "carrying up to three ready coroutines in a suspend point" (property statement)
MAXID = 160
KINDS = "ved"
BIND_SIZES = [4, 32, 48, 64, 200]
GS_MODES = "nnnfbr"    # next() / the future / begin() / a whole range-for pass

EV_RE = re.compile(r"^([af]):([a-z-]+)([+-])(\d+)$")
CAUGHT_RE = re.compile(r"^(c\d+|m):caught$")


def parse_line(line):
    """'op head words ; tok tok' -> (op, [head words], [tokens])"""
    left, _, right = line.partition(" ; ")
    w = left.split()
    return (w[0] if w else ""), w[1:], right.split()


def events(toks):
    """allocation events among the tokens: (kind 'a'|'f', category, n, index)"""
    out = []
    for k, t in enumerate(toks):
        m = EV_RE.match(t)
        if m:
            out.append((m.group(1), m.group(2), int(m.group(4)), k))
    return out


# ---------------------------------------------------------------------------------------------------
# generators of core programs
# ---------------------------------------------------------------------------------------------------

class Builder:
    """book-keeping that keeps generated programs free of circular waits (so that `end` can always drain them)"""

    def __init__(self, rng, heap_p=0.6):
        self.rng = rng
        self.lines = []
        self.heap_p = heap_p
        self.nco = 0
        self.futs = []          # plain futures (scripts may await / resolve them)
        self.bound = []         # futures bound to an already created coroutine (awaitable by later coroutines)
        self.bindable = []      # created, not yet bound
        self.mainonly = []      # futures no script refers to (may be destroyed by `del`)
        self.parkers = []       # coroutines whose script contains a park
        self.sgens = []         # generators scripts may step (never destroyed before `end`)
        self.mgens = []         # generators only ordinary code touches
        self.nfut = 0
        self.ngen = 0

    def new_fut(self, pool):
        i = self.nfut
        self.nfut += 1
        self.lines.append("fut %d" % i)
        pool.append(i)
        return i

    def new_gen(self, pool, n=None):
        g = self.ngen
        self.ngen += 1
        self.lines.append("gen %d %s %d" % (g, self.storage(), self.rng.randint(0, 5) if n is None else n))
        pool.append(g)
        return g

    def storage(self):
        return "H" if self.rng.random() < self.heap_p else "N"

    def script(self, maxlen=6):
        rng = self.rng
        n = rng.randint(0, maxlen)
        acts, held = [], []
        parks = False
        for _ in range(n):
            r = rng.random()
            if r < 0.30 and (self.futs or (self.bound and not held)):
                pool = list(self.futs) + ([] if held else list(self.bound))
                acts.append("a%d" % rng.choice(pool))
            elif r < 0.48 and (self.futs or self.bindable):
                i = rng.choice(self.futs + self.bindable)
                acts.append("%s%d%s" % (rng.choice("rR"), i, rng.choice(KINDS)))
            elif r < 0.62:
                cand = [m for m in (0, 1) if not held or m > max(held)]
                if cand:
                    m = rng.choice(cand)
                    held.append(m)
                    acts.append("l%d" % m)
            elif r < 0.74 and held:
                m = rng.choice(held)
                held.remove(m)
                acts.append("%s%d" % (rng.choice("uU"), m))
            elif r < 0.84:
                acts.append("p")
                parks = True
            elif r < 0.92:
                acts.append("y")
            elif self.sgens:
                acts.append("%s%d" % (rng.choice("gG"), rng.choice(self.sgens)))
        # mostly give the locks back explicitly (the rest is released by the destructor of the ownership)
        for m in list(held):
            if rng.random() < 0.7:
                acts.append("%s%d" % (rng.choice("uU"), m))
        return acts, parks

    def co(self, acts, bind=None, storage=None, parks=False):
        j = self.nco
        self.nco += 1
        self.lines.append("co %d %s %s %s" % (j, storage or self.storage(), "-" if bind is None else bind,
                                             ",".join(acts) if acts else "-"))
        if parks or "p" in acts:
            self.parkers.append(j)
        return j

    def case(self, vt=None, thr="m"):
        vt = vt or self.rng.choice("iiib")
        return {"id": 0, "lines": ["case 0 alloc %s %s" % (vt, thr)] + self.lines + ["end"]}


def gen_random(rng, heap_p=0.6, nops=None, small=False):
    b = Builder(rng, heap_p)
    for _ in range(rng.randint(1, 4)):
        b.new_fut(b.futs)
    for _ in range(rng.randint(0, 2)):
        b.new_fut(b.bindable)
    for _ in range(rng.randint(0, 2)):
        b.new_fut(b.mainonly)
    for _ in range(rng.randint(0, 2)):
        b.new_gen(b.sgens)
    n = nops if nops is not None else rng.randint(6, 40)
    for _ in range(n):
        r = rng.random()
        if r < 0.30 and b.nco < (6 if small else 40):
            acts, parks = b.script(4 if small else 6)
            bind = None
            if b.bindable and rng.random() < 0.3:
                bind = b.bindable.pop(rng.randrange(len(b.bindable)))
            b.co(acts, bind, parks=parks)
            if bind is not None:
                b.bound.append(bind)
        elif r < 0.45:
            pool = b.futs + b.mainonly + b.bindable
            if pool:
                b.lines.append("res %d %s" % (rng.choice(pool), rng.choice("vvedx")))
        elif r < 0.52:
            pool = b.futs + b.mainonly + b.bound
            if pool:
                b.lines.append("%s %d" % (rng.choice(["cb", "bs", "bt"]), rng.choice(pool)))
        elif r < 0.57:
            pool = b.futs + b.mainonly + b.bound
            if pool:
                b.lines.append("bw %d" % rng.choice(pool))
        elif r < 0.59:
            if b.mainonly:
                b.lines.append("del %d" % rng.choice(b.mainonly))
        elif r < 0.60:
            pool = b.futs + b.mainonly + b.bindable
            if pool:
                i = rng.choice(pool)
                b.lines.append(rng.choice(["bd %d %d" % (i, rng.choice(BIND_SIZES)), "bi %d" % i, "bi %d" % i, "bx %d" % i]))
        elif r < 0.68:
            b.lines.append("%s %d" % (rng.choice(["tl", "ul"]), rng.randint(0, 1)))
        elif r < 0.78:
            if b.parkers:
                b.lines.append("sa %d %d" % (rng.randint(0, 1), rng.choice(b.parkers)))
        elif r < 0.82:
            b.lines.append("%s %d" % (rng.choice(["sp", "sf"]), rng.randint(0, 1)))
        elif r < 0.84:
            if rng.random() < 0.5 and b.futs:
                b.lines.append("rm %d %d %s" % (rng.randint(0, 1), rng.choice(b.futs + b.mainonly), rng.choice(KINDS)))
            else:
                b.lines.append("%s %d %d" % (rng.choice(["sm", "sg"]), rng.randint(0, 1), rng.randint(0, 1)))
        elif r < 0.88:
            if rng.random() < 0.5:
                b.new_gen(b.mgens)
            else:
                b.new_fut(rng.choice([b.futs, b.bindable, b.mainonly]))
        elif r < 0.96:
            pool = b.sgens + b.mgens
            if pool:
                b.lines.append("gs %d %s" % (rng.choice(pool), rng.choice(GS_MODES)))
        else:
            if b.mgens:
                b.lines.append("gd %d" % rng.choice(b.mgens))
    return b.case()


def gen_waiters(rng, k=None, thr="m"):
    """k coroutine waiters (+ callback / blocking-thread awaiters) on one future, resolved in one of four ways"""
    b = Builder(rng, rng.choice([0.0, 0.5, 1.0]))
    f = b.new_fut(b.futs)
    if k is None:
        k = rng.choice([0, 1, 2, 3, 3, 4, 4, 5, 6, 7, 8, 12, 13, 14, rng.randint(15, 40)])
    how = rng.choice(["main", "main", "relay", "relayAw", "bound"])
    trig = None
    if how == "bound":
        trig = b.new_fut(b.futs)
        b.lines.pop()
        b.lines.insert(0, "fut %d" % trig)
        # the future the waiters wait for is bound to a coroutine that finishes when `trig` is resolved
        b.lines.append("co %d %s %d a%d" % (b.nco, b.storage(), f, trig))
        b.nco += 1
    elif how != "main":
        trig = b.new_fut(b.futs)
        b.co(["a%d" % trig, "%s%d%s" % ("r" if how == "relay" else "R", f, rng.choice(KINDS))])
    for _ in range(k):
        tail = []
        if rng.random() < 0.2:
            tail = [rng.choice(["y", "p", "a%d" % f])]
        b.co(["a%d" % f] + tail)
        if rng.random() < 0.15:
            b.lines.append("cb %d" % f)
        if rng.random() < 0.1:
            b.lines.append("%s %d" % (rng.choice(["bs", "bt"]), f))
    if how == "main":
        b.lines.append("res %d %s" % (f, rng.choice("vvedx")))
    else:
        b.lines.append("res %d v" % trig)
    if rng.random() < 0.5:
        b.lines.append("bw %d" % f)
    if rng.random() < 0.3:
        b.lines.append("res %d v" % f)
    return b.case(thr=thr)


def gen_mutex(rng):
    """k contenders on one mutex, hand-over by every means"""
    b = Builder(rng, rng.choice([0.0, 0.6, 1.0]))
    f = b.new_fut(b.futs)
    main_first = rng.random() < 0.4
    if main_first:
        b.lines.append("tl 0")
    k = rng.randint(1, 8)
    for n in range(k):
        inside = rng.choice([[], ["p"], ["a%d" % f], ["y"], ["l1", "u1"], ["l1", "p", "U1"]])
        rel = rng.choice([["u0"], ["U0"], []])
        b.co(["l0"] + inside + rel + rng.choice([[], ["y"], ["l0", "u0"]]))
        if rng.random() < 0.2:
            b.lines.append("tl %d" % rng.randint(0, 1))
    ops = []
    if main_first:
        ops.append("ul 0")
    ops += ["res %d v" % f] + ["sa 0 %d" % j for j in b.parkers] + ["sf 0", "tl 0", "tl 1", "ul 0", "ul 1"]
    rng.shuffle(ops)
    b.lines += ops[:rng.randint(1, len(ops))]
    return b.case()


def gen_sp(rng):
    """parked coroutines carried by the two suspend point objects"""
    b = Builder(rng, rng.choice([0.0, 0.6, 1.0]))
    n = rng.choice([0, 1, 2, 3, 3, 3, 4, 4, 5, 6, 7, 9, 13])
    for _ in range(n):
        b.co(["p"] + rng.choice([[], [], ["p"], ["y"], ["p", "p"]]))
    for _ in range(rng.randint(2, 2 * n + 6)):
        r = rng.random()
        if r < 0.6 and b.parkers:
            b.lines.append("sa %d %d" % (rng.choice([0, 0, 1]), rng.choice(b.parkers)))
        elif r < 0.72:
            b.lines.append("sp %d" % rng.choice([0, 0, 1]))
        elif r < 0.86:
            b.lines.append("%s %d %d" % (rng.choice(["sm", "sg"]), rng.randint(0, 1), rng.randint(0, 1)))
        else:
            b.lines.append("sf %d" % rng.choice([0, 0, 1]))
    return b.case()


def gen_bind(rng, thr="m"):
    """promise::bind: the promise and a value of 4..200 bytes move into a callable; the callable is invoked (on the same
    thread, also with a real thread blocked in sync() on the future), invoked twice, destroyed unused, or left to `end`"""
    b = Builder(rng, rng.choice([0.0, 0.6, 1.0]))
    ops = []
    for _ in range(rng.randint(1, 3)):
        f = b.new_fut(b.futs)
        pre = []
        for _ in range(rng.choice([0, 0, 1, 1, 2, 3, 4])):
            kind = rng.random()
            if kind < 0.5:
                acts = ["a%d" % f] + rng.choice([[], [], ["y"], ["p"]])
                pre.append("co %d %s - %s" % (b.nco, b.storage(), ",".join(acts)))
                b.nco += 1
            elif kind < 0.65:
                pre.append("cb %d" % f)
            elif kind < 0.8:
                pre.append("bs %d" % f)
            else:
                pre.append("bt %d" % f)
        bind = "bd %d %d" % (f, rng.choice(BIND_SIZES))
        pos = rng.randint(0, len(pre))
        seq = pre[:pos] + [bind] + pre[pos:]
        r = rng.random()
        if r < 0.55:
            seq.append("bi %d" % f)
            if rng.random() < 0.3:
                seq.append("bi %d" % f)
            if rng.random() < 0.5:
                seq.append("bx %d" % f)
        elif r < 0.8:
            seq.append("bx %d" % f)
        if rng.random() < 0.3:
            seq.insert(rng.randint(0, len(seq)), "res %d %s" % (f, rng.choice("vedx")))
        if rng.random() < 0.5:
            seq.append("bw %d" % f)
        if rng.random() < 0.2:
            seq.append("bd %d %d" % (f, rng.choice(BIND_SIZES)))
        ops.append(seq)
    # interleave the per-future sequences, keeping each one's order
    while ops:
        seq = rng.choice(ops)
        b.lines.append(seq.pop(0))
        if not seq:
            ops.remove(seq)
    return b.case(thr=thr)


def gen_merge(rng):
    """whole suspend points merged into each other: results of resolutions (0..5 released coroutines each) and the two
    suspend point objects, by `<<` and by move-assignment; totals of exactly three handles are frequent"""
    b = Builder(rng, rng.choice([0.0, 0.6, 1.0]))
    nf = rng.randint(1, 4)
    waiters = {}
    for _ in range(nf):
        f = b.new_fut(b.futs)
        waiters[f] = rng.choice([0, 1, 1, 2, 2, 2, 3, 3, 4, 5])
    for f, k in waiters.items():
        for _ in range(k):
            b.co(["a%d" % f] + rng.choice([[], [], ["p"], ["y"]]))
        if rng.random() < 0.2:
            b.lines.append("%s %d" % (rng.choice(["cb", "bs"]), f))
    for _ in range(rng.randint(0, 3)):
        b.co(["p"])
    ops = ["rm %d %d %s" % (rng.choice([0, 0, 1]), f, rng.choice(KINDS)) for f in waiters]
    ops += ["sa %d %d" % (rng.choice([0, 0, 1]), j) for j in b.parkers if rng.random() < 0.7]
    rng.shuffle(ops)
    out = []
    for o in ops:
        out.append(o)
        r = rng.random()
        if r < 0.35:
            out.append("%s %d %d" % (rng.choice(["sm", "sg"]), rng.randint(0, 1), rng.randint(0, 1)))
        elif r < 0.45:
            out.append("%s %d" % (rng.choice(["sp", "sf"]), rng.randint(0, 1)))
    for _ in range(rng.randint(0, 3)):
        out.append(rng.choice(["sm 0 1", "sm 1 0", "sg 0 1", "sg 1 0", "sf 0", "sf 1", "sp 0", "sp 1"]))
    b.lines += out
    return b.case()


def gen_generator(rng):
    """synchronous generators stepped in every spelling (next(), the future, begin(), a whole range-for pass), from ordinary code
    and from coroutines, well past their end: a finished generator is stepped, polled and iterated again"""
    b = Builder(rng, rng.choice([0.0, 0.6, 1.0]))
    for _ in range(rng.randint(1, 3)):
        b.new_gen(b.sgens)
    for _ in range(rng.randint(0, 2)):
        b.new_gen(b.mgens)
    for _ in range(rng.randint(3, 20)):
        r = rng.random()
        if r < 0.6:
            g = rng.choice(b.sgens + b.mgens)
            b.lines.append("gs %d %s" % (g, rng.choice(GS_MODES)))
            if rng.random() < 0.25:
                # the history after the end: a second pass, begin() on the finished generator, extra polls
                b.lines.append("gs %d r" % g)
                for _ in range(rng.randint(1, 4)):
                    b.lines.append("gs %d %s" % (g, rng.choice("nbrf")))
        elif r < 0.8:
            b.co([rng.choice("gG") + str(rng.choice(b.sgens)) for _ in range(rng.randint(1, 5))])
        elif r < 0.9 and b.mgens:
            b.lines.append("gd %d" % rng.choice(b.mgens))
        else:
            b.new_gen(b.mgens)
    return b.case()


def gen_rq(rng, which=None):
    """programs that make the thread-local ready queue allocate (the listed finding)"""
    which = which or rng.choice(["pause", "relay", "fresh", "fresh-waiters", "bigmap"])
    if which == "fresh":
        c = gen_random(rng, nops=rng.randint(4, 14), small=True)
        c["lines"][0] = c["lines"][0][:-1] + "f"
        return c
    if which == "fresh-waiters":
        return gen_waiters(rng, rng.randint(1, 5), thr="f")
    b = Builder(rng, rng.choice([0.0, 1.0]))
    if which == "pause":
        # one coroutine pausing 60..140 times: every pause is an enqueue
        n = rng.randint(60, 140)
        b.co(["y"] * n)
        if rng.random() < 0.5:
            b.co(["y"] * rng.randint(1, 70))
    elif which == "relay":
        # 64..90 waiters released from inside a coroutine: all of them are queued at once
        f = b.new_fut(b.futs)
        t = b.new_fut(b.futs)
        b.co(["a%d" % t, "%s%d%s" % (rng.choice("rR"), f, rng.choice(KINDS))])
        for _ in range(rng.randint(60, 90)):
            b.co(["a%d" % f])
        b.lines.append("res %d v" % t)
    else:
        # several hundred enqueues while many handles stay queued: the deque's map has to move / grow
        f = b.new_fut(b.futs)
        t = b.new_fut(b.futs)
        n = rng.randint(100, 150)
        b.co(["a%d" % t, "r%d%s" % (f, "v")])
        for _ in range(n):
            b.co(["a%d" % f] + ["y"] * rng.randint(2, 5))
        b.lines.append("res %d v" % t)
    return b.case()


def gen_noheap(rng):
    """only non-heap frames, few waiters: the statement promises no allocation at all"""
    c = gen_random(rng, heap_p=0.0, nops=rng.randint(5, 25), small=True)
    return c


class AllocSuite(Suite):
    name = "core-programs"
    harness = HARNESS
    driver = "drv_c20"
    corpus_prefix = "c20_"
    chunk = 25
    nontrivial_rule = "the program executed at least one coroutine action or produced at least one allocation event"
    suppress = frozenset()   # categories not reported by the oracle (set during the search for an input that explains a broken obligation)

    # ---- the model's prediction of the ready-queue allocations, per operation -------------------------------
    # The listed finding is *what libstdc++'s deque does for the traffic the program causes*: map + first node on a thread's
    # first use, one node per 64 enqueues, map re-allocation — exactly what the Lean model (Rq in Alloc.lean) predicts, op by op.
    # A ready-queue allocation the model does not predict is not that finding.

    def __init__(self):
        self._gen = []
        self._pred = {}
        self._batched = False

    @staticmethod
    def _key(case):
        txt = "\n".join([" ".join(case["lines"][0].split()[2:])] + case["lines"][1:])
        return hashlib.md5(txt.encode()).digest()

    def _run_driver(self, cases):
        exe = core.driver_exe(self.driver)
        if not os.path.exists(exe) or not cases:
            return
        cs = core.renumber([{"id": 0, "lines": list(c["lines"])} for c in cases])
        res = core.run_cases(exe, cs, chunk=200, timeout=self.timeout)
        none = {}
        for c0, c in zip(cases, cs):
            r = res.get(str(c["id"]))
            if not r or r["rc"] != 0:
                continue
            pred = none
            for n, l in enumerate(r["out"]):
                if "a:ready-queue-node" in l:
                    if pred is none:
                        pred = {}
                    pred[n] = [e[2] for e in events(parse_line(l)[2]) if e[0] == "a" and e[1] == "ready-queue-node"]
            self._pred[self._key(c0)] = pred

    def predicted(self, case):
        """{output line index: sizes of the ready-queue allocations the model predicts there}; None = no prediction available"""
        k = self._key(case)
        if k not in self._pred and not self._batched:
            self._batched = True
            self._run_driver((core.load_corpus(self.corpus_prefix) if self.corpus_prefix else []) + self._gen)
        if k not in self._pred:
            self._run_driver([case])
        return self._pred.get(k)

    def gen_cases(self, rng, tier):
        cases = self._gen_cases(rng, tier)
        self._gen = cases
        self._batched = False
        return cases

    def _gen_cases(self, rng, tier):
        quick = tier == "quick"
        n = 4000 if quick else 300000
        cases = []
        # the listed finding is exercised on every run, by each of its triggers
        for w in ["pause", "relay", "fresh", "fresh-waiters", "bigmap"]:
            cases.append(gen_rq(rng, w))
        for i in range(n):
            r = rng.random()
            if r < 0.40:
                c = gen_random(rng, nops=None if quick or rng.random() < 0.85 else rng.randint(40, 120))
            elif r < 0.55:
                c = gen_waiters(rng)
            elif r < 0.67:
                c = gen_mutex(rng)
            elif r < 0.74:
                c = gen_sp(rng)
            elif r < 0.77:
                c = gen_merge(rng)
            elif r < 0.79:
                c = gen_bind(rng)
            elif r < 0.86:
                c = gen_generator(rng)
            elif r < 0.97:
                c = gen_noheap(rng)
            else:
                c = gen_rq(rng)
            cases.append(c)
        return cases

    def nontrivial(self, case, out):
        return any(" ; " in l for l in out)

    def signature(self, case, msg):
        return {"suite": self.name, "alloc_category": msg.split(":")[0]}

    def stats(self, cases, outs):
        ops, cats = {}, {}
        acts = {}
        silent = fresh = big = rqcases = 0
        gs_modes, past_end, caught = {}, 0, 0
        max_n = 0
        for c in cases:
            hdr = c["lines"][0].split()
            if len(hdr) > 4 and hdr[4] == "f":
                fresh += 1
            if len(hdr) > 3 and hdr[3] == "b":
                big += 1
            for l in c["lines"][1:-1]:
                w = l.split()
                ops[w[0]] = ops.get(w[0], 0) + 1
                if w[0] == "gs" and len(w) > 2:
                    gs_modes[w[2]] = gs_modes.get(w[2], 0) + 1
                if w[0] == "co" and len(w) > 4 and w[4] != "-":
                    for a in w[4].split(","):
                        acts[a[0]] = acts.get(a[0], 0) + 1
            o = outs.get(str(c["id"]), [])
            any_ev = False
            rq = False
            finished = set()
            for op, l in zip(c["lines"][1:], o):
                w = op.split()
                if w[0] == "gs" and len(w) > 2:
                    hd = l.split(" ; ")[0].split()
                    if w[1] in finished and len(hd) > 1 and hd[1] in ("done", "items=0"):
                        past_end += 1
                    if len(hd) > 1 and (hd[1] == "done" or hd[1].startswith("items=")):
                        finished.add(w[1])
                elif w[0] in ("gd", "gen"):
                    finished.discard(w[1])
            for l in o:
                _, head, toks = parse_line(l)
                caught += sum(1 for t in toks if CAUGHT_RE.match(t))
                for h in head:
                    if h.startswith("n=") and h[2:].isdigit():
                        max_n = max(max_n, int(h[2:]))
                for k, cat, n, _ in events(toks):
                    any_ev = True
                    key = ("alloc " if k == "a" else "free ") + cat
                    cats[key] = cats.get(key, 0) + 1
                    rq = rq or cat == "ready-queue-node"
            if not any_ev:
                silent += 1
            if rq:
                rqcases += 1
        return {"ops": ops, "script_actions": acts, "events": cats, "programs_without_any_event": silent,
                "programs_hitting_the_ready_queue_finding": rqcases, "fresh_thread_programs": fresh,
                "big_value_type_programs": big, "max_handles_in_one_suspend_point": max_n,
                "generator_steps_by_spelling": gs_modes, "steps_of_an_already_finished_generator": past_end,
                "exceptions_delivered_to_user_code": caught}

    def oracle(self, case, out):
        """C20 evaluated on the implementation's trace: the only allocations are one frame per coroutine / generator created with a
        heap frame, and handle arrays of suspend points that already hold three handles (i.e. are about to carry more than three)"""
        msgs = []
        ops = case["lines"][1:]
        pred = None
        if any("a:ready-queue-node" in l for l in out):
            pred = self.predicted(case)
        for ln, (op, line) in enumerate(zip(ops, out)):
            w = op.split()
            name, head, toks = parse_line(line)
            evs = events(toks)
            allocs = [e for e in evs if e[0] == "a"]
            # an exception object is the caller's only when the library threw it TO user code, i.e. the very next thing the
            # trace shows is that user code catching it (`c<j>:caught` / `m:caught`); everything else the library threw and
            # swallowed on its own (or let escape from an operation that has no error to report)
            delivered = set(k for k, t in enumerate(toks[:-1]) if t == "a:exception+1" and CAUGHT_RE.match(toks[k + 1]))
            first_c = next((k for k, t in enumerate(toks) if t[0] == "c" and not t.startswith("cb")), len(toks))
            heap_create = w[0] in ("co", "gen") and len(w) > 2 and w[2] == "H" and head and head[0] != "skip"
            frames = [e for e in allocs if e[1] == "frame"]
            # ready-queue allocations the model predicts for this operation (the listed finding); None: no prediction
            # available (driver not built) -> nothing is called "extra"
            budget = collections.Counter(pred.get(ln, [])) if pred is not None else None
            for e in allocs:
                cat, n = e[1], e[2]
                if cat == "ready-queue-node" and budget is not None:
                    if budget[n] > 0:
                        budget[n] -= 1
                    else:
                        cat = "ready-queue-extra"
                if cat in self.suppress:
                    continue
                if cat == "ready-queue-extra":
                    msgs.append("ready-queue-extra: the thread-local ready queue of coro_queue allocated %d bytes during `%s` "
                                "although its traffic (first use of the thread, 64th enqueue, map growth) does not call for it" % (n, op))
                elif cat == "ready-queue-node":
                    msgs.append("ready-queue-node: the thread-local ready queue of coro_queue allocated %d bytes during `%s`" % (n, op))
                elif cat == "resolve-suspend-point-growth":
                    # the second listed finding — but only a resolution that really releases more than INLINE coroutines explains it
                    if n < 2 * INLINE:
                        msgs.append("growth: the suspend point of a resolution allocated a handle array of %d cells, i.e. while holding only %d "
                                    "handles (up to %d must be carried without allocation), during `%s`" % (n, n // 2, INLINE, op))
                    else:
                        msgs.append("resolve-suspend-point-growth: resolving a future with more than %d coroutine waiters allocated a handle "
                                    "array of %d cells during `%s`" % (INLINE, n, op))
                elif cat == "exception":
                    if e[3] not in delivered:
                        msgs.append("exception: library code threw an exception that no user code received during `%s` (thrown and "
                                    "caught inside the library): the exception object is allocated by __cxa_allocate_exception" % op)
                elif cat == "malloc":
                    msgs.append("malloc: %d bytes allocated by a direct call of malloc/calloc/realloc during `%s`" % (n, op))
                elif cat == "frame":
                    if not heap_create:
                        msgs.append("frame: a coroutine frame was allocated by `%s`, which creates no heap-frame coroutine" % op)
                elif cat == "growth":
                    if n < 2 * INLINE:
                        msgs.append("growth: a suspend point allocated a handle array of %d cells, i.e. while holding only %d "
                                    "handles (up to %d must be carried without allocation), during `%s`" % (n, n // 2, INLINE, op))
                    else:
                        carried = next((int(h[2:]) for h in head if h.startswith("n=") and h[2:].isdigit()), None)
                        if carried is not None and w[0] in ("res", "ul", "sa", "rm", "sm", "sg") and e[3] < first_c and carried <= INLINE:
                            msgs.append("growth: a suspend point carrying %d <= %d handles allocated %d cells during `%s`"
                                        % (carried, INLINE, n, op))
                else:
                    msgs.append("other: %d bytes allocated by the library during `%s`" % (n, op))
            if heap_create and len(frames) != 1:
                msgs.append("frame: `%s` allocated %d frames" % (op, len(frames)))
            if w[0] in ("co", "gen") and len(w) > 2 and w[2] == "N" and frames:
                msgs.append("frame: `%s` (non-heap storage policy) allocated a frame on the heap" % op)
        return msgs


class C20(Spec):
    pid = "C20"
    lean_modules = ["CoclsModel.Props.C20"]
    extract = True
    design_ref = "DESIGN.md §5 C20"
    technique = ("Lean 4 invariant proof over an executable allocation-event model (induction over all programs) + decidable whitelist "
                 "over the allocation-site table (new / containers / function / shared_ptr, and throw / rethrow_exception / catch) "
                 "extracted from clang's AST + differential correspondence with the real headers under replaced operator new/delete, "
                 "interposed __cxa_allocate_exception / __cxa_allocate_dependent_exception and ASan's malloc hook")
    level_text = ("Lean 4 theorems over an executable single-thread model of core programs (future/promise with coroutine, callback and "
                  "blocking-thread awaiters, coroutine mutex, suspend points, synchronous generators, scripted coroutines with heap / "
                  "non-heap frames, the thread's ready queue): every logged allocation is a frame of a heap-frame creation, a handle array "
                  "of a suspend point holding at least inline_count handles, or a block of the thread-local ready queue (the listed "
                  "finding), or the exception object handed to user code that reads a future without a value (the caller's; the model "
                  "has no exception thrown and swallowed inside the library, stepping an exhausted generator any number of times in any "
                  "spelling leaves no trace: c20_exhausted_generator_silent); none at all without heap frames, beyond-inline suspend "
                  "points, ready-queue growth and such reads. `decide` obligations over the extracted allocation-site table (incl. the "
                  "exact list of throw / rethrow / catch sites) and constants. The model is tied to the headers by running both on "
                  "generated programs and diffing every line (executed actions and allocation events, counted by replaced operator "
                  "new/delete, a tagging allocator on the ready queue's deque, strong definitions of __cxa_allocate_exception / "
                  "__cxa_allocate_dependent_exception forwarding with dlsym(RTLD_NEXT), and __sanitizer_malloc_hook for direct malloc)")
    level_note = ("trusted: Lean kernel (axioms propext/Classical.choice/Quot.sound at most), the hand-written model, the extractor "
                  "(clang AST -> allocation-capable constructs), the differential harness (sampling; allocation = operator new/new[], "
                  "the deque's allocator, the C++ runtime's exception allocation; malloc called directly is observed on the main thread "
                  "only, releases of exception objects are not observed), "
                  "the C++20 coroutine machinery and libstdc++'s std::deque growth policy as modelled")
    trusted_base = ["hand-written model lean/CoclsModel/Alloc.lean tied to the headers by differential correspondence "
                    "(harness/h_alloc.cpp vs lean/Drivers/C20.lean) on generated core programs",
                    "extract/ (clang-14 AST) reports every allocation-capable construct of the core headers",
                    "replaced global operator new/delete + tagging allocator + interposed __cxa_allocate_exception / "
                    "__cxa_allocate_dependent_exception + ASan's __sanitizer_malloc_hook (main thread) observe every dynamic allocation "
                    "of the library",
                    "libstdc++ std::deque node/map policy as modelled (Rq in Alloc.lean)"]
    assumptions = ["value types whose construction does not allocate (int, a 64-byte POD)",
                   "one thread at a time runs the program (a fresh thread per program where stated)",
                   "exceptions used to resolve promises are created by the user outside the measured operations",
                   "an exception by which the library reports to user code that the future it reads holds no value is the caller's "
                   "allocation (the trace shows the user code catching it); every other exception object is the library's"]

    def suites(self):
        return [AllocSuite()]

    def search(self, ctx):
        """a proof obligation or the correspondence broke and no input explains it yet: the runner's generic search (thorough
        budget, oracles on) follows. Allocations that are a listed open finding were reported already; they do not explain
        the breakage, so the oracle stops reporting them for the search."""
        AllocSuite.suppress = frozenset(k["match"]["alloc_category"] for k in core.known_findings(self.pid)
                                        if "alloc_category" in k.get("match", {}))
        return []

    def table_obligations(self):
        return ["Cocls.C20.c20_alloc_sites", "Cocls.C20.c20_throw_sites", "Cocls.C20.c20_inline_count"]


SPEC = C20()
