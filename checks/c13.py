"""C13 — generator: the consumer sees exactly the yielded sequence, in every access style."""
import atexit
import os
import re
import tempfile
from vlib.runner import Spec, Suite

HARNESS = ("h_generator", ["h_generator.cpp"], {})
HARNESS_T = ("h_generator_t", ["h_generator_t.cpp"], {"extra_flags": ["-fno-access-control", "-I/verif/harness/shim"]})

ACCESS = ("next", "nnext", "anext", "call", "begin", "beginc", "inc", "pinc", "for", "while", "sub", "subr")
REJECT = ("busy", "gone", "n/a", "noit", "bad-op", "blocked", "bad", "stale", "nokept", "would-block")
# operations a consumer may issue from inside a running coroutine (`co <op>`: the thread is in coroutine mode); a blocking wait on a
# pending future is refused there by the library's own assert, the harness answers `would-block` instead of making it
CO_OPS = ACCESS + ("value", "active", "getid", "keep", "ktest", "knot", "kawait", "fget", "fwait", "fbool", "fnot", "fawait", "fhas",
                   "deref", "arrow", "isend", "destroy", "complete")
MAX_ACC = 8          # `a<c>` statements per script: the accumulator of the int-valued generators stays below 2^31


def acc_digit(a):
    d = int(a[1:] or 0)
    return d if 1 <= d <= 9 else 1


def strip_co(line):
    """-> (issued from inside a coroutine?, the line without the `co ` prefix)"""
    return (True, line[3:]) if line.startswith("co ") else (False, line)


_hang_files = []
_phase = {"all_suites_ran": False, "shared": None}
_reported = {}                   # oracle category -> suites that reported it
MAX_SUITES_PER_CATEGORY = 2


def _cleanup_hang_files():
    for f in _hang_files:
        try:
            os.unlink(f)
        except OSError:
            pass


atexit.register(_cleanup_hang_files)


def parse_script(line):
    """-> (yields, ending, acts)   ending: 'fin' | 'exc'"""
    ys, ending = [], "fin"
    acts = line.split()[1:]
    acc = 0
    for a in acts:
        if a[0] == "y":
            ys.append(int(a[1:] or 0))
        elif a[0] == "a":
            # acc.append(c); co_yield acc;  -- the body's own arithmetic on its own variable
            acc = acc * 10 + acc_digit(a)
            ys.append(acc)
        elif a[0] == "t":
            ending = "exc"
            break
        elif a[0] == "x":
            break
    return ys, ending, acts


def make_checks(ys, ending, msgs):
    """the position-by-position statement of C13: what access number i must deliver (n = number of yielded values)"""
    n = len(ys)

    def expect(i):
        """what access number i must deliver"""
        if i < n:
            return ("val", ys[i])
        if i == n:
            return (ending, None)
        return ("end", None)

    def check_item(i, seen, how):
        """seen: 'v:<n>' | 'exc' | 'novalue' | 'false' | 'nomore' | 'end' (for) -- a complete description of what access i delivered"""
        kind, v = expect(i)
        if kind == "val":
            if seen == "v:moved":
                msgs.append("sequence: access #%d (%s) delivered an emptied (moved-from) object, the body's value #%d is %d" % (i, how, i, v))
            elif seen.startswith("v:"):
                if int(seen[2:]) != v:
                    msgs.append("sequence: access #%d (%s) delivered %s, the body's value #%d is %d" % (i, how, seen, i, v))
            elif seen == "exc":
                msgs.append("exception: access #%d (%s) raised the body's exception before value %d" % (i, how, v))
            else:
                msgs.append("end: access #%d (%s) reported %s but the body yields %d there" % (i, how, seen, v))
        elif kind == "exc":
            if seen != "exc":
                msgs.append("exception: access #%d (%s) delivered %s, the body throws at that position" % (i, how, seen))
        elif kind == "fin":
            if seen not in ("false", "novalue", "end"):
                msgs.append("end: access #%d (%s) delivered %s, the body ends at that position" % (i, how, seen))
        else:
            if seen not in ("false", "novalue", "end", "nomore"):
                msgs.append("end: access #%d (%s) delivered %s after the end of the sequence" % (i, how, seen))

    def check_truth(i, truth, how):
        """truth: 'true' | 'false' | 'nomore' -- the boolean face of an access (next / co_await next / iterators)"""
        kind, v = expect(i)
        if truth == "true":
            if kind in ("fin", "end"):
                msgs.append("end: access #%d (%s) announced an item after the sequence had ended" % (i, how))
        elif truth == "false":
            if kind == "val":
                msgs.append("end: access #%d (%s) reported the end but the body yields %d there" % (i, how, v))
            elif kind == "exc":
                msgs.append("exception: access #%d (%s) reported the end, the body throws at that position" % (i, how))
        elif truth == "nomore":
            if kind != "end":
                msgs.append("end: access #%d (%s) threw no_more_values before the sequence had ended" % (i, how))

    def check_read(cur, r, how):
        """value() / *it re-reads what the most recent access (number cur) delivered"""
        if cur is None:
            want = "notready"
        else:
            k2, v2 = expect(cur)
            want = {"val": "v:%s" % v2, "exc": "exc", "fin": "notready",
                    "end": "exc" if ending == "exc" else "notready"}[k2]
        if r != want:
            cat = "exception" if "exc" in (r, want) else "value"
            msgs.append("%s: %s after access #%s gave %s, expected %s" % (cat, how, cur, r, want))

    return expect, check_item, check_truth, check_read


def split_line(line):
    head, _, tail = line.partition(" ; ")
    return head.split(), tail.split()


# random suites: (name, P(generator<int,int>), body flavours, consumer styles for generator<int> / generator<int,int>, cases quick / thorough)
PROFILES = {
    "mixed-styles": dict(p_arg=0.35, flavours=["sync", "sync", "async", "async", "mixed", "guards"],
                         styles_v=["next", "anext", "call", "sub", "kept", "iter", "for", "while", "mixed", "mixed"],
                         styles_a=["next", "anext", "call", "sub", "kept", "while", "mixed", "mixed"], quick=3000, thorough=120000, corpus=True),
    "sync-access-of-async-body": dict(p_arg=0.3, flavours=["async", "mixed"], styles_v=["next", "iter", "for", "while", "call-wait"],
                                      styles_a=["next", "while", "call-wait"], quick=1500, thorough=80000),
    "async-access": dict(p_arg=0.4, flavours=["async", "mixed", "sync"], styles_v=["anext", "call", "sub", "mixed"],
                         styles_a=["anext", "call", "sub", "mixed"], quick=1500, thorough=80000),
    "reentrant-callback": dict(p_arg=0.5, flavours=["async", "mixed", "args", "sync"], styles_v=["sub", "sub", "mixed"],
                               styles_a=["sub", "sub", "mixed"], quick=2000, thorough=80000),
    "reference-values": dict(p_arg=0.4, p_ref=1.0, flavours=["sync", "async", "mixed", "args"], styles_v=["call", "call", "call-wait", "mixed"],
                             styles_a=["call", "call", "call-wait", "mixed"], quick=2000, thorough=70000),
    "kept-next-object": dict(p_arg=0.35, flavours=["sync", "async", "mixed", "args"], styles_v=["kept", "kept", "mixed"],
                             styles_a=["kept", "kept", "mixed"], quick=1500, thorough=60000),
    "arguments": dict(p_arg=1.0, flavours=["args", "args", "mixed"], styles_v=["mixed"], styles_a=["next", "anext", "call", "while", "mixed", "mixed"],
                      quick=1500, thorough=70000),
    "accumulator-body": dict(p_arg=0.35, p_mv=0.7, p_ref=0.1, p_acc=1.0, flavours=["sync", "sync", "async", "mixed", "args"],
                             styles_v=["call", "call", "call-wait", "next", "iter", "for", "while", "anext", "sub", "kept", "mixed", "mixed"],
                             styles_a=["call", "call", "call-wait", "next", "while", "anext", "sub", "kept", "mixed", "mixed"],
                             quick=2000, thorough=90000),
    "inside-a-coroutine": dict(p_arg=0.35, p_co=1.0, flavours=["sync", "sync", "async", "mixed", "args", "guards"],
                               styles_v=["next", "iter", "for", "while", "call", "call-wait", "kept", "mixed", "mixed", "sub", "anext"],
                               styles_a=["next", "while", "call", "call-wait", "kept", "mixed", "mixed", "sub", "anext"],
                               quick=2000, thorough=90000),
    "destroy-parked": dict(p_arg=0.2, flavours=["guards"], styles_v=["next", "anext", "call", "iter", "mixed"],
                           styles_a=["next", "anext", "call", "mixed"], quick=1500, thorough=60000, p_destroy=0.85),
}


class GenSuite(Suite):
    harness = HARNESS
    driver = "drv_c13"
    chunk = 50
    timeout = 240

    def __init__(self, name="mixed-styles"):
        self.name = name
        self.prof = PROFILES[name]
        self.corpus_prefix = "c13_" if self.prof.get("corpus") else None
    nontrivial_rule = ("at least two accesses were served and (two access styles were mixed or the body suspended on a "
                       "pending operation or ended with an exception)")

    def harness_args(self):
        """a fresh hang-budget file per harness run (see the watchdog in h_generator.cpp): after a few hung operations the
        remaining cases of that run are skipped instead of each waiting for the watchdog. Once every suite has run (the runner is
        shrinking failing cases now, one harness run per attempt) all runs share one budget file, so a change that makes accesses
        hang costs a few watchdog time-outs in total, not one per shrinking attempt."""
        if _phase["all_suites_ran"]:
            if _phase["shared"] is None:
                _phase["shared"] = os.path.join(tempfile.gettempdir(), "c13_hang_%d_shrink" % os.getpid())
                _hang_files.append(_phase["shared"])
            return ("--hangfile", _phase["shared"])
        p = os.path.join(tempfile.gettempdir(), "c13_hang_%d_%d" % (os.getpid(), len(_hang_files)))
        _hang_files.append(p)
        return ("--hangfile", p)

    def cap(self, msgs):
        """the runner shrinks and reports one failing case per oracle category *per suite*; a library change that breaks a category
        breaks it in most of the 13 suites: report it from the first MAX_SUITES_PER_CATEGORY suites only"""
        out = []
        for m in msgs:
            suites = _reported.setdefault(m.split(":")[0], [])
            if self.name in suites or len(suites) < MAX_SUITES_PER_CATEGORY:
                if self.name not in suites:
                    suites.append(self.name)
                out.append(m)
        return out

    # ------------------------------------------------------------------ generator
    def gen_script(self, rng, mode):
        n = rng.choice([0, 1, 2, 3, 4, 5, 6, 7, 8, 10, 12])
        flavour = rng.choice(self.prof["flavours"])
        acts = []
        v = rng.randint(1, 9)
        for _ in range(n):
            r = rng.random()
            if flavour == "sync":
                a = "y" if r < 0.7 else "n" if r < 0.8 else "r" if r < 0.9 else "g"
            elif flavour == "guards":
                a = "y" if r < 0.5 else "g" if r < 0.8 else "p" if r < 0.9 else "n"
            elif flavour == "args":
                a = "y" if r < 0.55 else "n" if r < 0.8 else "p" if r < 0.9 else "f" if r < 0.95 else "r"
            else:
                a = ("y" if r < 0.45 else "p" if r < 0.62 else "f" if r < 0.74 else "n" if r < 0.82 else
                     "r" if r < 0.88 else "g" if r < 0.96 else "y")
            if a == "y":
                acts.append("y%d" % v)
                v += rng.randint(1, 9)
            elif a in "pf":
                acts.append("%s%d" % (a, rng.randint(0, 3 if rng.random() < 0.8 else 7)))
            else:
                acts.append(a)
        if not any(a[0] == "p" for a in acts) and rng.random() < 0.35:
            # co_await cocls::pause() between the other statements (an awaitable that resumes the body through the coroutine queue
            # of its thread). Not together with p<k>: the harness event resumes the body as a foreign awaitable would, by a bare
            # resume() outside coroutine mode, where pause() has no queue to work with
            for _ in range(rng.choice([1, 1, 2, 3])):
                acts.insert(rng.randint(0, len(acts)), "q")
        r = rng.random()
        if r < 0.22:
            acts.insert(rng.randint(0, len(acts)), "t")
        elif r < 0.32:
            acts.insert(rng.randint(0, len(acts)), "x")
        if rng.random() < self.prof.get("p_acc", 0.3):
            # an accumulator body: (most of) its yields extend ONE variable of the body and yield that variable (an lvalue the body
            # keeps using); a yield that stays `y` is a fresh local or a temporary
            keep_y = rng.choice([0.0, 0.2, 0.5])
            nacc = 0
            for i, a in enumerate(acts):
                if a[0] == "y" and nacc < MAX_ACC and rng.random() >= keep_y:
                    acts[i] = "a%d" % rng.randint(1, 9)
                    nacc += 1
            if nacc and rng.random() < 0.5 and not any(a[0] == "y" for a in acts):
                acts.insert(0, "y%d" % rng.randint(1, 9))        # a header line first (a temporary or a local), then the running text
        return acts

    def gen_case(self, rng, tier):
        mode = "a" if rng.random() < self.prof["p_arg"] else "v"
        # value type: int, a reference (generator<int&> / generator<int&,int>: iterators do not exist for it), or mval, a string-like
        # type whose move empties the source (generator<mval> / generator<mval,int>): same bodies, same model
        rv = rng.random()
        ref = rv < self.prof.get("p_ref", 0.3)
        mv = (not ref) and rv < self.prof.get("p_ref", 0.3) + self.prof.get("p_mv", 0.25)
        acts = self.gen_script(rng, mode)
        ks = sorted({int(a[1:]) for a in acts if a[0] in "pf"})
        lines = ["case 0 %s%s %d" % ("r" if ref else "s" if mv else "", mode, rng.choice([0, 0, 1, 2])), "script " + " ".join(acts)]
        # execution context of the consumer: ordinary code, inside a running coroutine (every operation), or both mixed
        rc = rng.random()
        p_co = self.prof.get("p_co", 0.3)
        co_rate = 0.0 if rc >= p_co else (1.0 if rc < 0.6 * p_co else 0.5)
        style = rng.choice(self.prof["styles_a"] if mode == "a" else self.prof["styles_v"])
        if ref and style in ("iter", "for"):
            style = rng.choice(["call", "call-wait", "next", "while"])
        nops = rng.randint(2, 8) if rng.random() < 0.25 else rng.randint(6, 26)
        arg = 100
        pre = rng.random() < 0.15          # complete some operations before the body reaches them
        if pre and ks:
            for k in rng.sample(ks, rng.randint(1, len(ks))):
                lines.append("%s %d" % (rng.choice(["complete", "tcomplete"]), k))

        def access(kind):
            nonlocal arg
            if kind == "sub":
                nre = rng.choice([0, 1, 1, 2, 3])       # re-entrant re-arms of the callback
                if mode == "a":
                    arg += rng.randint(1, 5)
                    base = arg
                    arg += nre
                    return "subr %d %d" % (nre, base) if nre or rng.random() < 0.5 else "sub %d" % base
                return "subr %d" % nre if nre or rng.random() < 0.5 else "sub"
            if mode == "a" and kind == "while":
                arg += rng.randint(1, 5)
                base = arg
                arg += 16                                 # the loop passes base, base+1, ...
                return "while %d" % base
            if mode == "a" and kind in ("next", "nnext", "anext", "call", "keep"):
                arg += rng.randint(1, 5)
                return "%s %d" % (kind, arg)
            return kind

        order = [int(a[1:]) for a in acts if a[0] in "pf"]   # the operations in the order the body awaits them
        nxt = [0]

        def completion():
            if order and rng.random() < 0.7:
                k = order[min(nxt[0], len(order) - 1)]
                nxt[0] += 1
            else:
                k = rng.choice(ks) if ks and rng.random() < 0.8 else rng.randint(0, 7)
            return "%s %d" % ("tcomplete" if rng.random() < 0.4 else "complete", k)

        have_it = False
        nyield = sum(1 for a in acts if a[0] in "ya")
        budget = nyield + rng.choice([0, 1, 2, 2, 3, 4]) if rng.random() < 0.9 else 1000   # accesses before the case stops
        if self.prof.get("p_destroy") and rng.random() < 0.7:
            budget = rng.randint(1, max(1, nyield))          # stop while the body is still parked at a co_yield
        for _ in range(nops):
            if sum(1 for l in lines[2:] if strip_co(l)[1].split()[0] in ACCESS + ("kawait", "keep")) >= budget:
                break
            r = rng.random()
            if style == "next":
                ops = [access(rng.choice(["next", "next", "nnext"]))] + (["value"] if rng.random() < 0.8 else [])
                if rng.random() < 0.25:
                    ops.append(rng.choice(["active", "active", "getid"]))
            elif style == "while":
                ops = [rng.choice(["active", access("next"), access("nnext"), access("while"), access("while")])]
                if ops[0].split()[0] in ("next", "nnext"):
                    ops.append("value")
            elif style == "anext":
                ops = [access("anext")]
                if ks and rng.random() < 0.6:
                    ops += [completion() for _ in range(rng.randint(1, 2))]
                if rng.random() < 0.8:
                    ops.append("value")
            elif style == "kept":
                # auto n = gen.next(a); then the same object is consulted several times
                ops = [access("keep")]
                if rng.random() < 0.15:
                    ops.append(access(rng.choice(["next", "anext", "call"])))      # (with an argument type the kept reference is over then)
                for _ in range(rng.randint(1, 4)):
                    ops.append(rng.choice(["ktest", "ktest", "knot", "kawait"]))
                    if ops[-1] == "kawait" and ks and rng.random() < 0.6:
                        ops.append(completion())
                    if rng.random() < 0.6:
                        ops.append("value")
            elif style == "sub":
                ops = [access("sub")]
                if ks and rng.random() < 0.7:
                    ops += [completion() for _ in range(rng.randint(1, 3))]
                if rng.random() < 0.4:
                    ops.append("value")
            elif style == "call":
                ops = [access("call")]
                if rng.random() < 0.3:
                    ops.append(rng.choice(["fawait", "fhas", "fget"]))   # (a reader parked on the pending future)
                if ks and rng.random() < 0.6:
                    ops += [completion() for _ in range(rng.randint(1, 2))]
                ops.append(rng.choice(["fwait", "fwait", "fawait", "fhas", "fget", "fget", "fbool", "fnot", "fbool"]))
                if rng.random() < 0.3:
                    ops.append(rng.choice(["fwait", "fget", "value"]))
            elif style == "call-wait":
                ops = [access("call"), "fwait"]
                if rng.random() < 0.3:
                    ops.insert(1, rng.choice(["fawait", "fhas"]))
                if rng.random() < 0.4:
                    ops[-1:] = [rng.choice(["fbool", "fnot"]), "fwait"]       # if (f) use(*f)
            elif style == "iter":
                if not have_it:
                    ops = [rng.choice(["begin", "beginc"]), "isend", rng.choice(["deref", "arrow"])]
                    have_it = True
                else:
                    ops = [rng.choice(["inc", "inc", "pinc"]), "isend"]
                    if rng.random() < 0.8:
                        ops.append(rng.choice(["deref", "arrow"]))
            elif style == "for":
                ops = [rng.choice(["for", "for", "next", "begin", "call", "anext"])]
                if ops[0] in ("next", "anext"):
                    ops.append("value")
                if ops[0] == "call":
                    ops.append("fwait")
                if ops[0] == "anext" and ks:
                    ops.append(completion())
            else:
                kinds = ["next", "nnext", "anext", "call", "sub", "value", "complete", "fread", "while", "active", "getid",
                         "keep", "ktest", "knot", "kawait", "ktest"]
                if mode == "v" and not ref:
                    kinds += ["begin", "beginc", "inc", "pinc", "deref", "arrow", "isend", "for"]
                k = rng.choice(kinds)
                if k == "complete":
                    ops = [completion()]
                elif k == "fread":
                    ops = [rng.choice(["fwait", "fget", "fawait", "fhas", "fbool", "fnot"])]
                elif k in ("next", "nnext", "anext", "call", "sub", "while", "keep"):
                    ops = [access(k)]
                    if k == "keep":
                        ops.append(rng.choice(["ktest", "knot", "kawait"]))
                    if rng.random() < 0.5 and k != "while":
                        ops.append("value" if k != "call" else rng.choice(["fwait", "fget", "fawait", "fhas", "fbool", "fnot"]))
                else:
                    ops = [k]
            lines += [("co " + o) if co_rate and o.split()[0] in CO_OPS and rng.random() < co_rate else o for o in ops]
        if rng.random() < self.prof.get("p_destroy", 0.3):
            lines.append("co destroy" if co_rate and rng.random() < co_rate else "destroy")
            for _ in range(rng.randint(0, 3)):
                lines.append(rng.choice(["fget", "fwait", "value", access("next"), completion()]))
        lines.append("end")
        return {"id": 0, "lines": lines}

    def gen_cases(self, rng, tier):
        n = self.prof["quick"] if tier == "quick" else self.prof["thorough"]
        return [self.gen_case(rng, tier) for _ in range(n)]

    # ------------------------------------------------------------------ oracle: the statement of C13 on the trace
    def oracle(self, case, out):
        return self.cap(self._oracle(case, out))

    def _oracle(self, case, out):
        msgs = []
        lines = case["lines"]
        mode = lines[0].split()[2].lstrip("rs")     # rv / ra, sv / sa: reference-typed / move-sensitive value types, same statement
        if len(lines) < 2 or not lines[1].startswith("script"):
            return msgs
        ys, ending, acts = parse_script(lines[1])
        n = len(ys)
        # what the body's own variable holds each time the body is resumed from `co_yield acc`: what it yielded from it
        acc_vals, acc = [], 0
        for a in acts:
            if a[0] == "a":
                acc = acc * 10 + acc_digit(a)
                acc_vals.append(acc)
            elif a[0] in "tx":
                break
        acc_seen = 0
        # the execution context (`co <op>`: from inside a running coroutine) is not part of the statement: the same answers are due
        ops = [strip_co(l)[1] for l in lines[1:]]
        out = [strip_co(l)[1] for l in out]
        if out and out[0].startswith("skipped"):
            return msgs          # not executed: the run had already exhausted its hang budget (reported as crashes)
        if len(out) != len(ops):
            return ["lost: %d output lines for %d input lines" % (len(out), len(ops))]

        expect, check_item, check_truth, check_read = make_checks(ys, ending, msgs)

        nacc = 0                 # accesses started so far
        cur = None               # index of the most recent completed access whose item is the generator's current one
        inflight = None          # ('anext'|'call', index) started, not completed
        fut_idx = None           # access index of the future held by the harness
        fut_done = False
        last_arg = None          # argument of the most recent started access
        karg, ktrue = None, False      # the kept `auto n = gen.next(a)` object: its argument, whether a consultation has answered true
        chain_left, chain_arg = 0, 0   # the callback awaiter re-arms itself chain_left more times, next argument chain_arg + 1
        dtor_seen = set()
        alive = True
        for op, line in zip(ops, out):
            w = op.split()
            head, evs = split_line(line)
            res = head[1:] if len(head) > 1 else []
            kind = w[0]
            rejected = bool(res) and res[0] in REJECT
            started = None
            if kind == "keep" and not rejected and alive:
                karg, ktrue = (int(w[1]) if len(w) > 1 else None), False
            if kind in ("ktest", "knot", "kawait") and not rejected and alive and res[:1] != ["stale"]:
                if kind != "kawait" and ktrue:
                    # documented: only the first access through a next() object calls the generator; a further truth test of an object
                    # that has answered true answers true again and is not an access (the position-by-position checks of the
                    # following value()/accesses fail if it advanced the generator)
                    if res[0] != "true":
                        msgs.append("sequence: re-consulting a kept next() object that had answered true gave %s" % res[0])
                else:
                    started = nacc
                    if inflight and inflight[0] == "call":
                        cur = inflight[1]
                        inflight = None
                    nacc += 1
                    last_arg = karg
                    if kind == "kawait":
                        inflight = ("kawait", started)
                    else:
                        check_truth(started, res[0], "bool(n)" if kind == "ktest" else "!n")
                        cur = started
                        ktrue = res[0] == "true"
            if kind in ACCESS and not rejected and alive:
                started = nacc
                if inflight and inflight[0] == "call":
                    # the harness only starts an access once the previous future is resolved
                    cur = inflight[1]
                    inflight = None
                if kind in ("for", "while"):
                    # consumes accesses nacc, nacc+1, ...: one per printed value plus the one that ended the loop
                    # (`while (gen)` that finds the generator done makes no access at all: only counted, it is past the end anyway)
                    items = res
                    for j, itx in enumerate(items):
                        check_item(nacc + j, itx, "range-for" if kind == "for" else "while (gen) / !gen.next()")
                    if not items or items[-1].startswith("v:"):
                        msgs.append("lost: %s loop produced no end marker" % kind)
                    nacc += len(items)
                    cur = nacc - 1
                else:
                    nacc += 1
                if kind == "subr":
                    last_arg = int(w[2]) if len(w) > 2 else 0
                elif len(w) > 1:
                    last_arg = int(w[1])
                if kind in ("next", "nnext"):
                    check_truth(started, res[0], "next()" if kind == "next" else "!next()")
                    cur = started
                elif kind in ("begin", "beginc", "inc"):
                    check_truth(started, res[0], kind)
                    cur = started
                elif kind == "pinc":
                    if res[0].startswith("v:"):
                        check_read(cur, res[0], "it++ (stored value)")
                        check_truth(started, res[1], "it++")
                        cur = started
                    elif res[0] == "nomore":
                        check_truth(started, "nomore", "it++")
                    else:
                        # value() threw before advancing: no access was made
                        nacc -= 1
                        started = None
                        check_read(cur, res[0], "it++ (stored value)")
                elif kind == "anext":
                    inflight = ("anext", started)
                elif kind in ("sub", "subr"):
                    inflight = ("sub", started)
                    chain_left = int(w[1]) if kind == "subr" and len(w) > 1 else 0
                    chain_arg = last_arg if last_arg is not None else 0
                elif kind == "call":
                    if res[0] == "nomore":
                        check_item(started, "nomore", "call")
                    else:
                        fut_idx, fut_done = started, res[0] == "ready"
                        if res[0] == "pending":
                            inflight = ("call", started)
                        else:
                            cur = started
            # argument delivery: the body is resumed from a co_yield by access i (1 <= i <= n): it must receive exactly this call's
            # argument, at once; events are processed in order of occurrence (a callback may re-arm itself inside its notification)
            need_got = None
            if mode == "a" and started is not None and kind in ("next", "nnext", "anext", "call", "sub", "subr", "ktest", "knot", "kawait") and 1 <= started <= n:
                need_got = (started, last_arg)
            for e in evs:
                if e.startswith("arg="):
                    last_arg = int(e[4:])      # the while loop issues its next access with this argument
                    continue
                if e.startswith("acc="):
                    # the body looks at its own variable after `co_yield acc`: no access style may have modified it
                    want = acc_vals[acc_seen] if acc_seen < len(acc_vals) else None
                    acc_seen += 1
                    if want is None or e[4:] != str(want):
                        msgs.append("variable: the body yielded its own variable holding %s; resumed, it finds %s in it "
                                    "(the library modified an object yielded as an lvalue)" % (want, e[4:]))
                    continue
                if e.startswith("got="):
                    g = int(e[4:])
                    if mode == "a" and g != last_arg:
                        msgs.append("argument: the body received %d, the call that resumed it passed %s" % (g, last_arg))
                    need_got = None
                    continue
                if need_got is not None and not e.startswith(("helped=", "~g")):
                    msgs.append("argument: the co_yield resumed by access #%d did not return its argument %s" % need_got)
                    need_got = None
                if e.startswith("anext="):
                    if not inflight or inflight[0] != "anext":
                        msgs.append("sequence: a consumer coroutine was resumed although no co_await next() was outstanding")
                    else:
                        check_truth(inflight[1], e[6:], "co_await next()")
                        cur = inflight[1]
                        inflight = None
                elif e.startswith("kawait="):
                    if not inflight or inflight[0] != "kawait":
                        msgs.append("sequence: a consumer coroutine was resumed although no co_await on the kept object was outstanding")
                    else:
                        check_truth(inflight[1], e[7:], "co_await n")
                        cur = inflight[1]
                        if e[7:] != "nomore":          # (a co_await that throws leaves the object as it was)
                            ktrue = e[7:] == "true"
                        inflight = None
                elif e.startswith("sub="):
                    if not inflight or inflight[0] != "sub":
                        msgs.append("sequence: the consumer's callback was called although no subscribe access was outstanding")
                    else:
                        x = e[4:]
                        check_item(inflight[1], x, "next().subscribe(callback)")
                        cur = inflight[1]
                        inflight = None
                        if x.startswith("v:") and chain_left > 0:
                            # the callback re-arms itself from inside the notification: the next access
                            chain_left -= 1
                            chain_arg += 1
                            last_arg = chain_arg
                            inflight = ("sub", nacc)
                            if mode == "a" and 1 <= nacc <= n:
                                need_got = (nacc, last_arg)
                            nacc += 1
                elif e.startswith("fawait=") or e.startswith("fhas="):
                    if fut_idx is None:
                        msgs.append("sequence: a future reader was resumed without a future")
                    else:
                        if inflight and inflight[0] == "call":
                            cur = inflight[1]
                            inflight = None
                        fut_done = True
                        if e.startswith("fawait="):
                            check_item(fut_idx, e[7:], "co_await future")
                        else:
                            k2, _ = expect(fut_idx)
                            has = e[5:] == "true"
                            if has != (k2 in ("val", "exc")):
                                msgs.append("end: co_await has_value() of access #%d gave %s" % (fut_idx, e[5:]))
                elif e.startswith("~g"):
                    if e in dtor_seen:
                        msgs.append("destroy: guard %s destroyed twice" % e[1:])
                    dtor_seen.add(e)
            if need_got is not None:
                msgs.append("argument: the co_yield resumed by access #%d did not return its argument %s" % need_got)
            if kind in ("fbool", "fnot") and res and res[0] in ("true", "false") and fut_idx is not None:
                # `if (f)` / `if (!f)`: the future of access fut_idx carries a result iff the body yielded or threw there
                k2, _ = expect(fut_idx)
                if (res[0] == "true") != (k2 in ("val", "exc")):
                    what = "no value" if res[0] == "false" else "a value"
                    msgs.append("end: %s on the future of access #%d reports %s" % ("if (f)" if kind == "fbool" else "if (!f)", fut_idx, what))
                if inflight and inflight[0] == "call":
                    cur = inflight[1]
                    inflight = None
                fut_done = True
            if kind in ("fwait", "fget") and res and res[0] not in ("nofut", "pending", "stale", "would-block") and fut_idx is not None:
                check_item(fut_idx, res[0], "future." + ("wait()" if kind == "fwait" else "value()"))
                if inflight and inflight[0] == "call":
                    cur = inflight[1]
                    inflight = None
                fut_done = True
            if kind == "fget" and res and res[0] == "pending" and not (inflight and inflight[0] == "call"):
                if fut_idx is not None and fut_done:
                    msgs.append("lost: a future that had been resolved reads as pending")
            if kind == "fwait" and res and res[0] == "pending":
                msgs.append("lost: future.wait() returned on a pending future")
            if kind in ("value", "deref", "arrow") and res and not rejected and alive and not inflight:
                check_read(cur, res[0], {"value": "value()", "deref": "*it", "arrow": "it->"}[kind])
            if kind == "active" and res and not rejected and alive and not inflight:
                # bool(gen) must stay true until the body's regular end has been delivered (a `while (gen)` consumer must not stop early)
                # and be false afterwards (it must not go on for ever); after an exception the pinned code keeps it true
                delivered_end = cur is not None and cur >= n and ending == "fin"
                if res[0] == "0" and not delivered_end:
                    msgs.append("end: bool(gen) is false although the sequence has not ended (access #%s was the last)" % cur)
                if res[0] == "1" and delivered_end:
                    msgs.append("end: bool(gen) is still true after the end of the sequence was delivered")
            if kind == "getid" and res and res[0] not in ("ok", "gone"):
                msgs.append("sequence: get_id() %s" % res[0])
            if kind == "destroy" and not rejected:
                alive = False
            if kind == "end":
                kv = dict(x.split("=") for x in res if "=" in x)
                if inflight and (inflight[0] in ("anext", "sub", "kawait") or kv.get("fut") == "pending"):
                    msgs.append("lost: access #%d (%s) was never served" % (inflight[1], inflight[0]))
                if kv.get("made") != kv.get("once") or kv.get("multi") != "0":
                    msgs.append("destroy: %s guards constructed in the body, %s destroyed exactly once, %s more than once"
                                % (kv.get("made"), kv.get("once"), kv.get("multi")))
                if fut_idx is not None and kv.get("fut") not in (None, "none", "stale"):
                    check_item(fut_idx, kv["fut"], "future at the end")
        return msgs

    # ------------------------------------------------------------------ evidence
    def nontrivial(self, case, out):
        out = [strip_co(l)[1] for l in out]
        case = {"lines": case["lines"][:2] + [strip_co(l)[1] for l in case["lines"][2:]]}
        served = sum(1 for l in out if re.match(r"(next|nnext|ktest|knot|begin|beginc|inc) (true|false)|call (ready|pending)|pinc v", l)) + \
            sum(l.count("anext=") + l.count("kawait=") + l.count("sub=v") for l in out) + sum(max(0, len(l.split(" ; ")[0].split()) - 1) for l in out if l.startswith(("for ", "while ")))
        styles = {l.split()[0] for l in case["lines"][2:]} & set(ACCESS)
        acts = case["lines"][1].split()[1:] if len(case["lines"]) > 1 else []
        pend = any("helped=" in l for l in out) or any(l.startswith(("complete ;", "tcomplete ;")) for l in out)
        return served >= 2 and (len(styles) >= 2 or pend or "t" in acts)

    def stats(self, cases, outs):
        ops, acts, modes, co_ops, ctx = {}, {}, {}, {}, {"ordinary": 0, "coroutine": 0, "mixed": 0}
        helped = resumed_by_complete = other_thread = exc_bodies = destroyed_parked = 0
        acc_bodies = acc_after_tmp = acc_resumptions = 0
        for c in cases:
            hdr = c["lines"][0].split()
            modes[hdr[2]] = modes.get(hdr[2], 0) + 1     # v / a / rv / ra / sv / sa
            sc = c["lines"][1].split()[1:]
            for a in sc:
                acts[a[0]] = acts.get(a[0], 0) + 1
            exc_bodies += "t" in sc
            acc_bodies += any(a[0] == "a" for a in sc)
            # a temporary (a `y` at an even statement position) yielded before a later yield of the body's variable
            tmp = [i for i, a in enumerate(sc) if a[0] == "y" and (i + 1) % 2 == 0]
            acc_after_tmp += bool(tmp) and any(a[0] == "a" for a in sc[tmp[0]:])
            nco = nall = 0
            for l in c["lines"][2:]:
                co, l = strip_co(l)
                k = l.split()[0]
                ops[k] = ops.get(k, 0) + 1
                if k in CO_OPS:
                    nall += 1
                    nco += co
                if co:
                    co_ops[k] = co_ops.get(k, 0) + 1
            ctx["ordinary" if not nco else "coroutine" if nco == nall else "mixed"] += 1
            o = outs.get(str(c["id"]), [])
            helped += sum(l.count("helped=") for l in o)
            acc_resumptions += sum(l.count(" acc=") for l in o)
            for l_in, l_out in zip([strip_co(l)[1] for l in c["lines"][1:]], [strip_co(l)[1] for l in o]):
                if l_in.startswith(("complete", "tcomplete")) and " ; " in l_out:
                    resumed_by_complete += 1
                    other_thread += l_in.startswith("tcomplete")
                if l_in == "destroy" and l_out.startswith("destroy ;"):
                    destroyed_parked += 1
        return {"consumer_ops": ops, "body_acts": acts, "modes": modes, "bodies_throwing": exc_bodies,
                "consumer_context_of_cases": ctx, "ops_issued_inside_a_coroutine": co_ops,
                "bodies_yielding_their_own_variable": acc_bodies, "of_which_after_a_yielded_temporary": acc_after_tmp,
                "resumptions_after_which_the_body_inspected_its_variable": acc_resumptions,
                "awaits_completed_by_helper_thread_during_blocking_access": helped,
                "bodies_resumed_by_complete_op": resumed_by_complete, "of_which_on_second_thread": other_thread,
                "destroy_of_parked_generator_with_live_guards": destroyed_parked}


class ExhSuite(GenSuite):
    """bounded-exhaustive: every script over a small alphabet up to a length x every consumer operation sequence over a small
    alphabet up to a length (quick: scripts <= 2 statements x <= 3 operations; thorough: <= 3 x <= 4), split into parts"""
    ACTS = ["y", "p0", "n", "g", "t"]
    OPS = ["next", "value", "anext", "call", "fwait", "complete 0", "for", "destroy", "subr 1"]

    def __init__(self, part, parts):
        self.name = "exhaustive-small-%d" % part
        self.prof = PROFILES["mixed-styles"]
        self.corpus_prefix = None
        self.part, self.parts = part, parts

    def gen_cases(self, rng, tier):
        import itertools
        la, lo = (2, 3) if tier == "quick" else (3, 4)
        scripts = [()]
        for n in range(1, la + 1):
            scripts += list(itertools.product(self.ACTS, repeat=n))
        opseqs = []
        for n in range(1, lo + 1):
            opseqs += list(itertools.product(self.OPS, repeat=n))
        cases = []
        idx = 0
        for sc in scripts:
            acts, v = [], 1
            for a in sc:
                if a == "y":
                    acts.append("y%d" % v)
                    v += 1
                else:
                    acts.append(a)
            for ops in opseqs:
                idx += 1
                if idx % self.parts != self.part:
                    continue
                mode = "a" if (idx // self.parts) % 3 == 0 else "v"
                ref = (idx // self.parts) % 5 in (1, 3) and "for" not in ops      # generator<int&> / generator<int&,int>
                mv = not ref and (idx // self.parts) % 5 in (2, 4)                # generator<mval> / generator<mval,int>
                if (idx // self.parts) % 3 == 1:
                    # the accumulator variant of the same script: the yields extend and yield ONE variable of the body
                    acts = ["a%d" % (1 + (idx + j) % 9) if a[0] == "y" and (j or len(acts) < 2 or idx % 2) else a for j, a in enumerate(acts)]
                co = (idx // self.parts) % 4 == 2                                 # every operation from inside a running coroutine
                if mode == "a" and "for" in ops and not all((idx + j) % 2 for j, o in enumerate(ops) if o == "for"):
                    mode = "v"
                lines = ["case 0 %s%s %d" % ("r" if ref else "s" if mv else "", mode, idx % 3), "script " + " ".join(acts)]
                for j, o in enumerate(ops):
                    # alternative spellings of the same model steps, selected by the (deterministic) case index
                    if o == "next" and (idx + j) % 2:
                        o = "nnext"
                    elif o == "for" and (idx + j) % 2:
                        o = "while"
                    elif o == "value" and (idx + j) % 4 == 1:
                        o = "active"
                    elif o == "fwait" and (idx + j) % 3 == 1:
                        o = "fbool" if (idx + j) % 2 else "fnot"
                    elif o == "anext" and (idx + j) % 3 == 1:
                        lines.append("keep %d" % (10 + 2 * j) if mode == "a" else "keep")
                        lines.append("kawait")
                        lines.append("ktest")
                        continue
                    elif o in ("next", "nnext") and (idx + j) % 5 == 2:
                        lines.append("keep %d" % (10 + 2 * j) if mode == "a" else "keep")
                        lines += ["ktest", "knot"]
                        continue
                    lines.append("%s %d" % (o, 10 + 2 * j) if mode == "a" and o in ("next", "nnext", "anext", "call", "subr 1", "while") else o)
                if co:
                    lines[2:] = [("co " + l) if l.split()[0] in CO_OPS else l for l in lines[2:]]
                lines.append("end")
                cases.append({"id": 0, "lines": lines})
        return cases


class BatonSuite(Suite):
    """real threads under the baton scheduler (harness/shim): a consumer thread doing blocking accesses vs a thread completing the
    awaited operations, every interposed atomic operation (`_block.store/wait`, future/promise, sync_awaiter flag) a scheduling
    point; all 0/1 schedules up to a length for every scenario (beyond the schedule the consumer thread is preferred: it runs
    ahead into the window right after each notification). Oracle only: the property evaluated on the consumer's observations."""
    harness = HARNESS_T
    driver = None
    compare = False
    corpus_prefix = "c13t_"
    chunk = 64
    timeout = 600
    nontrivial_rule = "the completing thread resumed the body at least once and the consumer made at least two accesses"

    FIXED = [
        # (mode, script, consumer ops, completion order)
        ("a", "y1 p0 n y2 p1 y3", ["next 10", "value", "next 11", "value", "next 12", "value", "next 13"], "0 1"),
        ("v", "y1 p0 y2 p1 y3 t", ["next", "value", "next", "value", "next", "value", "next", "value", "next"], "0 1"),
        ("a", "n y1 p0 y2 p1 n y3", ["call 10", "fwait", "call 11", "fwait", "call 12", "fwait", "call 13", "fwait"], "0 1"),
        ("v", "g y1 p0 y2 p1 y3", ["for"], "0 1"),
        ("v", "g y1 p0 g y2 p1 y3", ["next", "next", "value", "destroy"], "0 1"),
        ("a", "y1 f0 n y2 f1 y3", ["next 10", "value", "next 11", "value", "next 12", "value"], "0 1"),
        ("a", "p0 n y1 p1 y2 p2 y3 x", ["next 10", "call 11", "fwait", "next 12", "value", "call 13", "fwait"], "0 1 2"),
        ("a", "y1 p0 y2 p1 n t", ["call 10", "fwait", "next 11", "value", "next 12", "value", "call 13"], "0 1"),
    ]

    def __init__(self, name="threads-baton"):
        self.name = name

    def scenario(self, rng):
        mode = rng.choice(["a", "v"])
        acts, v, ks = [], 1, []
        for _ in range(rng.randint(3, 7)):
            r = rng.random()
            if r < 0.4:
                acts.append("y%d" % v)
                v += rng.randint(1, 4)
            elif r < 0.7:
                k = len(ks)
                acts.append(("p%d" if rng.random() < 0.75 else "f%d") % k)
                ks.append(k)
            elif r < 0.85:
                acts.append("n")
            elif r < 0.95:
                acts.append("g")
            else:
                acts.append("t")
        if not ks:
            acts.insert(min(1, len(acts)), "p0")
            ks = [0]
        ops, arg = [], 10
        for _ in range(rng.randint(3, 6)):
            r = rng.random()
            if r < 0.55:
                ops.append("next %d" % arg if mode == "a" else "next")
                if rng.random() < 0.7:
                    ops.append("value")
            elif r < 0.85:
                ops += ["call %d" % arg if mode == "a" else "call", "fwait"]
            elif mode == "v" and r < 0.93:
                ops.append("for")
            else:
                ops.append("destroy")
            arg += 1
        return (mode, " ".join(acts), ops, " ".join(map(str, ks)))

    def gen_cases(self, rng, tier):
        import itertools
        if tier == "quick":
            scns, length = self.FIXED + [self.scenario(rng) for _ in range(6)], 9
        else:
            scns, length = self.FIXED + [self.scenario(rng) for _ in range(28)], 12
        cases = []
        for mode, script, ops, ks in scns:
            for bits in itertools.product("01", repeat=length):
                lines = ["case 0 %s" % mode, "script " + script] + ["c " + o for o in ops] + ["k " + ks, "sched " + " ".join(bits), "end"]
                cases.append({"id": 0, "lines": lines})
        return cases

    def normalize(self, lines):
        return [l for l in lines if not l.startswith("s ")]

    cap = GenSuite.cap

    def oracle(self, case, out):
        return self.cap(self._oracle(case, out))

    def _oracle(self, case, out):
        msgs = []
        lines = case["lines"]
        mode = lines[0].split()[2]
        ys, ending, acts = parse_script(lines[1])
        n = len(ys)
        expect, check_item, check_truth, check_read = make_checks(ys, ending, msgs)
        nacc, cur, last_arg, need_got = 0, None, None, None
        fut_idx, pending_start, alive, ended = None, None, True, False
        for l in out:
            w = l.split()
            if not w:
                continue
            if w[0] == "assert-failed":
                msgs.append("assert: a library assertion failed in a schedule of correct use: %s" % " ".join(w[1:]))
            elif w[0] == "crash":
                msgs.append("crash: the run died (%s)" % " ".join(w[1:]))
            elif w[0] == "deadlock":
                msgs.append("lost: deadlock - an access was never served")
            elif w[0] == "lost":
                msgs.append("lost: a future stayed pending")
            elif w[0] == "b" and w[1].startswith("got="):
                g = int(w[1][4:])
                if mode == "a" and g != last_arg:
                    msgs.append("argument: the body received %d, the call that resumed it passed %s" % (g, last_arg))
                need_got = None
            elif w[0] == "c>":
                if w[1] in ("next", "call") and len(w) > 2:
                    pending_start = int(w[2])
                if w[1] in ("next", "call") and alive:
                    # the argument is handed over at the start of the access
                    if len(w) > 2:
                        last_arg = int(w[2])
                    if mode == "a" and 1 <= nacc <= n:
                        need_got = (nacc, last_arg)
            elif w[0] == "c<":
                op, res = w[1], w[2:]
                if res and res[0] in ("gone", "busy", "n/a", "bad-op", "nofut"):
                    need_got = None
                    continue
                if op in ("next", "call") and need_got is not None and res[0] != "nomore" and not (op == "call" and res[0] == "pending"):
                    msgs.append("argument: the co_yield resumed by access #%d did not return its argument %s" % need_got)
                    need_got = None
                if op == "next":
                    check_truth(nacc, res[0], "next()")
                    cur = nacc
                    nacc += 1
                elif op == "value":
                    check_read(cur, res[0], "value()")
                elif op == "call":
                    if res[0] == "nomore":
                        check_item(nacc, "nomore", "call")
                    else:
                        fut_idx = nacc
                    nacc += 1
                elif op == "fwait":
                    if fut_idx is not None:
                        check_item(fut_idx, res[0], "future.wait()")
                        cur = fut_idx
                elif op == "for":
                    for j, itx in enumerate(res):
                        check_item(nacc + j, itx, "range-for")
                    if not res or res[-1].startswith("v:"):
                        msgs.append("lost: range-for produced no end marker")
                    nacc += len(res)
                    cur = nacc - 1
                elif op == "destroy":
                    alive = False
            elif w[0] == "end":
                ended = True
                kv = dict(x.split("=") for x in w[1:] if "=" in x)
                if kv and (kv.get("made") != kv.get("once") or kv.get("multi") != "0"):
                    msgs.append("destroy: %s guards constructed in the body, %s destroyed exactly once, %s more than once"
                                % (kv.get("made"), kv.get("once"), kv.get("multi")))
        if not ended:
            msgs.append("lost: the run did not finish")
        return msgs

    def nontrivial(self, case, out):
        return any(l.startswith("k ") for l in out) and sum(1 for l in out if l.startswith("c< next") or l.startswith("c< call")) >= 2

    def stats(self, cases, outs):
        _phase["all_suites_ran"] = True      # this is the last suite of the check (see GenSuite.harness_args)
        return self._stats(cases, outs)

    def _stats(self, cases, outs):
        scen = {" | ".join(c["lines"][:-2]) for c in cases}
        resumed = sum(sum(1 for l in outs.get(str(c["id"]), []) if l.startswith("k ")) for c in cases)
        return {"scenarios": len(scen), "schedules": len(cases), "schedule_length": len(cases[0]["lines"][-2].split()) - 1 if cases else 0,
                "bodies_resumed_by_the_completing_thread": resumed}


class C13(Spec):
    pid = "C13"
    lean_modules = ["CoclsModel.Props.C13"]
    design_ref = "DESIGN.md §5 C13"
    technique = ("Lean 4 invariant proof (induction over all body scripts and all consumer operation lists) + differential "
                 "correspondence with the real generator.h / iterator.h")
    level_text = ("Lean 4 theorems over an executable model of generator::promise_type (fields _caller/_internal, _arg, _ret, _exp, _done, "
                  "_block, _awaiting), the body as a script interpreter (yield of a local / temporary, yield of a variable the body keeps extending, "
                  "yield nullptr, ready / pending awaitables, co_await pause(), locals, throw, return), and every access style as consumer operations (sync access split at "
                  "its blocking point so completions by another thread interleave; co_await, subscribe(callback) incl. re-entrant re-arming, "
                  "future, iterators; each issued by ordinary code or from inside a running coroutine): sequence/end/exception position, "
                  "argument delivery, no lost wake-up, the body's own yielded variable never modified, accesses of non-awaiting code "
                  "served inside the call in either context, locals destroyed once - for every script and every operation list; plus a micro-step model of the two-thread hand-over at a co_yield (notify last). The model "
                  "is tied to the headers by running both on generated (script, operation list) pairs and diffing every line; property oracles "
                  "run on the implementation trace, including all short baton schedules of a consumer thread vs a completing thread")
    level_note = ("trusted: Lean kernel (axioms propext/Classical.choice/Quot.sound at most), the hand-written models "
                  "lean/CoclsModel/Generator.lean and GeneratorHandover.lean, the differential harness (sampling), the compiler's coroutine frame "
                  "semantics, future/promise resolution (C01) and the awaiter chain (C03). Thread schedules: the theorems cover every "
                  "interleaving of consumer steps and completions (an op list) and of the micro-steps of the hand-over; the real code is "
                  "exercised with completions on the consumer thread, on a joined second thread, on a helper thread racing with _block.wait(), "
                  "and deterministically under the baton scheduler (every interposed atomic operation a scheduling point, all 0/1 schedules up "
                  "to a length; oracle only, no line-by-line model comparison in that suite).")
    trusted_base = ["hand-written model lean/CoclsModel/Generator.lean tied to generator.h/iterator.h by differential correspondence "
                    "(harness/h_generator.cpp vs lean/Drivers/C13.lean) on generated scripts x access sequences",
                    "C++ coroutine frame semantics (locals destroyed on frame destruction), cocls::future/promise (C01)"]
    assumptions = ["one consumer at a time: no access is started while another one is outstanding (the 'Generator is busy' assert)",
                   "the generator is not destroyed while an access is outstanding",
                   "value() is not called while an asynchronous access is outstanding",
                   "the body runs in coroutine mode whenever the library resumes it (every access installs a queue if there is none: "
                   "resume_in_queue); a foreign awaitable that resumes the body by a bare resume() outside coroutine mode (the harness "
                   "event p<k>) is not combined with co_await pause() in generated bodies; consumer coroutines run in coroutine mode"]

    def suites(self):
        return [GenSuite(n) for n in PROFILES] + [ExhSuite(i, 4) for i in range(4)] + [BatonSuite()]


SPEC = C13()
