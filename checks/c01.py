"""C01 — a future is resolved exactly once, by exactly one winner."""
from vlib.runner import Spec
from checks import chain_common as cc


class C01Suite(cc.ChainSuite):
    name = "competing-resolvers"
    corpus_prefix = "c01_"

    def gen_cases(self, rng, tier):
        if tier == "quick":
            return cc.gen_random(rng, 1300, 1, 4, 0, 2) + cc.gen_random(rng, 200, 0, 0, 0, 3)
        return cc.gen_random(rng, 20000, 1, 4, 0, 3) + cc.gen_random(rng, 2000, 0, 0, 0, 3) + [c for c in cc.gen_exhaustive_pairs(11)
                                                       if c["lines"][1].startswith("r") and c["lines"][2][0] in "rd"]

    def oracle(self, case, out):
        msgs = []
        T = case["lines"][0].split()[3]
        i = cc.parse(case, out)
        if i["crash"]:
            return ["crash: the implementation crashed"]
        if i["assert"]:
            return ["assert: " + i["assert"]]
        for a in i["anomalies"]:
            msgs.append("accessor: " + a)
        if i["deadlock"]:
            has_res = any(t[0] in ("r", "d") for t in i["threads"])
            return ["hang: waiters left hanging although the promise was invoked/destroyed"] if has_res else []
        wins = [t for t, r in i["rets"].items() if 1 in r]
        nres = sum(1 for t in i["threads"] if t[0] == "r")
        for t, r in i["rets"].items():
            if len(r) != 1:
                msgs.append("winner: call t%d returned %d times" % (t, len(r)))
        if len(wins) > 1:
            msgs.append("winner: %d calls reported success" % len(wins))
        if nres and len(wins) + (1 if i["dtor_resolved"] else 0) != 1:
            msgs.append("winner: %d successful calls (+%d destructor resolution) for %d resolvers" % (len(wins), i["dtor_resolved"], nres))
        if i["final"] is None:
            return msgs + ["final: no final state reported"]
        st, val, hv = i["final"]
        if st != "ready":
            msgs.append("hang: future still pending after the promise was destroyed")
        exp = cc.expected_outcome(i["threads"][wins[0]], T) if len(wins) == 1 else cc.end_outcome(case, T)
        if val != exp:
            msgs.append("payload: future holds %s, the winner supplied %s" % (val, exp))
        if (hv == "hv=1") != (exp not in ("canceled",)):
            msgs.append("payload: has_value()=%s for outcome %s" % (hv, exp))
        # the result never changes: every observation equals the final one
        for w, obs in i["obs"].items():
            for o in obs:
                if o.startswith("hv:"):
                    if o != "hv:" + hv[-1]:
                        msgs.append("stable: waiter w%d saw %s, final %s" % (w, o, hv))
                elif o != val:
                    msgs.append("stable: waiter w%d observed %s, final result %s" % (w, o, val))
        if i["counted"] and not i["counted"].endswith("=0"):
            msgs.append("payload: instance-counted value constructed/destroyed unevenly (%s)" % i["counted"])
        if val == "v:raw-storage" or any(o == "v:raw-storage" for obs in i["obs"].values() for o in obs):
            msgs.append("payload: the future reports a value although none was constructed")
        return msgs


class C01(Spec):
    pid = "C01"
    lean_modules = ["CoclsModel.Props.C01"]
    design_ref = "DESIGN.md §5 C01"
    technique = "Lean 4 invariant proof over all schedules of a micro-step model + step-for-step differential replay on the real headers under a baton scheduler"
    level_text = ("Lean 4 theorems over a micro-step model of promise/future/awaiter chain (one step per atomic operation of the code) for any number of "
                  "resolvers/waiters (resolver kinds: value / exception / drop calls, ~promise, destruction of a promise_with_default[_v/_vp] delivering its default) and every "
                  "schedule: unique winner, result = winner's payload, stability, losers leave no trace, drop observed as canceled. "
                  "The model is tied to future.h/awaiter.h by replaying generated (and exhaustively enumerated small) schedules on the unmodified headers under an "
                  "interposed-atomics baton scheduler and diffing every operation line; oracles evaluate the statement on the implementation trace.")
    level_note = ("trusted: Lean kernel; hand-written list-level model (the intrusive `_next` links are abstracted to a list: pointer-level safety of the walk is covered by "
                  "ASan in the harness and the SharedAccess facts of C03, not by a theorem); the baton shim (sequentially consistent interleavings only — weak-memory "
                  "behaviour is C03's); typed payload construction is C++ (counted through an instance-counting type).")
    trusted_base = ["model lean/CoclsModel/Chain.lean tied to future.h/awaiter.h by step-for-step replay (harness/h_chain.cpp, shim/verif_shim.h) against lean/Drivers/C01.lean",
                    "C++20 coroutine machinery and libstdc++ as specified"]
    assumptions = ["~promise is sequenced after every invocation of that promise object (C++ object lifetime)",
                   "interleavings are sequentially consistent (memory-order effects are decided in C03)"]

    def suites(self):
        return [C01Suite()]


SPEC = C01()
