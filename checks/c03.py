"""C03 — cross-thread operations are data-race free and publish results safely."""
import os
import re
import subprocess
import time

from vlib import core
from vlib.runner import Spec

PROTO_SCENARIOS = [
    ("payload", ["future_poll", "future_has_value", "future_await", "future_compete", "shared"]),
    ("awaiter node via future", ["future_await", "future_compete"]),
    ("awaiter node via signal", ["signal"]),
    ("mutex", ["mutex", "mutex_window"]),
    ("reusable_storage_mtsafe", ["storage", "storage_sizes"]),
    ("generator", ["generator"]),
]
CLASS_SCENARIOS = {"queue": ["queue", "generator"], "limited_queue": ["queue"], "thread_pool": ["pool", "pool_double_stop"],
                   "scheduler": ["scheduler", "scheduler_multi_start", "scheduler_pool_start"], "publisher::queue": ["publisher", "publisher_items"]}
ALL_SCENARIOS = ["future_poll", "future_has_value", "scheduler_pool_start", "storage_sizes", "publisher_items", "future_await", "future_compete", "mutex", "mutex_window", "queue", "pool", "pool_double_stop", "scheduler", "scheduler_multi_start", "publisher",
                 "storage", "generator", "signal", "shared"]
# promise / future / awaiter-chain protocol on the happens-before machine (ChainClock.lean): obligations over the regenerated tables
CHAIN_TABLE_OBLIGATIONS = ["c03_chain_orders_current", "c03_chain_walk_accesses", "c03_chain_subscribe_accesses", "c03_chain_set_before_resolve"]
CHAIN_SCENARIOS = ["future_poll", "future_has_value", "future_await", "future_compete", "shared"]
# coroutine mutex protocol as a whole on the happens-before machine (MutexClock.lean): obligations over the regenerated atomic-site table
MUTEX_TABLE_OBLIGATIONS = ["c03_mutex_orders_current", "c03_mutex_protocol_race_free", "c03_mutex_handoff_ordered"]
MUTEX_SCENARIOS = ["mutex", "mutex_window"]
# signal<T> as a whole on the happens-before machine (SignalClock.lean): obligations over the regenerated tables (Props/C03b.lean)
SIGNAL_TABLE_OBLIGATIONS = ["c03_signal_orders_current", "c03_signal_protocol_race_free", "c03_signal_no_own_atomics",
                            "c03_signal_subscribe_accesses", "c03_signal_walk_accesses",
                            # position facts about signal.h itself (rows of the functions in extract.SIGNAL_FUNCS / classes local to connect)
                            "c03_signal_collector_writes_before_notify", "c03_signal_dtor_clears_before_notify",
                            "c03_signal_notify_is_resume_chain", "c03_signal_emitter_sets_up_before_subscribe",
                            "c03_signal_await_resume_reads_cur_val", "c03_signal_rows_present"]
SIGNAL_SCENARIOS = ["signal"]


def failing_lock_programs():
    """names of the extracted member functions that LockProg.check rejects on this tree (Lean #eval)"""
    src = ("import CoclsModel.LockProg\nimport CoclsModel.Generated.LockProgs\nopen Cocls\n"
           "#eval (Generated.LockProgs.allLockProgs.filter (fun f => !f.ok)).map (fun f => f.defName)\n")
    d = os.path.join(core.BUILD, "c03_eval")
    os.makedirs(d, exist_ok=True)
    fn = os.path.join(d, "lockprogs_%d.lean" % os.getpid())
    open(fn, "w").write(src)
    with core.LakeLock():
        core.sh(["lake", "build", "CoclsModel.LockProg", "CoclsModel.Generated.LockProgs"], cwd=core.LEAN, timeout=1200)
        rc, out, err = core.sh(["lake", "env", "lean", fn], cwd=core.LEAN, timeout=600)
    os.unlink(fn)
    import re as _re
    return _re.findall(r'"([A-Za-z0-9_]+)"', out)


def tsan_binary():
    return core.build_harness("tsan_sc", ["tsan_scenarios.cpp"], sanitize=False, extra_flags=["-fsanitize=thread"])


def run_tsan(exe, scenario, iters, timeout=240):
    env = dict(os.environ, TSAN_OPTIONS="exitcode=66 halt_on_error=0 report_signal_unsafe=0 history_size=4")
    try:
        p = subprocess.run([exe, scenario, str(iters)], stdout=subprocess.PIPE, stderr=subprocess.PIPE, text=True,
                           errors="replace", timeout=timeout, env=env)
        err = p.stderr
        rc = p.returncode
    except subprocess.TimeoutExpired as e:
        err = (e.stderr or b"").decode(errors="replace") if isinstance(e.stderr, bytes) else (e.stderr or "")
        rc = -9
    reports = re.findall(r"WARNING: ThreadSanitizer: data race.*?SUMMARY: ThreadSanitizer: [^\n]*", err, re.S)
    # a report counts against the library only when one of the two racing accesses is made by library code: a race between two
    # accesses of the scenario program itself (both innermost frames in harness/tsan_scenarios.cpp) is a defect of the harness
    reports = [r for r in reports if _touches_library(r)]
    return rc, reports


def _touches_library(rep):
    """does one of the two conflicting accesses of a ThreadSanitizer report have a cocls frame (src/cocls/*.h or a cocls:: function) among its
    first frames? (frames `#0..#3` of the access stacks: the inlined library code sits directly above the scenario's lambda)"""
    stacks = re.split(r"\n\s*\n", rep)
    for st in stacks[:2]:
        frames = re.findall(r"^\s*#(\d+) ([^\n]*)$", st, re.M)
        for n, txt in frames:
            if int(n) <= 3 and ("/src/cocls/" in txt or "cocls::" in txt):
                return True
    return False


def report_functions(rep):
    return sorted(set(re.findall(r"cocls::([\w:<>~ ]+?)\(", rep)))


def failing_protocols():
    """ask Lean which protocols are not sufficient on the regenerated table"""
    path = os.path.join(core.LEAN, "Audit_C03q_%d.lean" % os.getpid())
    with open(path, "w") as f:
        f.write("import CoclsModel.Orders\nimport CoclsModel.Clock\nimport CoclsModel.Generated.AtomicSites\n"
                "import CoclsModel.Generated.LockTables\n" + C03_DEFS_SNIPPET)
    try:
        with core.LakeLock():
            core.sh(["lake", "build", "CoclsModel.Generated.AtomicSites", "CoclsModel.Generated.LockTables", "CoclsModel.Clock"], cwd=core.LEAN, timeout=1200)
            rc, out, err = core.sh(["lake", "env", "lean", os.path.basename(path)], cwd=core.LEAN, timeout=600)
    finally:
        try:
            os.unlink(path)
        except OSError:
            pass
    return re.findall(r'"([^"]+)"', out)


# re-states the protocol list of Props/C03.lean for evaluation when that module itself does not build
def _snippet():
    src = open(os.path.join(core.LEAN, "CoclsModel", "Props", "C03.lean")).read()
    a = src.index("namespace Cocls.C03")
    b = src.index("/-- **Obligation 1 on the current source**")
    return src[a:b] + "\n#eval (protocols.filter (fun p => !protoOk Generated.atomicSites p)).map (·.name)\nend Cocls.C03\n"


C03_DEFS_SNIPPET = ""


class C03(Spec):
    pid = "C03"
    lean_modules = ["CoclsModel.Props.C03", "CoclsModel.Props.C03b"]
    extract = True
    design_ref = "DESIGN.md §5 C03"
    technique = "Lean 4 proof on a happens-before machine instantiated with memory orders / lock regions extracted from the source by a clang-AST translator"
    level_text = ("Lean 4 theorems: (1) release/acquire message passing with release sequences, fences and stale reads is race free for any number of threads and every schedule iff "
                  "the publishing op releases and the observing op acquires (Clock.lean, mp_safe_iff); (1b) every lock-free protocol of cocls AS A WHOLE - promise/future/awaiter chain "
                  "(ChainClock), coroutine mutex (MutexClock), reusable_storage_mtsafe try-lock over any number of rounds (TryLockClock), the generator's _block ping-pong (PingPongClock) - "
                  "is the property's micro-step model (the one C01/C02/C07/C08/C19 compare with the headers) instrumented with vector clocks and FastTrack metadata for EVERY plain access, "
                  "proved race free for all configurations, schedules and stale reads under a sufficiency predicate on the memory orders, with `decide` witnesses that each clause is "
                  "necessary, and `decide` proves over the atomic-site table regenerated from /repo on every run that the orders written in the source satisfy it; (2) lock "
                  "discipline => race freedom (LockDisc.lean, LockProg.lean) and `decide` over the regenerated lock programs / guarded-access table of queue/limited_queue/thread_pool/"
                  "scheduler/publisher; (3) position facts about plain accesses to published nodes, incl. the ones the whole-protocol models assume. Behaviour on x86 cannot reveal a "
                  "missing release, so the tie is the translator; ThreadSanitizer scenario runs on the real headers are the search engine once an obligation breaks.")
    level_note = ("trusted: Lean kernel; the extractor (python over clang-14's JSON AST: atomic call sites and their memory_order arguments, lock_guard/unique_lock regions tracked "
                  "branch-sensitively, member accesses by object type, private names canonicalised by an alpha-renaming guessed against a committed baseline - extract/names.py); the "
                  "lookups that bind the orders of a whole-protocol model to source sites (chainOrdersOf, mutexOrdersOf, tryLockOrdersOf, genBlockOrdersOf: class/function/kind, `none` = "
                  "obligation fails) and the older pairwise protocol list; that the micro-step models have the plain accesses of the code (position obligations over the extracted "
                  "plain-access table cover walk / subscribe / set-before-resolve / build_queue / unlock / mtsafe; the rest is the hand-written model, tied by the C01/C02/C07/C08/C19 replays). Memory "
                  "model fragment: relaxed/acquire/release/acq_rel, seq_cst treated as acq_rel, release sequences through RMWs, acquire fences; not modelled: consume, release "
                  "fences, mixed-size, OOTA. std::shared_ptr / stop_token internals and implicit seq_cst conversions of atomics are not in the tables. Interleaving-level "
                  "conflicts are C02/C07's.")
    trusted_base = ["extract/astwalk.py + extract/extract.py (translator, trusted as a program)",
                    "site lookups of the whole-protocol models, pairwise protocol list and guarded-class list (hand-written) in Props/C03.lean, Props/C03b.lean and extract/extract.py",
                    "modelled assumptions of the clock models, stated in their files: a coroutine hand-over between threads (frame migration, generator body hop, pool hop) synchronises; "
                    "a resumed coroutine continues in the resumer's clock",
                    "C++20 memory model fragment of lean/CoclsModel/Clock.lean (DESIGN §4.4)"]
    assumptions = ["seq_cst is treated as acq_rel (weaker, hence sound for race freedom)",
                   "atomic::notify_* only uses the address of the atomic object"]

    def suites(self):
        return []

    def table_obligations(self):
        return ["c03_current_orders", "c03_no_consume", "c03_lock_tables", "c03_lock_tables_cover", "c03_mutex_no_touch_after_publish",
                "c03_walk_reads_next_before_resume", "c03_unlock_unlinks_before_resume", "c03_final_resolve_before_destroy",
                "c03_build_queue_acquires_before_queue", "c03_lock_programs_disciplined", "c03_lock_programs_cover",
                "c03_lock_programs_classes", "c03_set_constructs_before_state",
                "c03_awaiter_no_touch_after_publish", "c03_sites_accounted", "c03_rmw_shapes", "c03_tracer_ref_before_publish", "c03_mtsafe_dealloc_no_write_after_release",
                "c03_mtsafe_alloc_writes_after_acquire", "c03_start_in_sets_pool_before_handover", "c03_hint_loads_gate_nothing", "c03_guarded_data_does_not_escape",
                "c03_trylock_orders_current", "c03_genblock_orders_current", "c03_elide_hint_orders_current", "c03_async_awaiter_orders_current", "c03_small_sites_accounted"] + CHAIN_TABLE_OBLIGATIONS + MUTEX_TABLE_OBLIGATIONS + SIGNAL_TABLE_OBLIGATIONS

    def prebuild(self):
        tsan_binary()

    def extra_checks(self, ctx):
        ex = ctx.get("extract", {})
        ctx["extra_coverage"] = {
            "evaluations": ex.get("atomic_sites", 0) + ex.get("guarded_accesses", 0) + ex.get("plain_accesses", 0),
            "distinct_nontrivial": ex.get("atomic_sites", 0) + ex.get("guarded_accesses", 0) + ex.get("plain_accesses", 0),
            "rule": "one evaluation = one extracted table row (atomic site / guarded access / plain access) covered by a decide obligation; all rows are distinct",
            "samples": [{"table": "atomicSites", "rows": ex.get("atomic_sites")}, {"table": "guardedAccesses", "rows": ex.get("guarded_accesses"),
                        "unlocked_rows": ex.get("guarded_unlocked")}, {"table": "plainAccesses", "rows": ex.get("plain_accesses")}],
        }
        if ctx["tier"] == "thorough" and not ctx["proof_broken"]:
            # exploration only: TSan never decides. A report between classified sites is recorded, a report that touches no
            # classified function means the tables do not cover that code: the tie is incomplete -> violation.
            exe = tsan_binary()
            notes, total = [], 0
            classified = self._classified_functions()
            for sc in ALL_SCENARIOS:
                rc, reps = run_tsan(exe, sc, 150)
                total += 1
                for r in reps[:3]:
                    fns = report_functions(r)
                    if fns and not any(any(c in f for c in classified) for f in fns):
                        ctx["violations"].append({"kind": "tsan-unclassified", "msg": "ThreadSanitizer report at code the tables do not classify: %s" % fns[:4],
                                                  "payload": {"scenario": sc, "report": r[:6000], "replay_cmd": "%s %s 150" % (exe, sc)},
                                                  "signature": {"msg": "tsan-unclassified"}})
                    else:
                        notes.append({"scenario": sc, "functions": fns[:6], "status": "tsan_unconfirmed (ordered by the machine)"})
                if rc == -9:
                    notes.append({"scenario": sc, "status": "timeout"})
            ctx["extra_coverage"]["tsan_scenarios_run"] = total
            ctx["extra_coverage"]["tsan_notes"] = notes[:20]

    def _classified_functions(self):
        out = set()
        gen = os.path.join(core.LEAN, "CoclsModel", "Generated")
        for fn in ("AtomicSites.lean", "LockTables.lean", "SharedAccess.lean"):
            try:
                for m in re.finditer(r'cls := "([^"]*)", fn := "([^"]*)"', open(os.path.join(gen, fn)).read()):
                    out.add(m.group(2))
                    if m.group(1):
                        out.add(m.group(1).split("::")[-1])
            except OSError:
                pass
        out.discard("")
        return out

    def search(self, ctx):
        """an obligation broke: look for a concrete racing execution on the real headers"""
        global C03_DEFS_SNIPPET
        found = []
        broken = {d.get("decl") for d in ctx["proof_broken"]}
        scenarios = []
        if "c03_current_orders" in broken or "?" in broken:
            try:
                C03_DEFS_SNIPPET = _snippet()
                names = failing_protocols()
            except Exception as e:
                core.log("failing_protocols: %r" % (e,))
                names = []
            ctx["notes"].append({"insufficient_protocols": names})
            for key, scs in PROTO_SCENARIOS:
                if any(n.startswith(key) or key in n for n in names):
                    scenarios += scs
            if not names:
                scenarios += ALL_SCENARIOS
        if broken & {"c03_lock_programs_disciplined", "c03_lock_programs_cover", "c03_lock_programs_classes"}:
            # which member functions does LockProg.check reject on this tree?
            bad = []
            try:
                bad = failing_lock_programs()
            except Exception as e:
                core.log("failing_lock_programs: %r" % (e,))
            ctx["notes"].append({"lock_programs_rejected": bad})
            hit = False
            for cls, scs in CLASS_SCENARIOS.items():
                if any(b.startswith(cls.replace("::", "_")) for b in bad):
                    scenarios += scs
                    hit = True
            if not hit:
                for scs in CLASS_SCENARIOS.values():
                    scenarios += scs
        if "c03_lock_tables" in broken or "c03_lock_tables_cover" in broken:
            for cls, fn, field in ctx.get("extract", {}).get("guarded_unlocked", []):
                scenarios += CLASS_SCENARIOS.get(cls, [])
        if broken & {"c03_mutex_no_touch_after_publish", "c03_unlock_unlinks_before_resume"}:
            found += self._baton_search("c07")
        if "c03_set_constructs_before_state" in broken:
            found += self._baton_search("c01")
        if broken & {"c03_walk_reads_next_before_resume", "c03_final_resolve_before_destroy", "c03_awaiter_no_touch_after_publish"}:
            found += self._baton_search("c02")
        if "c03_guarded_data_does_not_escape" in broken:
            for cls, fn, what in ctx.get("extract", {}).get("guarded_escapes", []):
                scenarios += CLASS_SCENARIOS.get(cls, [])
        if "c03_hint_loads_gate_nothing" in broken:
            scenarios += ["future_has_value", "future_poll", "future_await", "shared"]
        if "c03_chain_orders_current" in broken:
            # the orders of the promise / future / awaiter-chain protocol as a whole (ChainClock.lean) are no longer sufficient
            scenarios += CHAIN_SCENARIOS
        if broken & {"c03_chain_walk_accesses", "c03_chain_subscribe_accesses", "c03_chain_set_before_resolve"}:
            # a plain access the whole-protocol model assumes moved: interleaving-level search first, then the TSan scenarios
            try:
                found += self._baton_search("c02")
            except Exception as e:
                core.log("baton search c02: %r" % (e,))
            scenarios += CHAIN_SCENARIOS
        if "c03_start_in_sets_pool_before_handover" in broken:
            scenarios += ["scheduler_pool_start", "scheduler"]
        if broken & {"c03_mtsafe_dealloc_no_write_after_release", "c03_mtsafe_alloc_writes_after_acquire"}:
            scenarios += ["storage_sizes", "storage"]
        if broken & {"c03_trylock_orders_current", "c03_small_sites_accounted"}:
            scenarios += ["storage", "storage_sizes"]
        if broken & {"c03_genblock_orders_current", "c03_small_sites_accounted"}:
            scenarios += ["generator"]
        if "c03_elide_hint_orders_current" in broken:
            scenarios += ["scheduler_multi_start", "scheduler"]
        if "c03_async_awaiter_orders_current" in broken:
            scenarios += ["future_await"]
        if "c03_build_queue_acquires_before_queue" in broken:
            scenarios += ["mutex_window", "mutex"]
        if broken & set(SIGNAL_TABLE_OBLIGATIONS):
            # the orders (or the shape) of the signal's chain protocol as a whole (SignalClock.lean) are no longer sufficient
            scenarios += SIGNAL_SCENARIOS
        if broken & set(MUTEX_TABLE_OBLIGATIONS):
            # the orders of the coroutine mutex protocol as a whole (MutexClock.lean) are no longer sufficient
            scenarios += MUTEX_SCENARIOS
        if "c03_tracer_ref_before_publish" in broken:
            try:
                found += self._baton_search("c17")
            except Exception as e:
                core.log("baton search c17: %r" % (e,))
            scenarios += ["shared"]
        if broken & {"c03_sites_accounted", "c03_rmw_shapes"}:
            for other in ("c01", "c07", "c15", "c19"):
                if not found:
                    try:
                        found += self._baton_search(other)
                    except Exception as e:
                        core.log("baton search %s: %r" % (other, e))
            if not found:
                scenarios += ALL_SCENARIOS
        seen = set()
        scenarios = [s for s in scenarios if not (s in seen or seen.add(s))]
        if scenarios:
            exe = tsan_binary()
            for sc in scenarios:
                for iters in (100, 1000, 4000):
                    rc, reps = run_tsan(exe, sc, iters)
                    if reps:
                        found.append(("data race reported by ThreadSanitizer in scenario `%s`: %s" % (sc, ", ".join(report_functions(reps[0])[:4])),
                                      {"scenario": sc, "iterations": iters, "report": reps[0][:8000], "replay_cmd": "%s %s %d" % (exe, sc, iters),
                                       "broken_obligations": ctx["proof_broken"][:6]}))
                        break
                if found:
                    break
        return found

    def _baton_search(self, other):
        import importlib
        import random
        from vlib import runner
        spec = importlib.import_module("checks." + other).SPEC
        out = []
        for suite in spec.suites():
            r = runner._run_suite(spec, suite, "quick", random.Random(core.seed() + 13),
                                  {"driver_ok": False, "escalate": 3, "seed": core.seed() + 13}, budget_scale=1)
            for it in r["crashes"][:1]:
                out.append(("crash under the deterministic scheduler (%s suite)" % other, {"suite": suite.name, "case": it["case"]["lines"], "stderr": it["err"][-3000:]}))
            for it in r["oracle_fail"][:1]:
                out.append((it["msg"], {"suite": suite.name, "case": it["case"]["lines"], "impl_output": it["impl"]}))
        return out


SPEC = C03()
