"""C08 — coroutine mutex: FIFO hand-off and no lost request."""
from vlib.runner import Spec
from checks import mutex_common as mc


class C08Suite(mc.MutexSuite):
    name = "handoff-order"
    corpus_prefix = "c08_"

    def gen_cases(self, rng, tier):
        if tier == "quick":
            return mc.gen_random(rng, 1500, 3, 4, 3)
        return mc.gen_random(rng, 20000, 2, 4, 3) + mc.gen_exhaustive_pairs(12, rounds=2) + mc.gen_preemption_bounded_triples(rng, 6, 14, 3)

    def oracle(self, case, out):
        i = mc.parse(case, out)
        if i["crash"]:
            return ["crash: the implementation crashed"]
        if i["assert"]:
            return ["assert: " + i["assert"]]
        msgs = []
        waiting = []
        for ev in i["events"]:
            if ev[0] == "publish":
                waiting.append(ev[1])
            else:
                a = ev[1]
                if a in waiting:
                    if waiting[0] != a:
                        msgs.append("fifo: a%d was granted the lock before the longer-waiting a%d" % (a, waiting[0]))
                    waiting.remove(a)
        if i["deadlock"]:
            msgs.append("lost: a request was lost or the mutex stayed locked with no owner (contenders stuck)")
            return msgs
        if i["final"] and tuple(i["final"][:2]) != ("req=free", "queue=empty"):
            msgs.append("stuck: all ownerships released but the mutex is %s %s" % tuple(i["final"][:2]))
        if i["final"] and ("slot=armed" in i["final"] or "aux=locked" in i["final"]):
            msgs.append("stuck: every contender is done but an ownership object is still armed (%s)" % " ".join(i["final"][2:]))
        for a, (d, t) in i["rounds"].items():
            if d != t:
                msgs.append("lost: agent a%d finished %d of %d rounds" % (a, d, t))
        if waiting:
            msgs.append("lost: requests of %s were never granted" % waiting)
        return msgs


class C08(Spec):
    pid = "C08"
    lean_modules = ["CoclsModel.Props.C08"]
    design_ref = "DESIGN.md §5 C08"
    technique = "Lean 4 invariant proof over all schedules of a micro-step model + step-for-step differential replay on the real header under a baton scheduler"
    level_text = ("Lean 4 theorems over the micro-step mutex model (any number of contenders, every schedule): pending requests are kept in arrival order (queue ++ reversed stack sorted by "
                  "arrival stamp), every hand-over goes to the oldest pending request, a published request is in exactly one of stack/queue until granted, the mutex is never locked "
                  "without an owner, try_lock is a single step that succeeds iff the mutex is free; every way an unlock can be triggered through a mutex::ownership object (release(), "
                  "awaited release, destructor, move into a temporary, move-assignment over a held ownership incl. hand-over-hand with a second mutex) enters the same unlock step, and "
                  "requests come from co_await, try_lock, blocking lock()/ownership(co_awaiter&&)/force_wait (also from plain code inside a running coroutine) and callback awaiters. Tied to mutex.h by step-for-step replay of generated/enumerated schedules; FIFO and "
                  "no-loss oracles on the implementation trace.")
    level_note = ("trusted: Lean kernel; hand-written list-level model; baton shim (SC interleavings); which OS thread continues the new owner is modelled by the executor glue of the "
                  "same model and validated by the replay.")
    trusted_base = ["model lean/CoclsModel/Mutex.lean tied to mutex.h by step-for-step replay (harness/h_mutex.cpp) against lean/Drivers/C07.lean",
                    "C++20 coroutine machinery and libstdc++ as specified"]
    assumptions = ["interleavings are sequentially consistent (memory orders: C03)", "every owner eventually releases (liveness is stated as: no stuck state)"]

    def suites(self):
        return [C08Suite()]


SPEC = C08()
