"""C08 — coroutine mutex: FIFO hand-off and no lost request."""
from vlib.runner import Spec
from checks import mutex_common as mc


class C08Suite(mc.MutexSuite):
    name = "handoff-order"
    corpus_prefix = "c08_"

    def gen_cases(self, rng, tier):
        if tier == "quick":
            return mc.gen_random(rng, 1500, 3, 4, 3)
        return mc.gen_random(rng, 20000, 2, 4, 3) + mc.gen_exhaustive_pairs(12, rounds=2) + mc.gen_preemption_bounded_triples(rng, 6, 14, 3)

    def oracle(self, case, out):
        i = mc.parse(case, out)
        if i["crash"]:
            return ["crash: the implementation crashed"]
        if i["assert"]:
            return ["assert: " + i["assert"]]
        msgs = []
        waiting = []
        for ev in i["events"]:
            if ev[0] == "publish":
                waiting.append(ev[1])
            else:
                a = ev[1]
                if a in waiting:
                    if waiting[0] != a:
                        msgs.append("fifo: a%d was granted the lock before the longer-waiting a%d" % (a, waiting[0]))
                    waiting.remove(a)
        if i["deadlock"]:
            msgs.append("lost: a request was lost or the mutex stayed locked with no owner (contenders stuck)")
            return msgs
        if i["final"] and tuple(i["final"][:2]) != ("req=free", "queue=empty"):
            msgs.append("stuck: all ownerships released but the mutex is %s %s" % tuple(i["final"][:2]))
        if i["final"] and ("slot=armed" in i["final"] or "aux=locked" in i["final"]):
            msgs.append("stuck: every contender is done but an ownership object is still armed (%s)" % " ".join(i["final"][2:]))
        for a, (d, t) in i["rounds"].items():
            if d != t:
                msgs.append("lost: agent a%d finished %d of %d rounds" % (a, d, t))
        if waiting:
            msgs.append("lost: requests of %s were never granted" % waiting)
        return msgs


class C08PtrSuite(C08Suite):
    """The pointer level: the harness prints, after every operation line, a digest of the REAL `_requests`, `_queue` and of the
    `_next` field of every request node it knows to be alive; the driver runs the pointer-level model (MutexPtr.lean: links are
    links, build_queue is an exchange plus an explicit loop in the caller's next segment, unlock pops by pointer) and prints the
    same lines. The FIFO / no-loss oracles run on the operation lines as in `handoff-order`; `ptr_oracle` restates the property on
    the printed links."""
    name = "ptr-level"
    corpus_prefix = "c08p_"
    driver = "drv_c08p"

    def gen_cases(self, rng, tier):
        if tier == "quick":
            return mc.gen_random(rng, 300, 2, 4, 3, kind="mutexp")
        return mc.gen_random(rng, 6000, 2, 4, 3, kind="mutexp") + mc.gen_exhaustive_pairs(10, rounds=1, kind="mutexp")

    def oracle(self, case, out):
        return C08Suite.oracle(self, case, out) + self.ptr_oracle(case, out)

    @staticmethod
    def ptr_oracle(case, out):
        """on the real links: `_queue` is a null-terminated chain of alive request nodes in arrival order (arrival = the successful
        publishing CAS of the node's owner), `_requests` is a chain of alive request nodes, newest first, ending in the doorman or in
        null; no pointer leads to something that is not a known alive request node"""
        msgs = []
        stamp, clock = {}, 0
        digs = {d["after"]: d for d in mc.parse_digests(out)}
        for i, l in enumerate(out):
            w = l.split()
            if len(w) >= 6 and w[0] == "s" and w[3] == "cas+" and w[4] == "req" and w[5].endswith(">ptr"):
                stamp[int(w[2][1:])] = clock
                clock += 1
            d = digs.get(i)
            if d is None:
                continue
            q, qend = mc.chain(d, d["queue"])
            r, rend = mc.chain(d, d["req"])
            if qend != "null":
                msgs.append("ptr: _queue is not a null-terminated chain of alive request nodes (ends in %s) after `%s`" % (qend, l))
            if rend not in ("null", "door"):
                msgs.append("ptr: _requests is not a chain of alive request nodes ending in the doorman or null (ends in %s) after `%s`" % (rend, l))
            if set(q) & set(r):
                msgs.append("ptr: a request node is linked both from _queue and from _requests after `%s`" % l)
            ag = lambda n: int(n[1:].split(".")[0])
            qs = [stamp.get(ag(n), -1) for n in q]
            if any(a >= b for a, b in zip(qs, qs[1:])):
                msgs.append("fifo-ptr: _queue links a later request before an earlier one (%s) after `%s`" % (" ".join(q), l))
            rs = [stamp.get(ag(n), -1) for n in r]
            if any(a <= b for a, b in zip(rs, rs[1:])):
                msgs.append("ptr: the _requests stack is not newest-first (%s) after `%s`" % (" ".join(r), l))
            if msgs:
                break
        return msgs[:3]

    def nontrivial(self, case, out):
        # a request waited and the queue was rebuilt from at least one link
        return mc.MutexSuite.nontrivial(self, case, out) and any(" xchg req ptr>" in l for l in out)


class C08(Spec):
    pid = "C08"
    lean_modules = ["CoclsModel.Props.C08"]
    design_ref = "DESIGN.md §5 C08"
    technique = "Lean 4 invariant proof over all schedules of a micro-step model + step-for-step differential replay on the real header under a baton scheduler"
    level_text = ("Lean 4 theorems over the micro-step mutex model (any number of contenders, every schedule): pending requests are kept in arrival order (queue ++ reversed stack sorted by "
                  "arrival stamp), every hand-over goes to the oldest pending request, a published request is in exactly one of stack/queue until granted, the mutex is never locked "
                  "without an owner, try_lock is a single step that succeeds iff the mutex is free; every way an unlock can be triggered through a mutex::ownership object (release(), "
                  "awaited release, destructor, move into a temporary, move-assignment over a held ownership incl. hand-over-hand with a second mutex) enters the same unlock step, and "
                  "requests come from co_await, try_lock, blocking lock()/ownership(co_awaiter&&)/force_wait (also from plain code inside a running coroutine) and callback awaiters. Tied to mutex.h by step-for-step replay of generated/enumerated schedules; FIFO and "
                  "no-loss oracles on the implementation trace.")
    level_note = ("trusted: Lean kernel; hand-written list-level model and pointer-level model (MutexPtr.lean: _requests/_queue/_next as pointers, build_queue as exchange + explicit loop, "
                  "unlock popping by pointer), the latter proved to refine the former (Repr, agentStep_sim, threadStep_sim: c08_ptr_refines_list[_threads], c08_build_queue_is_reversal, "
                  "c08_queue_is_arrival_order_ptr) and compared with the real pointer state after every operation (suite ptr-level); baton shim (SC interleavings); which OS thread continues "
                  "the new owner is modelled by the executor glue of the same models and validated by the replay.")
    trusted_base = ["model lean/CoclsModel/Mutex.lean tied to mutex.h by step-for-step replay (harness/h_mutex.cpp) against lean/Drivers/C07.lean",
                    "model lean/CoclsModel/MutexPtr.lean tied to mutex.h by step-for-step replay including a digest of the real _requests/_queue/_next links against lean/Drivers/C08P.lean",
                    "C++20 coroutine machinery and libstdc++ as specified"]
    assumptions = ["interleavings are sequentially consistent (memory orders: C03)", "every owner eventually releases (liveness is stated as: no stuck state)"]

    def suites(self):
        return [C08Suite(), C08PtrSuite()]


SPEC = C08()
