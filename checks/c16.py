"""C16 — publisher: subscribers see a gap-free, ordered, duplicate-free stream."""
import re
from vlib.runner import Spec, Suite

HARNESS = ("h_publisher", ["h_publisher.cpp"], {})

NEXT_OPS = ("res", "poll", "pollr", "blk", "co", "chain")


def parse_line(line):
    """'head ; e1 e2' -> (head words, [event strings])"""
    head, _, tail = line.partition(" ; ")
    return head.split(), tail.split()


def kv(words, key):
    for w in words:
        if w.startswith(key + "="):
            return int(w[len(key) + 1:])
    return None


class Sub:
    def __init__(self, sid, mode, start, covered, kind):
        self.sid, self.mode, self.start, self.covered, self.kind = sid, mode, start, covered, kind
        self.got = []          # (value, position())
        self.eof = None        # reason string once end of stream was seen
        self.parked = None     # None | 'w' (hand-driven) | 'b' | 'c'
        self.kicked = False
        self.gone = False
        self.loop = False      # a range-for consumer thread: goes on to the next next() after every value
        self.pos = start


def gen_history(rng, maxlen, minlen, nops, flavour):
    """one random history; values are 1,2,3,... so the value published at position p is p"""
    lines = ["case 0 pub %d %d" % (maxlen, minlen)]
    live = []            # [sid, mode, style, stage]
    next_sid = 0
    nextv = 1
    alive = True         # publisher object exists
    cap = maxlen if maxlen else 6

    def new_sub():
        nonlocal next_sid
        if next_sid >= 12:
            return
        sid = next_sid
        mode = rng.choice("aaab" "br" if flavour != "skip" else "abbrr")
        style = rng.choice(["manual", "manual", "poll", "co", "blk", "blk", "mixed", "chain", "rfor"])
        r = rng.random()
        if live and r < 0.22:
            src = rng.choice(live)
            lines.append("copy %d %d" % (sid, src[0]))
            mode = src[1]
        elif not alive:
            return
        elif r < 0.5 and nextv > 1:
            # explicit position: mostly inside the retained window, sometimes older, never in the future
            npub = nextv - 1
            lo = max(0, npub - cap - 1)
            p = rng.randint(lo, npub) if rng.random() < 0.85 else rng.randint(0, npub)
            lines.append("subat %d %s %d" % (sid, mode, p))
        else:
            lines.append("sub %d %s" % (sid, mode))
        next_sid += 1
        live.append([sid, mode, style, 0])

    def publish():
        nonlocal nextv
        if rng.random() < 0.7:
            lines.append("pub %d" % nextv)
            nextv += 1
        else:
            k = rng.choice([0, 2, 2, 3, cap, cap + 1, cap + 2])
            # batch from a vector (pubn) or from a single-pass input iterator (pubi)
            lines.append((rng.choice(["pubn ", "pubi "]) + " ".join(str(nextv + i) for i in range(k))).strip())
            nextv += k

    def sub_step(ent):
        sid, mode, style, stage = ent[:4]
        st = style if style != "mixed" else rng.choice(["manual", "poll", "co", "blk", "pollr", "chain"])
        if st == "chain" and stage == 0:
            # listener coroutine: next() here, then at once (inside the wake-up pass that resumes it) next() there
            others = [e[0] for e in live if e[2] in ("chain", "co", "poll")] or [sid]
            lines.append("chain %d %d" % (sid, rng.choice(others + [sid])))
            return
        if stage == 9:
            publish()
        elif st == "manual" or stage > 0:
            if stage == 0:
                if rng.random() < 0.12:
                    lines.append("sus %d" % sid)
                    ent[3] = 2
                else:
                    lines.append("rdy %d" % sid)
                    ent[3] = 1
            elif stage == 1:
                r = rng.random()
                if r < 0.15:
                    lines.append("rdy %d" % sid)       # poll again (what a blocking caller does)
                elif r < 0.25:
                    lines.append("res %d" % sid)       # right when rdy said yes
                    ent[3] = 0
                else:
                    lines.append("sus %d" % sid)
                    ent[3] = 2
            else:
                lines.append("res %d" % sid)
                if rng.random() < 0.8:
                    ent[3] = 0
        elif st == "rfor":
            # a consumer thread running a range-for over the subscriber; afterwards it only needs to be fed
            if len(ent) == 4 and stage != 9:
                lines.append("rfor %d" % sid)
                ent[3] = 9
            else:
                publish()
        elif st == "blk":
            # spellings of a blocking next(): bool(next()) / !next() / iterator begin,++ / postfix ++
            lines.append("blk %d %s" % (sid, rng.choice(["bool", "not", "it", "it", "itpost"])))
        elif st == "co" and rng.random() < 0.4:
            lines.append("co %d not" % sid)
        else:
            lines.append("%s %d" % (st, sid))

    new_sub()
    if rng.random() < 0.6:
        new_sub()
    budget = nops
    closed = False
    left = []            # sids of subscribers that have left (their identity stays valid for a stale kick)

    def note_close():
        nonlocal budget, closed
        if not closed:
            closed = True
            budget = min(budget, rng.randint(3, 12))

    def retire(ent):
        # a kicked subscriber ends at its next next(); keep it for a few more operations only
        ent.append(rng.randint(1, 3))

    while budget > 0:
        budget -= 1
        for ent in list(live):
            if len(ent) > 4:
                ent[4] -= 0.34
                if ent[4] <= 0:
                    live.remove(ent)
        r = rng.random()
        if flavour == "window" and live and r < 0.25:
            # the window between ready() and subscribe() of one next(), with something landing in it
            ent = rng.choice(live)
            sid = ent[0]
            lines.append("poll %d" % sid)
            lines.append("poll %d" % sid)
            lines.append("rdy %d" % sid)
            for _ in range(rng.randint(1, 3)):
                x = rng.random()
                if x < 0.3 and not closed:
                    lines.append("close" if rng.random() < 0.8 or not alive else "destroy")
                    if lines[-1] == "destroy":
                        alive = False
                    note_close()
                elif x < 0.9:
                    publish()
                else:
                    lines.append("kick %d" % sid)
                    if len(ent) == 4:
                        retire(ent)
            lines.append("sus %d" % sid)
            lines.append("res %d" % sid)
            lines.append("poll %d" % sid)
            ent[3] = 0
            continue
        if r < 0.45 and live:
            sub_step(rng.choice(live))
        elif r < 0.80:
            publish()
        elif r < 0.88:
            new_sub()
        elif r < 0.905 and live:
            ent = rng.choice(live)
            lines.append(rng.choice(["kick %d", "kick %d", "kickme %d"]) % ent[0])
            if len(ent) == 4:
                retire(ent)
        elif r < 0.935 and live:
            ent = rng.choice(live)
            lines.append("leave %d" % ent[0])
            if rng.random() < 0.9:
                live.remove(ent)
                left.append(ent[0])
                if rng.random() < 0.6:
                    # late kick with the stale identity, then subscriptions that recycle the freed slot
                    lines.append("kick %d" % ent[0])
                    for _ in range(rng.randint(1, 2)):
                        new_sub()
        elif r < 0.95:
            lines.append("close")
            note_close()
        elif r < 0.96 and alive:
            lines.append("destroy")
            alive = False
            note_close()
        elif r < 0.97:
            if left and rng.random() < 0.7:
                lines.append("kick %d" % rng.choice(left))   # stale identity
                if rng.random() < 0.5:
                    new_sub()
            else:
                lines.append("kick %d" % rng.randint(0, 14))     # possibly nobody / somebody already gone
        else:
            publish()
    # drain: let everybody read to the end so that end-of-stream timing is exercised
    if rng.random() < 0.7:
        if rng.random() < 0.5:
            lines.append("close")
        for ent in live:
            for _ in range(rng.randint(1, 4)):
                lines.append(rng.choice(["poll %d", "co %d", "co %d not", "blk %d", "blk %d not", "blk %d it", "blk %d itpost",
                                         "pollr %d"]) % ent[0])
    lines.append("end")
    return {"id": 0, "lines": lines}


def exhaustive_windows():
    """every short sequence of queue-wide operations placed between ready() and subscribe() and between subscribe()
    and check_next() of one next(), for every mode, small configurations and three starting situations"""
    W = ["pub", "pubn2", "pubn3", "close", "kick"]
    seqs1 = [[]] + [[a] for a in W] + [[a, b] for a in W for b in W]
    seqs2 = [[]] + [[a] for a in W]
    cases = []
    for mode in "abr":
        for mx, mn in [(0, 1), (1, 1), (2, 1), (2, 2)]:
            for pre in range(3):
                for s1 in seqs1:
                    for s2 in seqs2:
                        v = [1]

                        def emit(lines, op):
                            if op == "pub":
                                lines.append("pub %d" % v[0]); v[0] += 1
                            elif op.startswith("pubn"):
                                k = int(op[4:])
                                lines.append(("pubi " if (v[0] + k) % 2 else "pubn ") + " ".join(str(v[0] + i) for i in range(k))); v[0] += k
                            elif op == "kick":
                                lines.append("kick 0")
                            else:
                                lines.append(op)
                        lines = ["case 0 pub %d %d" % (mx, mn), "sub 0 %s" % mode]
                        if pre >= 1:
                            emit(lines, "pub")
                        if pre == 2:
                            emit(lines, "pub")
                        if pre >= 1:
                            lines.append("poll 0")
                        lines.append("rdy 0")
                        for op in s1:
                            emit(lines, op)
                        lines.append("sus 0")
                        for op in s2:
                            emit(lines, op)
                        lines += ["res 0", "poll 0", "poll 0", "end"]
                        cases.append({"id": 0, "lines": lines})
    return cases


def exhaustive_reentrant():
    """a listener coroutine parked on subscriber 0 that, when resumed inside the wake-up pass of publish / close / kick /
    ~publisher, goes straight into next() of subscriber 1 (or of 0 again); every pair of modes, two starting situations,
    every sequence of one or two queue-wide operations, then a final close"""
    T = ["pub", "pubn3", "close", "kick 0", "kick 1", "destroy"]
    seqs = [[a] for a in T] + [[a, b] for a in T for b in T]
    cases = []
    for m1 in "abr":
        for m2 in "abr":
            for target in (1, 0):
                for pre in (0, 1):
                    for mx in (0, 2):
                        for sq in seqs:
                            v = 1
                            lines = ["case 0 pub %d 1" % mx, "sub 0 %s" % m1, "sub 1 %s" % m2]
                            if pre:
                                lines += ["pub %d" % v, "poll 0", "poll 1"]
                                v += 1
                            lines.append("chain 0 %d" % target)
                            for op in sq:
                                if op == "pub":
                                    lines.append("pub %d" % v); v += 1
                                elif op == "pubn3":
                                    lines.append("pubn %d %d %d" % (v, v + 1, v + 2)); v += 3
                                else:
                                    lines.append(op)
                            lines += ["close", "poll 0", "poll 1", "end"]
                            cases.append({"id": 0, "lines": lines})
    return cases


def exhaustive_stale_kick():
    """leave -> late kick with the identity of the subscriber that has left -> new subscriptions that recycle the freed
    registration; the newcomer must behave like any fresh subscriber"""
    cases = []
    for m in "abr":
        for m2 in "abr":
            for mx in (0, 2):
                for pre in range(4):          # what the leaver did: nothing / read one / was kicked / read one and was kicked
                    for other in (None, "co", "sus"):      # a second live subscriber: none / parked coroutine / parked by hand
                        for how in ("sub", "subat", "copy"):
                            for nkick in (1, 2):
                                lines = ["case 0 pub %d 1" % mx, "sub 0 %s" % m]
                                v = 1
                                if other:
                                    lines += ["sub 1 a", "%s 1" % other]
                                if pre in (1, 3):
                                    lines += ["pub %d" % v, "poll 0"]
                                    v += 1
                                if pre in (2, 3):
                                    lines.append("kick 0")
                                lines.append("leave 0")
                                lines += ["kick 0"] * nkick
                                if how == "sub":
                                    lines.append("sub 2 %s" % m2)
                                elif how == "subat":
                                    lines.append("subat 2 %s %d" % (m2, v - 1))
                                else:
                                    if not other:
                                        continue
                                    lines += ["pub %d" % v, "res 1" if other == "sus" else "poll 1", "copy 2 1"]
                                    v += 1
                                lines += ["pub %d" % v, "poll 2", "pub %d" % (v + 1), "co 2", "leave 2", "kick 2", "kick 0",
                                          "sub 3 %s" % m2, "pub %d" % (v + 2), "poll 3", "poll 3", "end"]
                                cases.append({"id": 0, "lines": lines})
    return cases


def exhaustive_rfor():
    """a range-for consumer thread (begin / != end / * / ++) and the iterator / operator! spellings of a blocking next()
    against every short sequence of queue-wide operations"""
    T = ["pub", "pubn2", "pubn3", "kick", "close"]
    seqs = [[a] for a in T] + [[a, b] for a in T for b in T] + [[a, b, c] for a in T for b in T for c in T]
    cases = []
    for m in "abr":
        for mx, mn in [(0, 1), (1, 1), (3, 2)]:
            for pre in (0, 2):
                for style in ("rfor", "it", "itpost", "not"):
                    for sq in seqs:
                        if style != "rfor" and len(sq) == 3:
                            continue
                        v = 1
                        lines = ["case 0 pub %d %d" % (mx, mn), "sub 0 %s" % m]
                        for _ in range(pre):
                            lines.append("pub %d" % v); v += 1
                        step = "rfor 0" if style == "rfor" else "blk 0 %s" % style
                        lines.append(step)
                        for op in sq:
                            if op == "pub":
                                lines.append("pub %d" % v); v += 1
                            elif op.startswith("pubn"):
                                k = int(op[4:])
                                lines.append("pubn " + " ".join(str(v + i) for i in range(k))); v += k
                            elif op == "kick":
                                lines.append("kick 0")
                            else:
                                lines.append(op)
                            if style != "rfor":
                                lines.append(step)
                        lines.append("end")
                        cases.append({"id": 0, "lines": lines})
    return cases


def exhaustive_copy_waiting():
    """a copy taken while the original is inside next(): waiting (parked by hand, as a coroutine, in a blocking call, in a
    range-for), woken but not yet fetched, or between ready() and check_next(); then every short sequence of queue-wide
    operations; the copy must continue from the original's position like any subscriber"""
    T = ["pub", "pubn3", "close", "kick 0", "kick 1"]
    seqs = [[]] + [[a] for a in T] + [[a, b] for a in T for b in T]
    cases = []
    for m in "abr":
        for mx in (0, 2):
            for pre in (0, 1):
                for how in ("sus", "co", "blk bool", "blk it", "rfor", "sus-woken", "rdy-yes"):
                    for sq in seqs:
                        v = 1
                        lines = ["case 0 pub %d 1" % mx, "sub 0 %s" % m]
                        if pre:
                            lines += ["pub %d" % v, "poll 0"]; v += 1
                        if how == "sus-woken":
                            lines += ["sus 0", "pub %d" % v]; v += 1
                        elif how == "rdy-yes":
                            lines += ["pub %d" % v, "rdy 0"]; v += 1
                        elif how == "rfor":
                            lines.append("rfor 0")
                        elif how.startswith("blk"):
                            lines.append("blk 0 %s" % how.split()[1])
                        else:
                            lines.append("%s 0" % how)
                        lines.append("copy 1 0")
                        for op in sq:
                            if op == "pub":
                                lines.append("pub %d" % v); v += 1
                            elif op == "pubn3":
                                lines.append("pubi %d %d %d" % (v, v + 1, v + 2)); v += 3
                            else:
                                lines.append(op)
                        if how in ("sus", "sus-woken", "rdy-yes"):
                            lines.append("res 0")
                        lines += ["poll 1", "poll 1", "co 1", "pub %d" % v, "poll 0", "end"]
                        cases.append({"id": 0, "lines": lines})
    return cases


class PubSuite(Suite):
    name = "pub-steps"
    harness = HARNESS
    driver = "drv_c16"
    corpus_prefix = "c16_"
    chunk = 30
    timeout = 240
    nontrivial_rule = "at least one value fetched and at least one subscriber parked or ended"

    def gen_cases(self, rng, tier):
        n = 3000 if tier == "quick" else 300000
        cases = exhaustive_windows()
        reent = exhaustive_reentrant()
        if tier == "quick":
            cases = rng.sample(cases, 700)
            reent = rng.sample(reent, 500)
        cases += reent
        cw = exhaustive_copy_waiting()
        cases += rng.sample(cw, 600) if tier == "quick" else cw
        rf = exhaustive_rfor()
        cases += rng.sample(rf, 600) if tier == "quick" else rf
        stale = exhaustive_stale_kick()
        cases += rng.sample(stale, 400) if tier == "quick" else stale
        for i in range(n):
            if rng.random() < 0.2:
                maxlen, minlen = 0, 1
            else:
                maxlen = rng.randint(1, 5)
                minlen = rng.randint(1, maxlen)
            flavour = rng.choice(["mix", "mix", "window", "skip"])
            nops = rng.randint(4, 15) if rng.random() < 0.25 else rng.randint(15, 60)
            cases.append(gen_history(rng, maxlen, minlen, nops, flavour))
        return cases

    # ------------------------------------------------------------------------------------------
    def replay(self, case, out):
        """walk input and implementation output together; returns (messages, subs, counters)"""
        msgs = []
        hdr = case["lines"][0].split()
        maxlen = int(hdr[3])
        ops = case["lines"][1:]
        stream = []          # published values; position p <-> stream[p-1]
        qlen = 0             # retained window length (printed by the harness on every publish/close)
        closed = False
        subs = {}
        cnt = {"values": 0, "parks": 0, "wakes": 0, "eof_closed": 0, "eof_kicked": 0, "eof_lag": 0, "eof_uncovered": 0,
               "bad": 0, "window_ops": 0, "reentrant": 0, "stale_kicks": 0, "rfor_items": 0, "copies_of_waiting": 0}
        in_window = {}       # sid -> ops seen since its rdy returned 0

        def fetched(s, txt, pos):
            """one completed next(): txt = 'v:<n>' | 'eof' | 'v:?'"""
            s.parked = None
            s.pos = pos
            if txt.startswith("v:?"):
                msgs.append("no-value: next() reported a value for subscriber %d %s" % (s.sid, {
                    "v:?": "without fetching one", "v:?const": "but value() const disagrees with value()",
                    "v:?postfix": "but it++ did not hand back the previous value", "v:?cmp": "but it == end() and it != end() agree",
                    "v:?deref": "but *it / it-> disagree with value()"}.get(txt, txt)))
                return
            if txt == "eof":
                if s.eof is not None:
                    return
                n = len(s.got)
                # drained: everything published was consumed (all_values: counted; skipping modes: position at the end)
                drained = closed and (s.start + n >= len(stream) if s.mode == "a" else pos >= len(stream) + 1)
                # lag is a reason only for all_values (the skipping modes never fall behind)
                lag = s.mode == "a" and maxlen != 0 and len(stream) - (s.start + n) > maxlen
                why = "kicked" if s.kicked else "closed" if drained else "lag" if lag else None
                if why is None and s.mode == "a" and not s.covered:
                    why = "uncovered"
                if why is None:
                    msgs.append("early-eof: subscriber %d (mode %s) got end of stream although it was not kicked, the publisher "
                                "was not closed-and-drained and it was not more than max behind (received %d from %d, published %d)"
                                % (s.sid, s.mode, n, s.start, len(stream)))
                    why = "illegal"
                else:
                    cnt["eof_" + why] += 1
                s.eof = why
                return
            v = int(txt[2:])
            cnt["values"] += 1
            if s.kicked and s.eof is None:
                msgs.append("kick-ignored: subscriber %d received %d after it was kicked" % (s.sid, v))
            if s.eof is not None:
                # values after the first end of stream are outside the statement
                return
            prev = s.got[-1][1] if s.got else s.start
            if pos <= prev:
                msgs.append("position: subscriber %d position went %d -> %d (must strictly increase)" % (s.sid, prev, pos))
            if s.mode == "a":
                want_pos = s.start + len(s.got) + 1
                want = stream[want_pos - 1] if want_pos - 1 < len(stream) else None
                if v != want:
                    kind = "duplicate" if any(v == g[0] for g in s.got) else "gap"
                    msgs.append("%s: subscriber %d (all_values, start %d) received %s, then %d; expected %s"
                                % (kind, s.sid, s.start, [g[0] for g in s.got][-4:], v, want))
            elif s.mode == "r":
                if not stream or v != stream[-1]:
                    msgs.append("not-newest: skip_to_recent subscriber %d received %d, newest is %s"
                                % (s.sid, v, stream[-1] if stream else None))
            else:
                oldest = len(stream) - qlen + 1
                want_pos = max(pos, oldest)
                want = stream[want_pos - 1] if 0 < want_pos <= len(stream) else None
                if v != want:
                    msgs.append("behind-value: skip_if_behind subscriber %d at position %d received %d, expected %s"
                                % (s.sid, pos, v, want))
            s.got.append((v, pos))

        follow = {}          # sid of a parked listener coroutine -> subscriber it awaits next as soon as it is resumed

        def park(s, kind, pos):
            s.parked = kind
            s.pos = pos
            cnt["parks"] += 1
            if closed:
                msgs.append("close-no-wake: subscriber %d was left waiting on a closed publisher" % s.sid)

        def handle_events(evs, expected):
            """events of one line; per subscriber they are in the order they happened.  `expected`: subscribers a
            listener coroutine goes on to (follow-ups of completions in the head of this line)"""
            parsed = []
            for e in evs:
                m = re.match(r"([wbc])(\d+)(?:=(bad)|=(\S+)@(\d+))?$", e)
                if not m:
                    msgs.append("trace: unparsable event %s" % e)
                    continue
                parsed.append((m.group(1), int(m.group(2)), m.group(3), m.group(4), int(m.group(5)) if m.group(5) else None))
            at_start = {x.sid for x in subs.values() if x.parked and not x.gone}
            # a release is the first non-rejected event of a subscriber that was waiting when the line began
            seen = set()
            for tag, sid, bad, txt, pos in parsed:
                if bad or sid in seen:
                    continue
                seen.add(sid)
                if sid in at_start and sid in follow:
                    expected.append(follow[sid])
            released = []
            for tag, sid, bad, txt, pos in parsed:
                if bad:
                    cnt["bad"] += 1
                    if sid in expected:
                        expected.remove(sid)
                    continue
                x = subs.get(sid)
                if x is None:
                    msgs.append("trace: event for unknown subscriber %d" % sid)
                    continue
                if x.parked and sid in at_start and sid not in released:
                    released.append(sid)
                    follow.pop(sid, None)
                    cnt["wakes"] += 1
                    if tag == "w":
                        x.parked = None
                    else:
                        fetched(x, txt, pos)
                        if x.loop and txt != "eof":
                            x.parked = "b"
                elif x.loop and x.parked and tag == "b" and sid in released:
                    # the range-for consumer took one more value (or the end) before it had to wait again
                    fetched(x, txt, pos)
                    cnt["rfor_items"] += 1
                    if txt != "eof":
                        x.parked = "b"
                elif sid in expected and tag == "c" and not x.parked:
                    expected.remove(sid)
                    cnt["reentrant"] += 1
                    if txt == "parked":
                        park(x, "c", pos)
                    else:
                        fetched(x, txt, pos)
                else:
                    msgs.append("spurious-wake: subscriber %d was resumed although it was not waiting" % sid)
            return at_start, released

        for op, line in zip(ops, out):
            w = op.split()
            head, evs = parse_line(line)
            if head and head[0] == "bad":
                cnt["bad"] += 1
                continue
            k = w[0]
            if k in ("pub", "pubn", "pubi", "close", "destroy", "end", "kick", "kickme"):
                if k == "pub":
                    stream.append(int(w[1]))
                elif k in ("pubn", "pubi"):
                    stream.extend(int(x) for x in w[1:])
                elif k in ("close", "destroy", "end"):
                    closed = True
                elif k in ("kick", "kickme"):
                    sid = int(w[1])
                    if sid in subs and not subs[sid].gone:
                        subs[sid].kicked = True
                q = kv(head, "q")
                if q is not None:
                    qlen = q
                for sid in in_window:
                    in_window[sid] += 1
                was_parked, released = handle_events(evs, [])
                if k in ("close", "destroy", "end"):
                    left = sorted(x.sid for x in subs.values() if x.parked and not x.gone)
                    if left:
                        msgs.append("close-no-wake: %s left subscribers %s waiting" % (k, left))
                if k in ("kick", "kickme"):
                    sid = int(w[1])
                    live_target = sid in subs and not subs[sid].gone
                    if live_target and sid in was_parked and sid not in released:
                        msgs.append("kick-no-wake: kicked subscriber %d stays waiting" % sid)
                    wrong = [x for x in released if x != sid or not live_target]
                    if wrong:
                        msgs.append("kick-wrong-target: kick of %d (%s) resumed subscribers %s"
                                    % (sid, "live" if live_target else "stale/unknown identity", wrong))
                    if not live_target:
                        cnt["stale_kicks"] += 1
                continue
            sid = int(w[1])
            pos = kv(head, "pos")
            if k in ("sub", "subat", "copy"):
                if k == "copy":
                    src = subs[int(w[2])]
                    mode, covered = src.mode, src.covered
                    # a waiting original stands at the position of the value that is not yet published: the copy starts at
                    # the last published one (and will receive the value the original waits for)
                    want = min(src.pos, len(stream))
                    if src.parked:
                        cnt["copies_of_waiting"] += 1
                    if pos != want:
                        msgs.append("copy: copy %d of subscriber %d starts at %d, the original is at %d (published %d)"
                                    % (sid, src.sid, pos, src.pos, len(stream)))
                    # window test again: the window may have moved since the original subscribed
                    covered = min(maxlen or 10 ** 9, len(stream) - pos + 1, len(stream)) <= qlen
                else:
                    mode = w[2]
                    if k == "subat":
                        if pos != int(w[3]):
                            msgs.append("subscribe: explicit start %s reported as %d" % (w[3], pos))
                        covered = min(maxlen or 10 ** 9, len(stream) - pos + 1, len(stream)) <= qlen
                    else:
                        covered = True
                        if pos != len(stream):
                            msgs.append("subscribe: new subscriber %d starts at %d, most recent value is %d" % (sid, pos, len(stream)))
                subs[sid] = Sub(sid, mode, pos, covered, k)
                continue
            s = subs.get(sid)
            if s is None:
                continue
            expected = []
            if k == "leave":
                s.gone = True
            elif k == "rdy":
                if head[2] == "0":
                    in_window.setdefault(sid, 0)
                else:
                    in_window.pop(sid, None)
                    s.pos = pos
            elif k == "sus":
                if in_window.pop(sid, 0):
                    cnt["window_ops"] += 1
                s.pos = pos
                if head[2] == "1":
                    park(s, "w", pos)
            elif k == "rfor":
                in_window.pop(sid, None)
                s.loop = True
                s.parked = "b"
                cnt["parks"] += 1
                handle_events(evs, [])
                evs = []
                if s.parked and closed:
                    msgs.append("close-no-wake: range-for consumer %d was left waiting on a closed publisher" % sid)
            elif k in NEXT_OPS:
                in_window.pop(sid, None)
                r = head[2]
                if r == "parked":
                    park(s, k[0], pos)
                    if k == "chain":
                        follow[sid] = int(w[2])
                elif r == "none":
                    pass
                elif r == "no":
                    # next_ready() == false: nothing now, or end of stream (then the position moved)
                    if pos != s.pos:
                        fetched(s, "eof", pos)
                else:
                    fetched(s, r, pos)
                    if k == "chain":
                        expected.append(int(w[2]))
            if evs:
                handle_events(evs, expected)
        return msgs, subs, cnt

    def oracle(self, case, out):
        hdr = case["lines"][0].split()
        if hdr[2] != "pub":
            return []
        if len(out) < len(case["lines"]) - 1:
            return ["trace: implementation printed %d lines for %d operations" % (len(out), len(case["lines"]) - 1)]
        return self.replay(case, out)[0]

    def nontrivial(self, case, out):
        try:
            _, subs, cnt = self.replay(case, out)
        except Exception:
            return False
        return cnt["values"] > 0 and (cnt["parks"] > 0 or any(s.eof for s in subs.values()))

    def stats(self, cases, outs):
        ops, modes, cfg, spell = {}, {}, {}, {}
        tot = {}
        for c in cases:
            hdr = c["lines"][0].split()
            if hdr[2] != "pub":
                continue
            key = "max=%s,min=%s" % ("unlimited" if hdr[3] == "0" else hdr[3], hdr[4])
            cfg[key] = cfg.get(key, 0) + 1
            for l in c["lines"][1:-1]:
                w = l.split()
                ops[w[0]] = ops.get(w[0], 0) + 1
                if w[0] in ("blk", "co"):
                    sp = "%s:%s" % (w[0], w[2] if len(w) > 2 else "bool")
                    spell[sp] = spell.get(sp, 0) + 1
                if w[0] in ("sub", "subat"):
                    modes[w[2]] = modes.get(w[2], 0) + 1
            try:
                _, subs, cnt = self.replay(c, outs.get(str(c["id"]), []))
            except Exception:
                continue
            for k, v in cnt.items():
                tot[k] = tot.get(k, 0) + v
        return {"ops": ops, "modes": modes, "configs": cfg, "observed": tot,
                "next_spellings": dict(spell, **{"rfor(range-for thread)": ops.get("rfor", 0)}),
                "value_access": "every fetched value is read through value() and value() const (and *it, it-> for the iterator spellings)"}


class ThreadSuite(Suite):
    """free-running publisher thread against blocking subscriber threads; the harness evaluates the statement on its own
    trace (which depends on timing) and prints a verdict that is constant when the property holds"""
    name = "pub-threads"
    harness = HARNESS
    driver = "drv_c16"
    corpus_prefix = None
    chunk = 4
    timeout = 120
    nontrivial_rule = "every case (publisher thread + 1..5 subscriber threads; styles bool / ! / range-for / iterator / polling by index)"

    def gen_cases(self, rng, tier):
        n = 160 if tier == "quick" else 10000
        cases = []
        for i in range(n):
            if rng.random() < 0.4:
                maxlen, minlen = 0, 1
            else:
                maxlen = rng.randint(1, 5)
                minlen = rng.randint(1, maxlen)
            modes = "".join(rng.choice("aabr") for _ in range(rng.randint(1, 5)))
            cases.append({"id": 0, "lines": ["case 0 thr %d %d %d %d %s" % (maxlen, minlen, rng.choice([50, 300, 1500] if tier == "quick" else [50, 300, 1500, 6000]),
                                                                             rng.choice([1, 1, 3, 6]), modes), "end"]})
        return cases

    def oracle(self, case, out):
        msgs = []
        for l in out:
            if l.startswith("thr viol"):
                for e in l.partition(" ; ")[2].split():
                    msgs.append("threads-%s: %s" % (e.split(":")[1], e))
        if not any(l.startswith("thr ") for l in out):
            msgs.append("threads-hang: no verdict (a subscriber thread never returned)")
        return msgs

    def stats(self, cases, outs):
        modes = {}
        for c in cases:
            for m in c["lines"][0].split()[7]:
                modes[m] = modes.get(m, 0) + 1
        return {"subscriber_threads_by_mode": modes, "cases": len(cases)}


BATON_HARNESS = ("h_publisher_t", ["h_publisher_t.cpp"], {"extra_flags": ["-fno-access-control", "-I/verif/harness/shim"]})


class BatonSuite(Suite):
    """publisher thread against subscriber threads / coroutine subscribers under the baton scheduler (harness/shim): the
    windows inside the library calls are scheduling points, chosen by the `sched` line, so a lost wake-up or a torn
    hand-over is reached deterministically.  The statement is evaluated on the trace (no model comparison: the theorems
    already quantify over every interleaving of the lock regions; this suite shows the real code keeps the property when
    the other thread runs inside those windows)."""
    name = "pub-baton"
    harness = BATON_HARNESS
    driver = None
    compare = False
    corpus_prefix = "c16t_"
    chunk = 25
    timeout = 240
    nontrivial_rule = "at least one consumer received a value"
    STYLES = ["co", "co", "loop", "blk", "not", "rfor", "poll"]

    def gen_cases(self, rng, tier):
        n = 500 if tier == "quick" else 30000
        cases = []
        for i in range(n):
            if rng.random() < 0.35:
                mx, mn = 0, 1
            else:
                mx = rng.randint(1, 5)
                mn = rng.randint(1, mx)
            ncons = rng.randint(1, 3)
            lines = ["case 0 pubt %d %d" % (mx, mn)]
            pops = []
            for _ in range(rng.randint(2, 10)):
                r = rng.random()
                pops.append("s" if r < 0.6 else "%s%d" % (rng.choice("bi"), rng.randint(2, 4)))
            r = rng.random()
            if r < 0.4:
                pops.append("c")
            elif r < 0.6:
                pops.append("d")
            lines.append("p " + " ".join(pops))
            for _ in range(ncons):
                lines.append("c %s %s" % (rng.choice(self.STYLES), rng.choice("aaabr")))
            # schedule: runs of one thread of random length (a window usually needs the other thread twice in a row)
            sched = []
            while len(sched) < rng.randint(60, 300):
                sched += [rng.randint(0, ncons)] * rng.choice([1, 1, 2, 2, 3, 5, 9])
            lines.append("sched " + " ".join(map(str, sched)))
            lines.append("end")
            cases.append({"id": 0, "lines": lines})
        return cases

    @staticmethod
    def parse(case, out):
        hdr = case["lines"][0].split()
        mx = int(hdr[3])
        total = 0
        cons = []
        for l in case["lines"][1:]:
            w = l.split()
            if w[0] == "p":
                for op in w[1:]:
                    total += 1 if op == "s" else int(op[1:]) if op[0] in "bi" else 0
            elif w[0] == "c":
                cons.append({"style": w[1], "mode": w[2], "got": [], "eof": None, "fin": False})
        return mx, total, cons

    def oracle(self, case, out):
        msgs = []
        mx, total, cons = self.parse(case, out)
        for l in out:
            w = l.split()
            if not w:
                continue
            if w[0] == "deadlock":
                stuck = [x for x in out if x.startswith("stuck ")]
                msgs.append("close-no-wake: nothing can run but consumers are still waiting (lost wake-up): %s" % "; ".join(stuck))
            elif w[0] == "crash" or w[0] == "assert-failed":
                msgs.append("crash: %s" % l)
            elif w[0] == "n":
                c = cons[int(w[1]) - 1]
                txt, _, pos = w[2].partition("@")
                if txt == "eof":
                    c["eof"] = int(pos)
                else:
                    if c["eof"] is not None:
                        msgs.append("after-eof: consumer %s received a value after end of stream" % w[1])
                    c["got"].append((int(txt[2:]), int(pos)))
            elif w[0] == "fin":
                cons[int(w[1]) - 1]["fin"] = True
        dead = any(l.startswith("deadlock") or l.startswith("crash") for l in out)
        for i, c in enumerate(cons, 1):
            prev = 0
            for k, (v, pos) in enumerate(c["got"], 1):
                if pos <= prev:
                    msgs.append("position: consumer %d position went %d -> %d (must strictly increase)" % (i, prev, pos))
                prev = pos
                if v < 1 or v > total:
                    msgs.append("wrong-value: consumer %d received %d, published 1..%d" % (i, v, total))
                if c["mode"] == "a":
                    if v != k or pos != k:
                        kind = "duplicate" if any(v == g[0] for g in c["got"][:k - 1]) else "gap"
                        msgs.append("%s: all_values consumer %d received %s (value@position), expected %d@%d as its %d. value"
                                    % (kind, i, "%d@%d" % (v, pos), k, k, k))
                        break
                elif v < pos:
                    msgs.append("stale-value: consumer %d (mode %s) at position %d received the older value %d" % (i, c["mode"], pos, v))
            if not dead:
                if not c["fin"] or c["eof"] is None:
                    msgs.append("close-no-wake: consumer %d (%s) never left its loop although the publisher is gone" % (i, c["style"]))
                elif c["mode"] == "a" and len(c["got"]) != total and mx == 0:
                    msgs.append("early-eof: all_values consumer %d on an unlimited queue got end of stream after %d of %d values"
                                % (i, len(c["got"]), total))
                elif c["mode"] == "a" and len(c["got"]) != total and total - len(c["got"]) <= mx and False:
                    pass
        return msgs

    def nontrivial(self, case, out):
        return any(l.startswith("n ") and " v:" in l for l in out)

    def stats(self, cases, outs):
        styles, modes, pops = {}, {}, {}
        repeats = values = 0
        for c in cases:
            for l in c["lines"][1:]:
                w = l.split()
                if w[0] == "c":
                    styles[w[1]] = styles.get(w[1], 0) + 1
                    modes[w[2]] = modes.get(w[2], 0) + 1
                elif w[0] == "p":
                    for op in w[1:]:
                        k = op[0]
                        pops[k] = pops.get(k, 0) + 1
            try:
                _, _, cons = self.parse(c, [])
                last = {}
                for l in outs.get(str(c["id"]), []):
                    w = l.split()
                    if w and w[0] == "n" and w[2].startswith("v:"):
                        values += 1
                        v = int(w[2].partition("@")[0][2:])
                        if cons[int(w[1]) - 1]["mode"] == "r" and last.get(w[1]) == v:
                            repeats += 1
                        last[w[1]] = v
            except Exception:
                pass
        return {"consumer_styles": styles, "modes": modes, "publisher_ops": pops, "values_received": values,
                "skip_to_recent_same_newest_value_twice(position still increasing; not forbidden by the statement)": repeats}


class C16(Spec):
    pid = "C16"
    lean_modules = ["CoclsModel.Props.C16"]
    design_ref = "DESIGN.md §5 C16"
    trusted_base = ["hand-written model lean/CoclsModel/Publisher.lean (line-by-line mirror of publisher<T>::queue and of the call order "
                    "of subscriber::next()) tied to publisher.h by differential correspondence (harness/h_publisher.cpp vs "
                    "lean/Drivers/C16.lean) on generated histories, every lock region a separate step",
                    "std::deque / std::vector / std::mutex, the awaiter resume machinery (C02) and sync_awaiter taken as specified",
                    "size_t positions do not wrap (2^64 published values)"]
    technique = "Lean 4 invariant proof (induction over all operation lists = all interleavings of lock regions) + differential correspondence with the real header"
    level_text = ("Lean 4 theorems over an executable model of publisher::queue + subscriber (one step per lock region; a next() is "
                  "advance / advance_suspend / get_value with arbitrary other steps in between): all_values subscribers receive exactly "
                  "stream[start..] in order, end of stream only when kicked, closed-and-drained or more than max behind, positions strictly "
                  "increase in every mode, skip_to_recent yields the newest value, close/kick release every parked subscriber and nobody "
                  "parks afterwards, a copy gets a fresh registration at the original's position and the two evolve independently, the "
                  "retained window covers every registration up to max; for all configurations 1<=min<=max and unlimited, any number of "
                  "subscribers, every operation list. The model is tied to publisher.h by running both on generated histories and diffing "
                  "every line; the property oracles run on the implementation's trace")
    level_note = ("trusted: Lean kernel (axioms propext/Classical.choice/Quot.sound at most), the hand-written model, the differential "
                  "harness (sampling), std containers/mutex and the awaiter layer. Thread interleavings are covered by the theorems (every "
                  "interleaving of lock regions is an operation list) and exercised on the real code by hand-placed steps from one thread "
                  "(rdy/sus/res with other operations in between), blocking next() in helper threads, real coroutines, and a free-running "
                  "thread stress. position() reading _regs without the lock is C03's matter.")
    assumptions = ["1 <= min_queue_len <= max_queue_len (asserted by the constructor)",
                   "an explicit start position is not in the future; if it lies before the retained window the first next() may be end of stream",
                   "a subscriber object is used by one party at a time: it is not copied or destroyed while one of its next() calls is in progress, "
                   "and next() is not called again after it returned end of stream",
                   "live subscriber objects have distinct addresses (kick identifies by address)"]

    def suites(self):
        return [PubSuite(), ThreadSuite(), BatonSuite()]


SPEC = C16()
