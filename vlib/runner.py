"""Generic check runner: proof obligations + correspondence + oracles -> decision + evidence."""
import json
import os
import random
import sys
import time
import traceback

from . import core
from .core import log


class Suite:
    """One correspondence suite: generated cases -> harness (real code) and driver (Lean model)."""
    name = "main"
    harness = None          # (name, [sources], dict(kwargs for build_harness))
    driver = None           # lean_exe name
    corpus_prefix = None
    chunk = 40
    timeout = 300
    compare = True          # diff model vs impl (predict mode)

    def gen_cases(self, rng, tier):
        raise NotImplementedError

    def oracle(self, case, impl_out):
        """property oracle evaluated on the implementation's trace; returns list of violation strings"""
        return []

    def nontrivial(self, case, impl_out):
        return True

    def distinct_key(self, case, impl_out):
        """what makes two cases 'the same' for the distinct count (default: the input text)"""
        return "\n".join(case["lines"][0].split()[2:] + case["lines"][1:])

    def stats(self, cases, outs):
        return {}

    def signature(self, case, msg):
        """dict used to match known findings"""
        return {"suite": self.name, "msg": msg}

    def harness_args(self):
        return ()

    def normalize(self, lines):
        return lines


class Spec:
    pid = None
    lean_modules = []       # Props modules: built, audited, counted as obligations
    extra_modules = []      # further modules to build
    extract = False         # regenerate Generated/*.lean first
    design_ref = ""
    trusted_base = []
    assumptions = []
    level = "proof"

    def suites(self):
        return []

    def table_obligations(self):
        """names of theorems that are `decide` obligations over regenerated tables (subset of theorems)"""
        return []

    def search(self, ctx):
        """called when a proof obligation or the correspondence broke but no oracle failed yet.
        returns list of (message, payload) for concrete failing inputs found."""
        return []

    def extra_checks(self, ctx):
        """property-specific extra stages; may append to ctx['violations']"""
        return


def _watchdog_kill(io):
    """did the harness's own per-case watchdog (SIGALRM) end this case?  (`crash signal 14` line printed by the forking harnesses, or the
    harness process itself killed by the signal)"""
    return io.get("rc") in (-14, 142) or any(str(l).startswith("crash signal 14") for l in io.get("out", []))


def _run_suite(spec, suite, tier, rng, ctx, budget_scale=1):
    res = {"name": suite.name, "evaluations": 0, "nontrivial": 0, "disagreements": [], "oracle_fail": [],
           "crashes": [], "samples": [], "stats": {}}
    hname, hsrc, hkw = suite.harness
    exe = core.build_harness(hname, hsrc, **hkw)
    seen = set()
    outs = {}
    all_cases = []
    t_suite = time.time()

    def eval_batch(cases, ncorpus, label):
        core.renumber(cases, start=len(all_cases))
        all_cases.extend(cases)
        t0 = time.time()
        impl = core.run_cases(exe, cases, chunk=suite.chunk, timeout=suite.timeout, args=suite.harness_args())
        t1 = time.time()
        model = None
        if suite.compare and suite.driver and ctx.get("driver_ok", True):
            model = core.run_cases(core.driver_exe(suite.driver), cases, chunk=max(suite.chunk, 200), timeout=suite.timeout)
        t2 = time.time()
        log("[%s/%s] %s%d cases (%d corpus): harness %.1fs, driver %.1fs" % (spec.pid, suite.name, label, len(cases), ncorpus, t1 - t0, t2 - t1))
        for c in cases:
            cid = str(c["id"])
            io = impl.get(cid, {"out": [], "rc": -1, "err": "no output"})
            if _watchdog_kill(io) and res.get("_wd_reproduced", 0) < 3 and res.get("_wd_tried", 0) < 12:
                res["_wd_tried"] = res.get("_wd_tried", 0) + 1      # bounded: a change that makes hundreds of cases hang is not re-run case by case
                # the per-case watchdog of the harness (alarm() in the forked child -> SIGALRM) fired.  The harnesses are deterministic:
                # a genuine hang fires again when the case runs alone; a child starved by machine load does not (seen once: thorough
                # C17 at load 50, reported as a crash although the case passes).  Re-run it alone, twice at most; only what reproduces is
                # evaluated as a crash, the rest is evaluated on the re-run's output and counted in the evidence.
                for _ in range(2):
                    again = core.run_cases(exe, [c], chunk=1, timeout=max(suite.timeout, 60), args=suite.harness_args()).get(cid)
                    if again is not None and not _watchdog_kill(again):
                        io = again
                        res["watchdog_under_load"] = res.get("watchdog_under_load", 0) + 1
                        break
                else:
                    res["_wd_reproduced"] = res.get("_wd_reproduced", 0) + 1
            iout = suite.normalize(io["out"])
            outs[cid] = iout
            res["evaluations"] += 1
            key = suite.distinct_key(c, iout)
            if key not in seen and suite.nontrivial(c, iout):
                seen.add(key)
                res["nontrivial"] += 1
            if io["rc"] == -9 and io.get("err", "").startswith("NOT-EVALUATED"):
                # the harness hung on several earlier cases of this batch: the rest was not run (the hangs themselves are reported)
                res["not_evaluated"] = res.get("not_evaluated", 0) + 1
                res["evaluations"] -= 1
                continue
            if io["rc"] != 0:
                # the trace up to the crash may already show the property failing: keep the oracle's view for the report
                try:
                    partial = suite.oracle(c, iout)[:3]
                except Exception:
                    partial = []
                res["crashes"].append({"case": c, "rc": io["rc"], "err": io["err"], "impl": iout, "oracle_partial": partial})
                continue
            try:
                msgs = suite.oracle(c, iout)
            except Exception as e:  # an oracle that cannot parse the trace is a disagreement, not a verdict
                msgs = []
                res["disagreements"].append({"case": c, "impl": iout, "model": None, "diff": "oracle error: %r" % (e,)})
            for m in msgs:
                res["oracle_fail"].append({"case": c, "impl": iout, "msg": m})
            if model is not None:
                mo = model.get(cid, {"out": [], "rc": -1, "err": "no output"})
                mout = suite.normalize(mo["out"])
                if mo["rc"] != 0:
                    res["disagreements"].append({"case": c, "impl": iout, "model": mout, "diff": "driver failed rc=%s %s" % (mo["rc"], mo["err"][-500:])})
                else:
                    d = core.first_diff(mout, iout)
                    if d is not None:
                        res["disagreements"].append({"case": c, "impl": iout, "model": mout,
                                                     "diff": "line %d: model `%s` impl `%s`" % d})

    cases = []
    if suite.corpus_prefix:
        cases += core.load_corpus(suite.corpus_prefix)
    ncorpus = len(cases)
    cases += suite.gen_cases(rng, "thorough" if budget_scale != 1 else tier)
    if budget_scale != 1:
        # search mode (an obligation or the correspondence broke): the thorough case set in batches, until an oracle fails,
        # the implementation crashes or the search budget is used up
        budget = float(os.environ.get("VERIF_SEARCH_BUDGET_S", "150"))
        step = max(2000, len(cases) // 40)
        for i in range(0, len(cases), step):
            eval_batch(cases[i:i + step], ncorpus if i == 0 else 0, "search %d: " % (i // step + 1))
            if res["oracle_fail"] or res["crashes"] or time.time() - t_suite > budget:
                break
    else:
        eval_batch(cases, ncorpus, "")
    if budget_scale == 1:
        # the anchored headers differ from the validated tree: same generators, more PRNG streams, until something concrete
        # is found or the time budget of this suite is used up
        budget = float(os.environ.get("VERIF_ESCALATE_BUDGET_S", "100"))
        for k in range(ctx.get("escalate", 0)):
            if res["oracle_fail"] or res["crashes"] or ctx.get("found_concrete") or time.time() - t_suite > budget:
                break
            extra = suite.gen_cases(random.Random(ctx.get("seed", 1) * 7919 + 31 * (k + 1) + len(suite.name)), tier)
            eval_batch(extra, 0, "deepening %d: " % (k + 1))
    for c in all_cases[:1] + all_cases[ncorpus:ncorpus + 2]:
        res["samples"].append({"input": c["lines"], "impl_output": outs.get(str(c["id"]), [])[:60]})
    res["stats"] = suite.stats(all_cases, outs)
    res["exe"] = exe
    res["cases"] = len(all_cases)
    return res


def _shrink(suite, exe, item, mode):
    """shrink a failing case; mode 'oracle' | 'crash' | 'diff'"""
    drv = core.driver_exe(suite.driver) if suite.driver else None
    key = item.get("msg", "").split(":")[0]
    custom = getattr(suite, "still_fails", None)

    hang = mode == "crash" and item.get("rc") == -9
    # (every attempt at shrinking a hang costs a time-out: a small budget; what matters is that the hang is reported with an input)
    t_end = time.time() + float(os.environ.get("VERIF_SHRINK_BUDGET_S", "150")) * (0.4 if hang else 1.0)

    def fails(c):
        if time.time() > t_end:
            return False                 # shrinking budget used up: keep what we have
        if custom is not None:
            return bool(custom(c, mode, item))
        rc, out, err = core.run_proc(exe, core.case_text(c), timeout=min(8, core.CASE_TIMEOUT) if hang else 60, args=suite.harness_args())
        iout = suite.normalize(core.split_outputs(out).get(str(c["id"]), []))
        if mode == "crash":
            # the same kind of failure only: a hang stays a hang, a crash keeps its exit status (a timeout while shrinking a
            # crash is not a reproduction)
            if hang:
                return rc == -9
            if rc == -9:
                return False
            want = item.get("rc")
            if want not in (None, -9) and rc != want:
                return False
            return rc != 0
        if rc != 0:
            return False
        if mode == "oracle":
            return any(m.split(":")[0] == key for m in suite.oracle(c, iout))
        rc2, out2, err2 = core.run_proc(drv, core.case_text(c), timeout=60)
        mout = suite.normalize(core.split_outputs(out2).get(str(c["id"]), []))
        return rc2 == 0 and core.first_diff(mout, iout) is not None

    try:
        c = core.shrink_case(item["case"], fails)
    except Exception:
        return item["case"]
    # refresh the recorded implementation output for the shrunk case
    try:
        rc, out, err = core.run_proc(exe, core.case_text(c), timeout=60, args=suite.harness_args())
        item["impl"] = suite.normalize(core.split_outputs(out).get(str(c["id"]), []))
        if mode == "oracle":
            ms = [m for m in suite.oracle(c, item["impl"]) if m.split(":")[0] == key]
            if ms:
                item["msg"] = ms[0]
    except Exception:
        pass
    return c


def run_check(spec, tier="quick", replay=None):
    t_start = time.time()
    pid = spec.pid
    sd = core.seed()
    rng = random.Random(sd * 1000003 + sum(ord(c) for c in pid))
    ctx = {"tier": tier, "seed": sd, "violations": [], "notes": [], "driver_ok": True, "proof_broken": []}
    violations = ctx["violations"]       # list of dict(kind, msg, payload, signature)
    proof_broken = []

    changed = core.changed_anchor_headers(pid)
    if changed and tier == "quick":
        ctx["escalate"] = int(os.environ.get("VERIF_ESCALATE", "5"))
        ctx["notes"].append({"anchored_headers_changed": changed, "extra_prng_streams": ctx["escalate"]})
        log("[%s] anchored headers changed (%s): deepening the quick tier x%d" % (pid, ", ".join(changed), ctx["escalate"] + 1))

    # 1. regenerate tables from the source (the generated files are shared: hold the build lock from the regeneration to the end
    #    of the build, so that a concurrent check against another tree cannot swap the tables under this one)
    table_lock = core.LakeLock() if spec.extract else None
    if table_lock:
        table_lock.__enter__()
    try:
        if spec.extract:
            from extract import extract as ex
            try:
                ctx["extract"] = ex.regenerate()
            except Exception as e:
                raise core.InfraError("extraction failed: %r\n%s" % (e, traceback.format_exc()))

        # 2. proof obligations
        thms = []
        for m in spec.lean_modules:
            thms += core.theorems_in(m)
        drivers = sorted({s.driver for s in spec.suites() if s.driver})
        ok, out = core.lake_build(list(spec.lean_modules) + list(spec.extra_modules))
        build_log = out
        if not ok:
            proof_broken = core.failing_decls(out)
            if not proof_broken:
                proof_broken = [{"file": "?", "line": 0, "decl": "?", "msg": out[-1500:]}]
            log("[%s] lake build FAILED: %s" % (pid, json.dumps(proof_broken)[:1500]))
        if drivers:
            okd, outd = core.lake_build(drivers)
            if not okd:
                ctx["driver_ok"] = False
                proof_broken += [dict(d, driver=True) for d in core.failing_decls(outd)] or [{"file": "?", "line": 0, "decl": "driver", "msg": outd[-1500:]}]
                log("[%s] driver build FAILED" % pid)

        # 3. audit
        axioms, audit_txt = ({}, "")
        bad_axioms = []
        discharged = 0
        mods_scanned, forb = core.forbidden_scan(spec.lean_modules)
        if ok:
            axioms, audit_txt = core.audit_axioms(pid, spec.lean_modules, thms)
            for t in thms:
                ax = axioms.get(t)
                if ax is None:
                    bad_axioms.append((t, "no #print axioms output"))
                elif not set(ax) <= core.ALLOWED_AXIOMS:
                    bad_axioms.append((t, "axioms %s" % ax))
                else:
                    discharged += 1
        if forb:
            proof_broken.append({"file": "*", "line": 0, "decl": "forbidden-construct", "msg": "; ".join(forb)[:800]})
        for t, why in bad_axioms:
            proof_broken.append({"file": "*", "line": 0, "decl": t, "msg": why})
        lc_bad = []
        if ok and tier == "thorough":
            lc_bad = core.leanchecker(spec.lean_modules)
            for m, o in lc_bad:
                proof_broken.append({"file": m, "line": 0, "decl": "leanchecker", "msg": o[-500:]})
    finally:
        if table_lock:
            table_lock.__exit__(None, None, None)

    ctx["proof_broken"] = proof_broken
    ctx["build_ok"] = ok
    harness_broken = set()
    # 4-6. correspondence + oracles
    suite_results = []
    if replay is None:
        for suite in spec.suites():
            try:
                r = _run_suite(spec, suite, tier, rng, ctx)
            except core.HarnessBuildError as e:
                # the harness is an ordinary client program of the library that compiled against the validated tree: the
                # correspondence of this suite cannot be established on this tree (reported like a broken obligation)
                proof_broken.append({"file": "harness/" + suite.harness[1][0], "line": 0, "decl": "correspondence-harness:" + suite.name,
                                     "msg": str(e)[-1500:]})
                harness_broken.add(suite.name)
                log("[%s/%s] harness does not build against this tree" % (pid, suite.name))
                continue
            suite_results.append((suite, r))
            if r["oracle_fail"] or r["crashes"]:
                ctx["found_concrete"] = True     # a concrete failing input exists: the other suites need no deepening
        spec.extra_checks(ctx)
    else:
        return _replay(spec, replay)

    def add_violation(kind, msg, payload, signature):
        violations.append({"kind": kind, "msg": msg, "payload": payload, "signature": signature})

    disagreements = 0
    # shrinking is the expensive part once something is wrong everywhere: a handful of shrunk witnesses over all suites is enough
    budget = {"crash": int(os.environ.get("VERIF_MAX_CRASH_REPORTS", "4")), "oracle": int(os.environ.get("VERIF_MAX_ORACLE_REPORTS", "8"))}
    for suite, r in suite_results:
        exe = r["exe"]
        for it in r["crashes"][:3]:
            if budget["crash"] <= 0:
                break
            budget["crash"] -= 1
            c = _shrink(suite, exe, it, "crash")
            add_violation("crash", "%s (rc=%s)%s" % (
                              "implementation hangs: the case does not finish" if it["rc"] == -9 else "implementation crashed / sanitizer report", it["rc"], ("; oracle on the trace so far: " + "; ".join(it.get("oracle_partial") or [])) if it.get("oracle_partial") else ""),
                          {"suite": suite.name, "case": c["lines"], "stderr": it["err"][-3000:], "impl_output": it["impl"],
                           "oracle_on_partial_trace": it.get("oracle_partial") or []},
                          suite.signature(c, "crash"))
        seen_msgs = set()
        for it in r["oracle_fail"]:
            k = it["msg"].split(":")[0]
            if k in seen_msgs:
                continue
            seen_msgs.add(k)
            if budget["oracle"] <= 0:
                break
            budget["oracle"] -= 1
            c = _shrink(suite, exe, it, "oracle")
            add_violation("oracle", it["msg"], {"suite": suite.name, "case": c["lines"], "impl_output": it["impl"],
                                                "oracle": it["msg"]}, suite.signature(c, it["msg"]))
        disagreements += len(r["disagreements"])

    # 7. a broken obligation / correspondence without a failing input yet: search, then report anyway
    broken = bool(proof_broken) or disagreements > 0
    known = core.known_findings(pid)

    def matches_known(v):
        for k in known:
            mt = k.get("match", {})
            if mt and all(str(v["signature"].get(a)) == str(b) for a, b in mt.items()):
                return k
        return None

    # violations that are listed findings do not excuse a broken obligation / correspondence
    if broken and not [v for v in violations if not matches_known(v)]:
        found = []
        try:
            found = spec.search(ctx) or []
        except Exception as e:
            log("[%s] search failed: %r" % (pid, e))
        if not found and tier != "thorough":
            # generic search: thorough budget of every suite with the oracles on
            for suite in spec.suites():
                if suite.name in harness_broken:
                    continue
                r = _run_suite(spec, suite, "thorough", random.Random(sd + 7919), ctx, budget_scale=4)
                for it in r["crashes"][:1]:
                    c = _shrink(suite, r["exe"], it, "crash")
                    found.append(("implementation crashed / sanitizer report", {"suite": suite.name, "case": c["lines"], "stderr": it["err"][-3000:]}))
                for it in r["oracle_fail"]:
                    # a listed finding is not the failing input we are looking for
                    if matches_known({"signature": suite.signature(it["case"], it["msg"])}):
                        continue
                    c = _shrink(suite, r["exe"], it, "oracle")
                    found.append((it["msg"], {"suite": suite.name, "case": c["lines"], "impl_output": it["impl"], "oracle": it["msg"]}))
                    break
                if found:
                    break
        for msg, payload in found:
            add_violation("search", msg, payload, {"msg": msg})
        if not found:
            payload = {"broken_obligations": proof_broken[:10]}
            first = None
            for suite, r in suite_results:
                if r["disagreements"]:
                    it = r["disagreements"][0]
                    c = _shrink(suite, r["exe"], it, "diff") if it.get("model") is not None else it["case"]
                    first = {"suite": suite.name, "case": c["lines"], "diff": it["diff"], "impl_output": it["impl"], "model_output": it["model"]}
                    break
            if first:
                payload["correspondence"] = first
            add_violation("unproved", "no-failing-input-found", payload, {"msg": "no-failing-input-found"})

    # decision
    reported, known_hits = [], []
    for v in violations:
        hit = matches_known(v)
        if hit:
            known_hits.append((hit, v))
        else:
            reported.append(v)

    printed = set()
    for hit, v in known_hits:
        line = "KNOWN-FINDING: property=%s %s" % (pid, hit.get("what", v["msg"]))
        if line not in printed:
            print(line)
            printed.add(line)
    rc = 0
    for v in reported[:5]:
        payload = dict(v["payload"])
        payload.update({"property": pid, "kind": v["kind"], "message": v["msg"], "seed": sd, "tier": tier})
        path = core.write_replay(pid, payload)
        tail = " no-failing-input-found" if v["kind"] == "unproved" else ""
        print("VIOLATION property=%s replay=%s%s" % (pid, path, tail))
        rc = 1

    # evidence
    evals = sum(r["evaluations"] for _, r in suite_results)
    nontriv = sum(r["nontrivial"] for _, r in suite_results)
    samples = []
    for _, r in suite_results:
        samples += r["samples"][:2]
    if not samples:
        samples = [{"obligation": t} for t in thms[:3]]
    cov = {
        "obligations": len(thms),
        "discharged": discharged,
        "checker_cmd": "cd lean && lake build %s && lake env lean <#print axioms of every theorem>%s" % (
            " ".join(spec.lean_modules), " && lake env leanchecker <module>" if tier == "thorough" else ""),
        "trusted_base": ["Lean 4.33 kernel", "axioms: " + ", ".join(sorted({a for ax in axioms.values() if ax for a in ax}) or ["none"])] + list(spec.trusted_base),
        "theorems": thms,
        "table_obligations": spec.table_obligations(),
        "evaluations": max(evals, 1) if suite_results else len(thms),
        "distinct_nontrivial": nontriv if suite_results else len(thms),
        "traces_validated_against_impl": evals,
        "disagreements": disagreements,
        "rule": "cases are generated from one PRNG (VERIF_SEED) per suite, corpus first; distinct = distinct input text; "
                "non-trivial = the suite's own rule (see suites[].nontrivial_rule)",
        "samples": samples,
        "suites": [{"name": s.name, "cases": r["cases"], "nontrivial": r["nontrivial"], "disagreements": len(r["disagreements"]),
                    "oracle_failures": len(r["oracle_fail"]), "crashes": len(r["crashes"]), "not_evaluated_after_hangs": r.get("not_evaluated", 0), "watchdog_kills_not_reproduced_alone": r.get("watchdog_under_load", 0),
                    "input_distribution": r["stats"],
                    "nontrivial_rule": getattr(s, "nontrivial_rule", "every case")} for s, r in suite_results],
        "broken_obligations": proof_broken[:10],
        "modules_scanned_for_forbidden_constructs": mods_scanned,
        "known_findings_hit": [h.get("what") for h, _ in known_hits],
        "notes": ctx["notes"],
    }
    if "extract" in ctx:
        cov["extracted_tables"] = ctx["extract"]
    for k, v in ctx.get("extra_coverage", {}).items():
        cov[k] = v
    if cov.get("discharged", 0) < 1:
        # nothing discharged (the Props module does not build on this tree): the proof-level keys would not validate;
        # report the count under another key and fall back to the exploration-style counts
        cov["discharged_count"] = cov.pop("discharged", 0)
        cov["evaluations"] = max(cov.get("evaluations", 0), 1)
        cov["distinct_nontrivial"] = max(cov.get("distinct_nontrivial", 0), 2)
    ev = {"property_id": pid, "tier": tier, "seed": sd, "level": spec.level, "coverage": cov,
          "assumptions": list(spec.assumptions), "wall_s": round(time.time() - t_start, 2),
          "violations": len(reported)}
    core.write_evidence(pid, ev)
    log("[%s] %s: obligations %d/%d, cases %d, disagreements %d, violations %d, known %d, %.1fs" % (
        pid, tier, discharged, len(thms), evals, disagreements, len(reported), len(known_hits), time.time() - t_start))
    return rc


def _replay(spec, path):
    payload = json.load(open(path))
    sname = payload.get("suite") or (payload.get("correspondence") or {}).get("suite")
    lines = payload.get("case") or (payload.get("correspondence") or {}).get("case")
    if not lines:
        print(json.dumps(payload, indent=1))
        return 0
    for suite in spec.suites():
        if suite.name == sname or sname is None:
            hname, hsrc, hkw = suite.harness
            exe = core.build_harness(hname, hsrc, **hkw)
            case = {"id": 0, "lines": lines}
            core.renumber([case])
            rc, out, err = core.run_proc(exe, core.case_text(case), args=suite.harness_args())
            print("--- input");  print("\n".join(case["lines"]))
            print("--- implementation (rc=%d)" % rc); print(out)
            if rc != 0:
                print(err[-3000:])
            iout = suite.normalize(core.split_outputs(out).get("0", []))
            if suite.driver:
                core.lake_build([suite.driver])
                rc2, out2, err2 = core.run_proc(core.driver_exe(suite.driver), core.case_text(case))
                print("--- model (rc=%d)" % rc2); print(out2)
            msgs = suite.oracle(case, iout) if rc == 0 else ["crash"]
            print("--- oracle:", msgs or "holds")
            return 1 if msgs else 0
    return 0
