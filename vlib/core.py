"""Common machinery of the cocls verification checks.

One check = (1) regenerate the extracted tables from /repo, (2) `lake build` the property's Lean modules
(all theorems, incl. the `decide` obligations over the regenerated tables) and the model driver,
(3) audit axioms / forbidden constructs, (4) build the C++ harness from /repo's working tree,
(5) correspondence: same generated inputs through harness (real headers) and driver (Lean model), diff,
(6) property oracles on the implementation's traces, (7) decision + evidence.
"""
import fcntl
import hashlib
import json
import os
import random
import re
import shutil
import subprocess
import sys
import time
from concurrent.futures import ThreadPoolExecutor

VERIF = os.path.dirname(os.path.dirname(os.path.abspath(__file__)))
REPO = os.environ.get("COCLS_REPO", "/repo")
LEAN = os.path.join(VERIF, "lean")
BUILD = os.path.join(VERIF, "build")
REPLAYS = os.path.join(VERIF, "replays")
# (a run against a scratch tree — tools/run_seeded.py — must not overwrite the evidence of the real tree)
EVIDENCE = os.environ.get("VERIF_EVIDENCE_DIR") or os.path.join(VERIF, "evidence")
CORPUS = os.path.join(VERIF, "corpus")
NCPU = max(1, min(16, os.cpu_count() or 4))

ALLOWED_AXIOMS = {"propext", "Classical.choice", "Quot.sound"}
FORBIDDEN = re.compile(r"\bsorry\b|\badmit\b|^\s*axiom\s|native_decide|bv_decide|implemented_by|\bunsafe\s|maxHeartbeats\s+0")

CXX = os.environ.get("CXX", "g++")
BASE_FLAGS = ["-std=c++20", "-O1", "-g", "-fno-omit-frame-pointer", "-DCOCLS_VERIF",
              "-I" + os.path.join(REPO, "src"), "-I" + os.path.join(VERIF, "harness")]
SAN_FLAGS = ["-fsanitize=address,undefined", "-fno-sanitize-recover=all"]


class InfraError(Exception):
    pass


class HarnessBuildError(InfraError):
    """the correspondence harness (a legitimate user program of the library) no longer compiles against this tree"""
    pass


def log(*a):
    print(*a, file=sys.stderr, flush=True)


def sh(cmd, cwd=None, timeout=None, input=None, env=None):
    e = dict(os.environ)
    if env:
        e.update(env)
    p = subprocess.run(cmd, cwd=cwd, timeout=timeout, input=input, env=e,
                       stdout=subprocess.PIPE, stderr=subprocess.PIPE, text=True, errors="replace")
    return p.returncode, p.stdout, p.stderr


class LakeLock:
    """serialises lake invocations (and, for the checks that regenerate tables, extraction + build) of concurrently running
    checks; re-entrant within one process"""
    _depth = 0
    _f = None

    def __enter__(self):
        if LakeLock._depth == 0:
            LakeLock._f = open(os.path.join(VERIF, ".lake.lock"), "w")
            fcntl.flock(LakeLock._f, fcntl.LOCK_EX)
        LakeLock._depth += 1
        return self

    def __exit__(self, *a):
        LakeLock._depth -= 1
        if LakeLock._depth == 0:
            fcntl.flock(LakeLock._f, fcntl.LOCK_UN)
            LakeLock._f.close()
            LakeLock._f = None


def write_if_changed(path, text):
    os.makedirs(os.path.dirname(path), exist_ok=True)
    try:
        if open(path).read() == text:
            return False
    except FileNotFoundError:
        pass
    tmp = path + ".tmp%d" % os.getpid()
    with open(tmp, "w") as f:
        f.write(text)
    os.replace(tmp, path)
    return True


def lake_build(targets):
    """returns (ok, output)"""
    with LakeLock():
        rc, out, err = sh(["lake", "build"] + list(targets), cwd=LEAN, timeout=3000)
    return rc == 0, out + err


def module_file(mod):
    return os.path.join(LEAN, mod.replace(".", "/") + ".lean")


def theorems_in(mod):
    """names (with namespace) of the theorems stated in a Lean module"""
    src = open(module_file(mod)).read()
    names = []
    ns = []
    for line in src.splitlines():
        m = re.match(r"^namespace\s+(\S+)", line)
        if m:
            ns.append(m.group(1))
            continue
        m = re.match(r"^end\s+(\S+)", line)
        if m and ns and ns[-1] == m.group(1):
            ns.pop()
            continue
        m = re.match(r"^(?:@\[[^\]]*\]\s*)?(?:protected\s+|private\s+)?theorem\s+([^\s:({\[]+)", line)
        if m:
            names.append(".".join(ns + [m.group(1)]))
    return names


def strip_comments(src):
    # remove /- ... -/ (nested) and -- comments
    out = []
    i, depth, n = 0, 0, len(src)
    while i < n:
        if src.startswith("/-", i):
            depth += 1
            i += 2
        elif depth and src.startswith("-/", i):
            depth -= 1
            i += 2
        elif depth:
            if src[i] == "\n":
                out.append("\n")
            i += 1
        elif src.startswith("--", i):
            while i < n and src[i] != "\n":
                i += 1
        else:
            out.append(src[i])
            i += 1
    return "".join(out)


def forbidden_scan(mods):
    """grep for sorry/admit/axiom/native_decide/... outside comments in the given modules and all their
    CoclsModel imports"""
    seen, todo, hits = set(), list(mods), []
    while todo:
        m = todo.pop()
        if m in seen:
            continue
        seen.add(m)
        path = module_file(m)
        if not os.path.exists(path):
            continue
        src = open(path).read()
        for im in re.findall(r"^import\s+(CoclsModel\.\S+)", src, re.M):
            todo.append(im)
        body = strip_comments(src)
        for ln, line in enumerate(body.splitlines(), 1):
            if FORBIDDEN.search(line):
                hits.append("%s:%d: %s" % (os.path.relpath(path, VERIF), ln, line.strip()))
    return sorted(seen), hits


def audit_axioms(pid, mods, thms):
    """#print axioms for every property theorem; returns dict name -> list of axioms (None if unknown)"""
    # one file per process: two concurrent runs of the same property (quick and thorough, or two trees) used to share - and delete - one file
    path = os.path.join(LEAN, "Audit_%s_%d.lean" % (pid, os.getpid()))
    src = "".join("import %s\n" % m for m in mods) + "".join("#print axioms %s\n" % t for t in thms)
    with open(path, "w") as f:
        f.write(src)
    try:
        with LakeLock():
            rc, out, err = sh(["lake", "env", "lean", os.path.basename(path)], cwd=LEAN, timeout=1200)
    finally:
        try:
            os.unlink(path)
        except OSError:
            pass
    res = {t: None for t in thms}
    txt = out + err
    # "'Name' depends on axioms: [a, b]"  or "'Name' does not depend on any axioms"
    for m in re.finditer(r"'([^']+)' depends on axioms: \[([^\]]*)\]", txt, re.S):
        res[m.group(1)] = [a.strip() for a in m.group(2).replace("\n", " ").split(",") if a.strip()]
    for m in re.finditer(r"'([^']+)' does not depend on any axioms", txt):
        res[m.group(1)] = []
    return res, txt


def leanchecker(mods):
    bad = []
    for m in mods:
        with LakeLock():
            rc, out, err = sh(["lake", "env", "leanchecker", m], cwd=LEAN, timeout=3000)
        if rc != 0:
            bad.append((m, (out + err)[-2000:]))
    return bad


def failing_decls(build_output):
    """map lake error lines (file:line) to the enclosing theorem/def names"""
    out = []
    for m in re.finditer(r"error: (\S+?\.lean):(\d+):(\d+):\s*(.*)", build_output):
        path, line, msg = m.group(1), int(m.group(2)), m.group(4)
        full = path if os.path.isabs(path) else os.path.join(LEAN, path)
        name = "?"
        try:
            lines = open(full).read().splitlines()
            for i in range(min(line, len(lines)) - 1, -1, -1):
                mm = re.match(r"^(?:@\[[^\]]*\]\s*)?(?:theorem|def|example|instance|lemma)\s*([^\s:({\[]*)", lines[i])
                if mm:
                    name = mm.group(1) or "example"
                    break
        except OSError:
            pass
        out.append({"file": os.path.relpath(full, VERIF), "line": line, "decl": name, "msg": msg[:300]})
    return out


# ----------------------------------------------------------------------------------------------
# C++ side
# ----------------------------------------------------------------------------------------------

def repo_headers_hash():
    h = hashlib.sha256()
    d = os.path.join(REPO, "src", "cocls")
    for fn in sorted(os.listdir(d)):
        p = os.path.join(d, fn)
        if os.path.isfile(p):
            h.update(fn.encode())
            h.update(open(p, "rb").read())
    return h.hexdigest()


_NAMES_DIR = {}


def names_header_dir():
    """directory holding the generated `cocls_names.h` (VN_… macros) of the tree under test; computed once per process"""
    key = repo_headers_hash()
    if key not in _NAMES_DIR:
        if VERIF not in sys.path:
            sys.path.insert(0, VERIF)
        from extract import names
        os.makedirs(BUILD, exist_ok=True)
        try:
            _NAMES_DIR[key] = names.harness_header(BUILD, key)
        except Exception as e:      # the tree does not even parse: every macro stands for the name of the validated tree
            log("names: no mapping for this tree (%r) - VN_ macros expand to the names of the validated tree" % (e,))
            _NAMES_DIR[key] = names.harness_header(BUILD, None, identity=True)
    return _NAMES_DIR[key]


def build_harness(name, sources, extra_flags=(), sanitize=True, cxx=None, libs=()):
    """compile harness/<sources> against /repo/src; cached by hash of headers+sources+flags"""
    cxx = cxx or CXX
    os.makedirs(BUILD, exist_ok=True)
    h = hashlib.sha256()
    h.update(repo_headers_hash().encode())
    hdir = os.path.join(VERIF, "harness")
    for fn in sorted(os.listdir(hdir)):
        p = os.path.join(hdir, fn)
        if os.path.isfile(p) and (fn.endswith(".h") or fn in sources):
            h.update(fn.encode())
            h.update(open(p, "rb").read())
    shim = os.path.join(hdir, "shim")
    if os.path.isdir(shim):
        for fn in sorted(os.listdir(shim)):
            h.update(open(os.path.join(shim, fn), "rb").read())
    flags = list(BASE_FLAGS) + (SAN_FLAGS if sanitize else []) + list(extra_flags)
    # private / protected names of the library are not interface: the harnesses spell them VN_<class>_<name>; the generated header maps each
    # macro to the name that member has in THIS tree (extract/names.py).  Its directory is named after the hash of its content, so the
    # content is part of the cache key below.
    vn_dir = names_header_dir()
    flags += ["-I" + vn_dir, "-include", os.path.join(vn_dir, "cocls_names.h")]
    h.update(" ".join([cxx] + flags + list(libs)).encode())
    exe = os.path.join(BUILD, "%s-%s" % (name, h.hexdigest()[:16]))
    if os.path.exists(exe):
        return exe
    cmd = [cxx] + flags + [os.path.join(hdir, s) for s in sources] + ["-o", exe + ".tmp%d" % os.getpid(), "-pthread"] + list(libs)
    t0 = time.time()
    rc, out, err = sh(cmd, timeout=1800)
    if rc != 0:
        raise HarnessBuildError("harness build failed (%s):\n%s" % (name, (out + err)[-4000:]))
    os.replace(exe + ".tmp%d" % os.getpid(), exe)
    log("built harness %s in %.1fs" % (name, time.time() - t0))
    # drop stale builds of the same harness (only old ones: a concurrent check against another tree may be using a sibling)
    now = time.time()
    for fn in os.listdir(BUILD):
        p = os.path.join(BUILD, fn)
        if fn.startswith(name + "-") and p != exe and ".tmp" not in fn:
            try:
                if now - os.path.getmtime(p) > 3 * 3600:
                    os.unlink(p)
            except OSError:
                pass
    return exe


CORE_HEADERS = ["awaiter.h", "future.h", "suspend_point.h", "coro_queue.h", "async.h", "common.h", "exceptions.h"]


def header_hashes():
    d = os.path.join(REPO, "src", "cocls")
    out = {}
    for fn in sorted(os.listdir(d)):
        p = os.path.join(d, fn)
        if os.path.isfile(p):
            out[fn] = hashlib.sha256(open(p, "rb").read()).hexdigest()[:16]
    return out


def changed_anchor_headers(pid):
    """headers relevant to property `pid` whose text differs from the tree the models were validated against (anchors.json).
    Used only to DEEPEN the run (more cases), never as an alarm."""
    try:
        base = json.load(open(os.path.join(VERIF, "anchors.json")))
    except (OSError, ValueError):
        return []
    files = set(CORE_HEADERS)
    try:
        for line in open(os.path.join(VERIF, "properties.jsonl")):
            p = json.loads(line)
            if p["id"] == pid:
                files |= {os.path.basename(f) for f in p["anchors"]["files"]}
    except (OSError, ValueError, KeyError):
        pass
    cur = header_hashes()
    return sorted(f for f in files if cur.get(f) != base.get("headers", {}).get(f))


def driver_exe(name):
    return os.path.join(LEAN, ".lake", "build", "bin", name)


ASAN_ENV = {"ASAN_OPTIONS": "detect_leaks=1:abort_on_error=0:exitcode=99:allocator_may_return_null=1",
            "UBSAN_OPTIONS": "print_stacktrace=1:halt_on_error=1:exitcode=98",
            "LSAN_OPTIONS": "exitcode=97"}


def run_proc(exe, text, timeout=120, args=()):
    """returns (rc, stdout, stderr); rc=-9 on timeout"""
    try:
        return sh([exe] + list(args), input=text, timeout=timeout, env=ASAN_ENV)
    except subprocess.TimeoutExpired as e:
        return -9, (e.stdout or b"").decode(errors="replace") if isinstance(e.stdout, bytes) else (e.stdout or ""), "TIMEOUT"


# ----------------------------------------------------------------------------------------------
# Cases: a case is {"id": int, "lines": [str...]}; the first line is `case <id> ...`, the last `end`
# ----------------------------------------------------------------------------------------------

def case_text(case):
    return "\n".join(case["lines"]) + "\n"


def split_outputs(out):
    """split a stream of `case <id>` ... `end...` blocks into dict id -> [lines]"""
    res, cur, cid = {}, None, None
    for line in out.splitlines():
        if line.startswith("case "):
            cid = line.split()[1]
            cur = []
            res[cid] = cur
        elif cur is not None:
            cur.append(line)
    return res


HANG_BUDGET = int(os.environ.get("VERIF_HANG_BUDGET", "6"))      # individually confirmed hanging cases per run_cases call
CASE_TIMEOUT = float(os.environ.get("VERIF_CASE_TIMEOUT", "30"))  # a single case (they take milliseconds) that runs this long hangs


def run_cases(exe, cases, chunk=40, timeout=300, args=()):
    """run the cases through an executable in parallel chunks; isolates crashing and hanging cases.
    returns dict id(str) -> {"out": [lines], "rc": int, "err": str}; rc = -9: the case hung (or was not evaluated any more because
    HANG_BUDGET cases of this batch had already hung: a harness that hangs on everything must not stall the check for hours)"""
    res = {}
    chunks = [cases[i:i + chunk] for i in range(0, len(cases), chunk)]
    state = {"hangs": 0, "durations": []}

    def eff_timeout(n):
        # chunks that completed tell how long a chunk takes on this machine right now: wait 20x that (at least 45 s), never more than `timeout`
        d = state["durations"]
        t = min(timeout, 150.0)
        if len(d) >= 3:
            t = min(timeout, max(45.0, 20.0 * max(d)))
        return max(CASE_TIMEOUT, t * max(1, n) / max(1, chunk)) if n < chunk else t

    def skipped(c):
        return {"out": [], "rc": -9, "err": "NOT-EVALUATED: %d earlier cases of this batch hung" % state["hangs"]}

    def work(ch):
        r = {}
        while ch:
            if state["hangs"] >= HANG_BUDGET:
                for c in ch:
                    r[str(c["id"])] = skipped(c)
                return r
            t0 = time.time()
            rc, out, err = run_proc(exe, "".join(case_text(c) for c in ch), timeout=eff_timeout(len(ch)), args=args)
            per = split_outputs(out)
            if rc == 0:
                state["durations"].append(time.time() - t0)
                for c in ch:
                    r[str(c["id"])] = {"out": per.get(str(c["id"]), []), "rc": 0, "err": ""}
                return r
            if len(ch) == 1:
                c = ch[0]
                if rc == -9:
                    state["hangs"] += 1
                r[str(c["id"])] = {"out": per.get(str(c["id"]), []), "rc": rc, "err": err[-6000:]}
                return r
            if rc == -9:
                # the chunk hung: the cases whose output is followed by another case's header completed; the first one without
                # such a successor is the one that hangs (confirmed alone, with the single-case timeout); the rest is a new chunk
                done = 0
                while done + 1 < len(ch) and str(ch[done + 1]["id"]) in per:
                    done += 1
                for c in ch[:done]:
                    r[str(c["id"])] = {"out": per.get(str(c["id"]), []), "rc": 0, "err": ""}
                c = ch[done]
                rc1, out1, err1 = run_proc(exe, case_text(c), timeout=CASE_TIMEOUT, args=args)
                per1 = split_outputs(out1)
                if rc1 == -9:
                    state["hangs"] += 1
                r[str(c["id"])] = {"out": per1.get(str(c["id"]), []), "rc": rc1, "err": err1[-6000:] if rc1 else ""}
                ch = ch[done + 1:]
                continue
            # crash somewhere: rerun individually
            for c in ch:
                if state["hangs"] >= HANG_BUDGET:
                    r[str(c["id"])] = skipped(c)
                    continue
                rc1, out1, err1 = run_proc(exe, case_text(c), timeout=CASE_TIMEOUT, args=args)
                per1 = split_outputs(out1)
                if rc1 == -9:
                    state["hangs"] += 1
                r[str(c["id"])] = {"out": per1.get(str(c["id"]), []), "rc": rc1, "err": err1[-6000:] if rc1 else ""}
            return r
        return r

    with ThreadPoolExecutor(max_workers=NCPU) as ex:
        for r in ex.map(work, chunks):
            res.update(r)
    return res


def first_diff(a, b):
    for i in range(max(len(a), len(b))):
        x = a[i] if i < len(a) else "<missing>"
        y = b[i] if i < len(b) else "<missing>"
        if x != y:
            return i, x, y
    return None


def shrink_case(case, still_fails, max_rounds=6):
    """greedy one-line-removal shrinking of the op lines (between the header and `end`)"""
    lines = list(case["lines"])
    head, body, tail = lines[0], lines[1:-1], lines[-1]
    for _ in range(max_rounds):
        changed = False
        i = 0
        while i < len(body):
            cand = body[:i] + body[i + 1:]
            c2 = {"id": case["id"], "lines": [head] + cand + [tail]}
            try:
                ok = still_fails(c2)
            except Exception:
                ok = False
            if ok:
                body = cand
                changed = True
            else:
                i += 1
        if not changed:
            break
    # schedules (`sched t t t ...`): drop the tail, then single entries
    for li, line in enumerate(body):
        if not line.startswith("sched "):
            continue
        toks = line.split()[1:]

        def attempt(ts):
            b2 = body[:li] + ["sched " + " ".join(ts)] + body[li + 1:]
            try:
                return still_fails({"id": case["id"], "lines": [head] + b2 + [tail]})
            except Exception:
                return False
        # binary-search-ish tail truncation
        while len(toks) > 0:
            cut = max(1, len(toks) // 4)
            if attempt(toks[:-cut]):
                toks = toks[:-cut]
            elif cut > 1 and attempt(toks[:-1]):
                toks = toks[:-1]
            else:
                break
        i = 0
        budget = 150
        while i < len(toks) and budget > 0:
            budget -= 1
            cand = toks[:i] + toks[i + 1:]
            if attempt(cand):
                toks = cand
            else:
                i += 1
        body[li] = "sched " + " ".join(toks)
    return {"id": case["id"], "lines": [head] + body + [tail]}


def load_corpus(prefix):
    """corpus files: corpus/<prefix>*.txt, each a sequence of cases in the harness grammar"""
    cases = []
    if not os.path.isdir(CORPUS):
        return cases
    for fn in sorted(os.listdir(CORPUS)):
        if fn.startswith(prefix) and fn.endswith(".txt"):
            cur = None
            for line in open(os.path.join(CORPUS, fn)).read().splitlines():
                line = line.strip()
                if not line or line.startswith("#"):
                    continue
                if line.startswith("case "):
                    cur = {"id": 0, "lines": [line], "corpus": fn}
                elif cur is not None:
                    cur["lines"].append(line)
                    if line == "end":
                        cases.append(cur)
                        cur = None
    return cases


def renumber(cases, start=0):
    for i, c in enumerate(cases):
        c["id"] = start + i
        w = c["lines"][0].split()
        w[1] = str(c["id"])
        c["lines"][0] = " ".join(w)
    return cases


# ----------------------------------------------------------------------------------------------
# known findings, replays, evidence
# ----------------------------------------------------------------------------------------------

def known_findings(pid):
    p = os.path.join(VERIF, "known_findings.json")
    try:
        allf = json.load(open(p))
    except FileNotFoundError:
        return []
    return [f for f in allf if f.get("property") == pid and f.get("status") == "open"]


def write_replay(pid, payload):
    os.makedirs(REPLAYS, exist_ok=True)
    blob = json.dumps(payload, indent=1, sort_keys=True)
    h = hashlib.sha256(blob.encode()).hexdigest()[:12]
    path = os.path.join(REPLAYS, "%s-%s.json" % (pid, h))
    with open(path, "w") as f:
        f.write(blob)
    return path


def write_evidence(pid, ev):
    os.makedirs(EVIDENCE, exist_ok=True)
    path = os.path.join(EVIDENCE, "%s.json" % pid)
    with open(path, "w") as f:
        json.dump(ev, f, indent=1, sort_keys=True)
    return path


def seed():
    try:
        return int(os.environ.get("VERIF_SEED", "1"))
    except ValueError:
        return 1
