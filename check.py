#!/usr/bin/env python3
"""Entry point: python3 check.py <Cxx> [--tier quick|thorough] [--replay file] | --setup | --all"""
import argparse
import importlib
import os
import sys

sys.path.insert(0, os.path.dirname(os.path.abspath(__file__)))
from vlib import core, runner  # noqa: E402


def load(pid):
    return importlib.import_module("checks." + pid.lower()).SPEC


def all_ids():
    d = os.path.join(core.VERIF, "checks")
    return sorted(f[:-3].upper() for f in os.listdir(d) if f.startswith("c") and f[1:3].isdigit() and f.endswith(".py"))


def setup():
    """full build from files on disk: tables, Lean modules of every check, drivers, harnesses"""
    try:
        from extract import extract as ex
        ex.regenerate()
    except ImportError:
        pass
    mods, drivers, specs = [], [], []
    for pid in all_ids():
        spec = load(pid)
        specs.append(spec)
        mods += list(spec.lean_modules) + list(spec.extra_modules)
        drivers += [s.driver for s in spec.suites() if s.driver]
    ok, out = core.lake_build(sorted(set(mods)) + sorted(set(drivers)))
    if not ok:
        print(out[-6000:])
        return 2
    for spec in specs:
        for s in spec.suites():
            hname, hsrc, hkw = s.harness
            core.build_harness(hname, hsrc, **hkw)
        if hasattr(spec, "prebuild"):
            spec.prebuild()
    print("setup ok")
    return 0


def main():
    ap = argparse.ArgumentParser()
    ap.add_argument("pid", nargs="?")
    ap.add_argument("--tier", default=os.environ.get("VERIF_TIER", "quick"))
    ap.add_argument("--replay")
    ap.add_argument("--setup", action="store_true")
    ap.add_argument("--all", action="store_true")
    a = ap.parse_args()
    if a.tier not in ("quick", "thorough"):
        a.tier = "quick"
    try:
        if a.setup:
            return setup()
        if a.all:
            rc = 0
            for pid in all_ids():
                rc = max(rc, runner.run_check(load(pid), a.tier))
            return rc
        if not a.pid:
            ap.error("property id required")
        return runner.run_check(load(a.pid), a.tier, replay=a.replay)
    except core.InfraError as e:
        print("ERROR: " + str(e), file=sys.stderr)
        return 2


if __name__ == "__main__":
    sys.exit(main())
