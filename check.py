#!/usr/bin/env python3
"""Entry point: python3 check.py <Cxx> [--tier quick|thorough] [--replay file] | --setup | --all"""
import argparse
import importlib
import json
import os
import sys

sys.path.insert(0, os.path.dirname(os.path.abspath(__file__)))
from vlib import core, runner  # noqa: E402


def load(pid):
    return importlib.import_module("checks." + pid.lower()).SPEC


def all_ids():
    d = os.path.join(core.VERIF, "checks")
    return sorted(f[:-3].upper() for f in os.listdir(d) if f.startswith("c") and f[1:3].isdigit() and f.endswith(".py"))


def setup():
    """full build from files on disk: tables, Lean modules of every check, drivers, harnesses.
    A property whose own targets do not build is reported and skipped: its check will say so itself."""
    from concurrent.futures import ThreadPoolExecutor
    try:
        from extract import extract as ex
        ex.regenerate()
    except Exception as e:
        print("setup: extraction failed: %r" % (e,))
    bad = []
    specs = {}
    for pid in all_ids():
        try:
            specs[pid] = load(pid)
        except Exception as e:
            bad.append(pid)
            print("setup: %s: %r" % (pid, e))

    def targets_of(spec):
        return sorted(set(list(spec.lean_modules) + list(spec.extra_modules) + [s.driver for s in spec.suites() if s.driver]))

    # one lake invocation for everything (lake schedules the modules over all cores); if that fails, per property to name the culprit
    every = sorted({t for sp in specs.values() for t in targets_of(sp)})
    ok, out = core.lake_build(every)
    if not ok:
        for pid, spec in specs.items():
            ok1, out1 = core.lake_build(targets_of(spec))
            if not ok1:
                bad.append(pid)
                print("setup: %s: lake build failed:\n%s" % (pid, out1[-1500:]))

    # harnesses: independent compiler runs, in parallel
    jobs, seen = [], set()
    for pid, spec in specs.items():
        for s in spec.suites():
            hname, hsrc, hkw = s.harness
            key = (hname, tuple(hsrc), json.dumps(hkw, sort_keys=True))
            if key in seen:
                continue
            seen.add(key)
            jobs.append((pid, hname, hsrc, hkw))

    def build(job):
        pid, hname, hsrc, hkw = job
        try:
            core.build_harness(hname, hsrc, **hkw)
            return None
        except Exception as e:
            return (pid, "%s: %r" % (hname, e))

    with ThreadPoolExecutor(max_workers=max(2, core.NCPU // 2)) as ex:
        for r in ex.map(build, jobs):
            if r:
                bad.append(r[0])
                print("setup: %s: %s" % r)
    for pid, spec in specs.items():
        if hasattr(spec, "prebuild"):
            try:
                spec.prebuild()
            except Exception as e:
                bad.append(pid)
                print("setup: %s: prebuild: %r" % (pid, e))
    print("setup done; not ready: %s" % (sorted(set(bad)) or "none"))
    return 0


def main():
    ap = argparse.ArgumentParser()
    ap.add_argument("pid", nargs="?")
    ap.add_argument("--tier", default=os.environ.get("VERIF_TIER", "quick"))
    ap.add_argument("--replay")
    ap.add_argument("--setup", action="store_true")
    ap.add_argument("--all", action="store_true")
    a = ap.parse_args()
    if a.tier not in ("quick", "thorough"):
        a.tier = "quick"
    try:
        if a.setup:
            return setup()
        if a.all:
            rc = 0
            for pid in all_ids():
                rc = max(rc, runner.run_check(load(pid), a.tier))
            return rc
        if not a.pid:
            ap.error("property id required")
        return runner.run_check(load(a.pid), a.tier, replay=a.replay)
    except core.InfraError as e:
        print("ERROR: " + str(e), file=sys.stderr)
        return 2


if __name__ == "__main__":
    sys.exit(main())
