-- Root of the `CoclsModel` library. The checks build the modules they need by name
-- (`lake build CoclsModel.Props.Cxx drv_cxx`); this root only pulls in the shared helpers.
import CoclsModel.Proto
