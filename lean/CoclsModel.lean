-- Root of the `CoclsModel` library: models, generated tables and property theorems.
import CoclsModel.Proto
import CoclsModel.LimitedQueue
import CoclsModel.LimitedQueueProofs
import CoclsModel.Props.C10
