import CoclsModel.Orders

/-
Happens-before machine for C03, part 1: release/acquire message passing on ONE atomic location `flag`
guarding ONE non-atomic location `data`, any number of threads, release sequences, stale reads.

What is modelled (C++20 fragment, DESIGN.md §4.4)
* Orders come from `Orders.lean` and are looked at only through `Order.isAcq` / `Order.isRel`: `relaxed`, `acquire`, `release`,
  `acq_rel`; `seq_cst` is treated as `acq_rel` and `consume` as `relaxed` (both weaker than the standard, hence sound for
  race freedom: the machine reports at least the races the standard allows).
* Vector clocks `VC := Nat → Nat` (thread id ↦ epoch).  Thread `t` has a clock `clk t` (own component starts at 1 and is
  incremented after every releasing write) and a pending-acquire clock `pend t`: the join of the release-sequence clocks of
  *all* messages `t` has read so far, whatever the order of the reading operation.  `doFence` (an acquire fence) joins
  `pend t` into `clk t` ("relaxed load; atomic_thread_fence(acquire)").
* `flag` is a modification-order list of messages `(val, vc, relSeqVc)`, oldest first, starting with `Msg.init`.
  `vc` is the clock the writer released with (bottom for a non-releasing write).  `relSeqVc` is what an acquiring reader
  obtains: for a plain store it is `vc` (a store heads a new release sequence and cuts the old ones); for an RMW it is
  `vc ⊔ relSeqVc` of the message it read (an RMW of ANY thread and ANY order continues every release sequence its
  predecessor belongs to — C++20 [intro.races]/5).
* A load by `t` reads message number `min (seen t + choice) (length - 1)`: ANY message not older than the newest one `t` has
  already observed (read or written) — the schedule supplies `choice`; it then raises `seen t` (per-thread coherence).
  An RMW reads the modification-order-latest message and appends its own.
* `data` carries FastTrack metadata: last-write epoch `wr = (tid, clock)` and the read epochs since that write
  `rd : List (tid × clock)` (a sparse read vector).  A read is ordered iff `wr ≤ clk t`; a write is ordered iff moreover every
  read epoch is `≤ clk t`.  `raced` is set (and stays set) by the first unordered access.  Everything is computable:
  `decide` certifies concrete racy runs.

The protocol run on the machine (`step`, parametrised by `MPOrders` and `Cfg`)
* publisher `cfg.pubTid`:  `writeData` ; `publish` (store — or exchange if `cfg.pubRmw` — of value 1, order `pub`).
* observers (`Role.obsLoad` / `Role.obsRmw`, any number): `observe` (load with a schedule-chosen admissible message, or RMW
  reading the latest and writing `v + 2`, order `obs`); value read has the published bit (odd) ⇒ acquire fence if `obsFence`
  ⇒ plain read of `data`; otherwise the observer may observe again (spin / poll / give up).
* `cfg.obsWrites = true` ("next owner" mode): every observer observes with an RMW that *takes* the token (writes 0, order `obs`)
  and then plain-WRITES `data`.  The mode is global because a writer next to any other accessor that did not take the token
  races whatever the orders are (no protocol-level exclusion); in this mode the theorem says: of any number of competing
  takers one wins and its write is ordered after the publisher's.
* bystanders (`Role.bystander`, any number, any time): RMW `v ↦ v + 2` with order `mid` (keeps the published bit; e.g. other
  waiters pushing themselves onto the awaiter chain).  `mid` is unconstrained in `mp_safe`.

Results: `mp_safe` (all configurations, schedules, stale-read choices), `mp_sees_payload`, `mp_safe_iff` (the hypothesis is
also necessary), `decide` witnesses `mp_needs_release`, `mp_needs_release_xchg_acquire`, `mp_needs_acquire`,
`mp_needs_release_taker`.

NOT modelled: `memory_order_consume` dependency ordering, release fences (`atomic_thread_fence(release)`; unused by cocls),
the seq_cst total order / seq_cst fences, out-of-thin-air values, mixed-size or non-atomic accesses to `flag`, more than one
atomic location per instance (cross-location coherence through happens-before is therefore not needed), `wait/notify`
(blocking is a scheduling matter: a blocked observer is an observer that is not scheduled).
-/

namespace Cocls.Clock

/-! ### vector clocks -/

abbrev VC := Nat → Nat

def VC.bot : VC := fun _ => 0
def VC.join (a b : VC) : VC := fun i => max (a i) (b i)
def VC.le (a b : VC) : Prop := ∀ i, a i ≤ b i

/-- point update of a function-indexed state component -/
def upd {α : Type} (f : Nat → α) (k : Nat) (v : α) : Nat → α := fun i => if i = k then v else f i

@[simp] theorem upd_same {α : Type} (f : Nat → α) (k : Nat) (v : α) : upd f k v k = v := by simp [upd]
@[simp] theorem upd_other {α : Type} (f : Nat → α) {k i : Nat} (v : α) (h : i ≠ k) : upd f k v i = f i := by
  simp [upd, h]
theorem upd_apply {α : Type} (f : Nat → α) (k i : Nat) (v : α) : upd f k v i = if i = k then v else f i := rfl

@[simp] theorem VC.bot_apply (i : Nat) : VC.bot i = 0 := rfl
@[simp] theorem VC.join_apply (a b : VC) (i : Nat) : VC.join a b i = max (a i) (b i) := rfl

/-- next epoch of thread `t` -/
def VC.tick (c : VC) (t : Nat) : VC := upd c t (c t + 1)
/-- initial clock of thread `t`: own component 1 (epoch 0 is "before everything") -/
def VC.init (t : Nat) : VC := upd VC.bot t 1

/-- the clock a write of order `ord` releases: the writer's clock, or bottom -/
def relVc (ord : Order) (c : VC) : VC := fun i => if ord.isRel then c i else 0
/-- the reader's clock after reading a message with release-sequence clock `m` with order `ord` -/
def acqVc (ord : Order) (c m : VC) : VC := fun i => if ord.isAcq then max (c i) (m i) else c i
/-- a releasing write starts a new epoch of the writer -/
def tickIf (ord : Order) (c : VC) (t : Nat) : VC := fun i => if ord.isRel then (if i = t then c i + 1 else c i) else c i

theorem upd_apply2 {β : Type} (f : Nat → Nat → β) (k i j : Nat) (v : Nat → β) :
    upd f k v i j = if i = k then v j else f i j := by
  simp only [upd]; split <;> rfl
theorem relVc_apply (ord : Order) (c : VC) (i : Nat) : relVc ord c i = if ord.isRel then c i else 0 := rfl
theorem acqVc_apply (ord : Order) (c m : VC) (i : Nat) :
    acqVc ord c m i = if ord.isAcq then max (c i) (m i) else c i := rfl
theorem tickIf_apply (ord : Order) (c : VC) (t i : Nat) :
    tickIf ord c t i = if ord.isRel then (if i = t then c i + 1 else c i) else c i := rfl

/-! ### state -/

/-- one entry of `flag`'s modification order -/
structure Msg where
  val : Nat
  vc : VC
  relSeqVc : VC

def Msg.init : Msg := ⟨0, VC.bot, VC.bot⟩

/-- the "published" bit of a flag value -/
def published (v : Nat) : Bool := v % 2 == 1

inductive Pc where
  | start | pub | fence | acc | done
  deriving DecidableEq, Repr, Inhabited

/-- machine state; `clk pend seen pc` are indexed by thread id -/
structure St where
  clk : Nat → VC
  pend : Nat → VC
  seen : Nat → Nat
  pc : Nat → Pc
  hist : List Msg
  wr : Nat × Nat
  rd : List (Nat × Nat)
  raced : Bool

def St.init : St :=
  { clk := VC.init, pend := fun _ => VC.bot, seen := fun _ => 0, pc := fun _ => Pc.start,
    hist := [Msg.init], wr := (0, 0), rd := [], raced := false }

def setPc (s : St) (t : Nat) (p : Pc) : St := { s with pc := upd s.pc t p }

/-- modification-order-latest message (what an RMW reads) -/
def lastMsg (s : St) : Msg := s.hist.getLastD Msg.init
/-- index of the message a load of `t` reads under stale-read choice `c`: never older than `seen t` -/
def readIdx (s : St) (t c : Nat) : Nat := min (s.seen t + c) (s.hist.length - 1)
def readMsg (s : St) (t c : Nat) : Msg := s.hist.getD (readIdx s t c) Msg.init

/-! ### atomic primitives on `flag` -/

def doLoad (ord : Order) (s : St) (t c : Nat) : St :=
  { s with
    seen := upd s.seen t (readIdx s t c)
    clk := upd s.clk t (acqVc ord (s.clk t) (readMsg s t c).relSeqVc)
    pend := upd s.pend t (VC.join (s.pend t) (readMsg s t c).relSeqVc) }

def doStore (ord : Order) (v : Nat) (s : St) (t : Nat) : St :=
  { s with
    hist := s.hist ++ [⟨v, relVc ord (s.clk t), relVc ord (s.clk t)⟩]
    seen := upd s.seen t s.hist.length
    clk := upd s.clk t (tickIf ord (s.clk t) t) }

def doRmw (ord : Order) (f : Nat → Nat) (s : St) (t : Nat) : St :=
  { s with
    hist := s.hist ++ [⟨f (lastMsg s).val, relVc ord (acqVc ord (s.clk t) (lastMsg s).relSeqVc),
                        VC.join (relVc ord (acqVc ord (s.clk t) (lastMsg s).relSeqVc)) (lastMsg s).relSeqVc⟩]
    seen := upd s.seen t s.hist.length
    clk := upd s.clk t (tickIf ord (acqVc ord (s.clk t) (lastMsg s).relSeqVc) t)
    pend := upd s.pend t (VC.join (s.pend t) (lastMsg s).relSeqVc) }

def doFence (s : St) (t : Nat) : St :=
  { s with clk := upd s.clk t (VC.join (s.clk t) (s.pend t)) }

/-! ### non-atomic accesses to `data` (FastTrack) -/

def ordW (s : St) (t : Nat) : Bool := decide (s.wr.2 ≤ s.clk t s.wr.1)
def ordR (s : St) (t : Nat) : Bool := s.rd.all (fun e => decide (e.2 ≤ s.clk t e.1))

def doRead (s : St) (t : Nat) : St :=
  { s with rd := (t, s.clk t t) :: s.rd, raced := s.raced || !ordW s t }

def doWrite (s : St) (t : Nat) : St :=
  { s with wr := (t, s.clk t t), rd := [], raced := s.raced || !(ordW s t && ordR s t) }

/-! ### roles -/

/-- the orders written in the source at the sites of one message-passing protocol -/
structure MPOrders where
  pub : Order
  obs : Order
  obsFence : Bool
  mid : Order
  deriving DecidableEq, Repr, Inhabited

inductive Role where
  | obsLoad | obsRmw | bystander | idle
  deriving DecidableEq, Repr, Inhabited

/-- who does what: one publisher, the role of every other thread id, and two protocol-shape switches -/
structure Cfg where
  pubTid : Nat
  role : Nat → Role
  pubRmw : Bool
  obsWrites : Bool

def nextPcObs (o : MPOrders) (v : Nat) : Pc :=
  if published v then (if o.obsFence then Pc.fence else Pc.acc) else Pc.start

def stepWriteData (s : St) (t : Nat) : St := setPc (doWrite s t) t Pc.pub
def stepPublishRmw (o : MPOrders) (s : St) (t : Nat) : St := setPc (doRmw o.pub (fun _ => 1) s t) t Pc.done
def stepPublishStore (o : MPOrders) (s : St) (t : Nat) : St := setPc (doStore o.pub 1 s t) t Pc.done
def stepObsLoad (o : MPOrders) (s : St) (t c : Nat) : St :=
  setPc (doLoad o.obs s t c) t (nextPcObs o (readMsg s t c).val)
def stepObsRmw (o : MPOrders) (s : St) (t : Nat) : St :=
  setPc (doRmw o.obs (· + 2) s t) t (nextPcObs o (lastMsg s).val)
def stepObsTake (o : MPOrders) (s : St) (t : Nat) : St :=
  setPc (doRmw o.obs (fun _ => 0) s t) t (nextPcObs o (lastMsg s).val)
def stepObsRead (s : St) (t : Nat) : St := setPc (doRead s t) t Pc.done
def stepObsWrite (s : St) (t : Nat) : St := setPc (doWrite s t) t Pc.done
def stepObsFence (s : St) (t : Nat) : St := setPc (doFence s t) t Pc.acc
def stepBystander (o : MPOrders) (s : St) (t : Nat) : St := doRmw o.mid (· + 2) s t

def stepPublisher (o : MPOrders) (cfg : Cfg) (s : St) (t : Nat) : St :=
  match s.pc t with
  | Pc.start => stepWriteData s t
  | Pc.pub => if cfg.pubRmw then stepPublishRmw o s t else stepPublishStore o s t
  | _ => s

def stepObserver (o : MPOrders) (cfg : Cfg) (rmw : Bool) (s : St) (t c : Nat) : St :=
  match s.pc t with
  | Pc.start => if cfg.obsWrites then stepObsTake o s t else if rmw then stepObsRmw o s t else stepObsLoad o s t c
  | Pc.fence => stepObsFence s t
  | Pc.acc => if cfg.obsWrites then stepObsWrite s t else stepObsRead s t
  | _ => s

/-- one schedule entry `(tid, choice)`; a thread with nothing to do stutters -/
def step (o : MPOrders) (cfg : Cfg) (s : St) (e : Nat × Nat) : St :=
  if e.1 = cfg.pubTid then stepPublisher o cfg s e.1
  else match cfg.role e.1 with
    | Role.obsLoad => stepObserver o cfg false s e.1 e.2
    | Role.obsRmw => stepObserver o cfg true s e.1 e.2
    | Role.bystander => stepBystander o s e.1
    | Role.idle => s

def run (o : MPOrders) (cfg : Cfg) (sched : List (Nat × Nat)) : St := sched.foldl (step o cfg) St.init


/-! ### the clock-domination invariant -/

theorem published_zero : published 0 = false := by decide
theorem published_one : published 1 = true := by decide
theorem published_add_two (v : Nat) : published (v + 2) = published v := by
  simp [published]

theorem getLastD_prop {α : Type} (P : α → Prop) (l : List α) (d : α) (hd : P d) (hl : ∀ m ∈ l, P m) :
    P (l.getLastD d) := by
  cases l with
  | nil => simpa using hd
  | cons a as =>
    rw [List.getLastD_cons, ← List.getLast_eq_getLastD (by simp)]
    exact hl _ (List.getLast_mem _)

theorem getD_prop {α : Type} (P : α → Prop) (l : List α) (i : Nat) (d : α) (hd : P d) (hl : ∀ m ∈ l, P m) :
    P (l.getD i d) := by
  rw [List.getD_eq_getElem?_getD]
  cases h : l[i]? with
  | none => simpa using hd
  | some x => simp; exact hl x (List.mem_of_getElem? h)

/-- Clock domination.  `wr` is the publisher's data-write epoch as long as `wr.1 = cfg.pubTid` (always, unless a taker has
already overwritten `data` in `obsWrites` mode): every message with the published bit carries it in `relSeqVc` (`msgs`), an
observer at its fence has it in `pend` (`fen`), an observer about to access `data` has it in `clk` (`acc`).  Published
messages and observers past `observe` exist only after the publisher is done (`msgdone`, `obsdone`); nobody has read `data`
while somebody may still write it (`rdnil`); in `obsWrites` mode at most one observer got past `observe` and the token is
gone (`excl`, `taken`). -/
structure Inv (cfg : Cfg) (s : St) : Prop where
  nr : s.raced = false
  pos : ∀ t, 1 ≤ s.clk t t
  pstart : s.pc cfg.pubTid = Pc.start → s.wr.2 = 0
  ppub : s.pc cfg.pubTid = Pc.pub → s.wr.1 = cfg.pubTid ∧ 1 ≤ s.wr.2 ∧ s.wr.2 ≤ s.clk cfg.pubTid cfg.pubTid
  msgdone : ∀ m ∈ s.hist, published m.val = true → s.pc cfg.pubTid = Pc.done
  obsdone : ∀ t, t ≠ cfg.pubTid → s.pc t ≠ Pc.start → s.pc cfg.pubTid = Pc.done
  rdnil : (s.pc cfg.pubTid ≠ Pc.done ∨ cfg.obsWrites = true) → s.rd = []
  rmode : cfg.obsWrites = false → s.pc cfg.pubTid = Pc.done → s.wr.1 = cfg.pubTid ∧ 1 ≤ s.wr.2
  lastpub : published (lastMsg s).val = true → s.wr.1 = cfg.pubTid ∧ 1 ≤ s.wr.2
  msgs : s.wr.1 = cfg.pubTid → ∀ m ∈ s.hist, published m.val = true → s.wr.2 ≤ m.relSeqVc cfg.pubTid
  acc : ∀ t, t ≠ cfg.pubTid → s.pc t = Pc.acc → s.wr.1 = cfg.pubTid ∧ 1 ≤ s.wr.2 ∧ s.wr.2 ≤ s.clk t cfg.pubTid
  fen : ∀ t, t ≠ cfg.pubTid → s.pc t = Pc.fence → s.wr.1 = cfg.pubTid ∧ 1 ≤ s.wr.2 ∧ s.wr.2 ≤ s.pend t cfg.pubTid
  excl : cfg.obsWrites = true → ∀ t u, t ≠ cfg.pubTid → u ≠ cfg.pubTid → s.pc t ≠ Pc.start → s.pc u ≠ Pc.start → t = u
  taken : cfg.obsWrites = true → ∀ t, t ≠ cfg.pubTid → s.pc t ≠ Pc.start → published (lastMsg s).val = false

theorem inv_init (cfg : Cfg) : Inv cfg St.init := by
  refine ⟨?_, ?_, ?_, ?_, ?_, ?_, ?_, ?_, ?_, ?_, ?_, ?_, ?_, ?_⟩ <;> simp [St.init, VC.init, upd_apply, Msg.init, published, lastMsg]

theorem lastMsg_facts {cfg : Cfg} {s : St} (h : Inv cfg s) :
    (published (lastMsg s).val = true → s.pc cfg.pubTid = Pc.done) ∧
    (s.wr.1 = cfg.pubTid → published (lastMsg s).val = true → s.wr.2 ≤ (lastMsg s).relSeqVc cfg.pubTid) := by
  constructor
  · exact getLastD_prop (fun m : Msg => published m.val = true → s.pc cfg.pubTid = Pc.done) _ _ (by simp [Msg.init, published]) h.msgdone
  · intro hl
    exact getLastD_prop (fun m : Msg => published m.val = true → s.wr.2 ≤ m.relSeqVc cfg.pubTid) _ _ (by simp [Msg.init, published]) (h.msgs hl)

theorem readMsg_facts {cfg : Cfg} {s : St} (h : Inv cfg s) (t c : Nat) :
    (published (readMsg s t c).val = true → s.pc cfg.pubTid = Pc.done) ∧
    (s.wr.1 = cfg.pubTid → published (readMsg s t c).val = true → s.wr.2 ≤ (readMsg s t c).relSeqVc cfg.pubTid) := by
  constructor
  · exact getD_prop (fun m : Msg => published m.val = true → s.pc cfg.pubTid = Pc.done) _ _ _ (by simp [Msg.init, published]) h.msgdone
  · intro hl
    exact getD_prop (fun m : Msg => published m.val = true → s.wr.2 ≤ m.relSeqVc cfg.pubTid) _ _ _ (by simp [Msg.init, published]) (h.msgs hl)

@[simp] theorem lastMsg_mk (c pe : Nat → VC) (se : Nat → Nat) (pc : Nat → Pc) (h : List Msg) (x : Msg) (w : Nat × Nat)
    (r : List (Nat × Nat)) (ra : Bool) : lastMsg ⟨c, pe, se, pc, h ++ [x], w, r, ra⟩ = x := by
  simp [lastMsg]

theorem lastMsg_same (s : St) (c pe : Nat → VC) (se : Nat → Nat) (pc : Nat → Pc) (w : Nat × Nat)
    (r : List (Nat × Nat)) (ra : Bool) : lastMsg ⟨c, pe, se, pc, s.hist, w, r, ra⟩ = lastMsg s := rfl

macro "inv_close" : tactic => `(tactic|
  (refine ⟨?_, ?_, ?_, ?_, ?_, ?_, ?_, ?_, ?_, ?_, ?_, ?_, ?_, ?_⟩ <;>
    simp only [stepWriteData, stepPublishRmw, stepPublishStore, stepObsLoad, stepObsRmw, stepObsTake, stepObsFence,
      stepObsRead, stepObsWrite, stepBystander,
      setPc, doWrite, doRead, doLoad, doStore, doRmw, doFence, lastMsg_mk, lastMsg_same] <;>
    (try generalize lastMsg _ = lm at *) <;>
    (try generalize readMsg _ _ _ = rm at *) <;>
    (try simp only [ordW, ordR, nextPcObs, List.forall_mem_append, List.forall_mem_singleton] at *) <;>
    grind [upd_apply, upd_apply2, published_add_two, published_zero, published_one, VC.join_apply, VC.bot_apply, relVc_apply, acqVc_apply, tickIf_apply]))

theorem inv_publishStore {o : MPOrders} {cfg : Cfg} {s : St} (h : Inv cfg s) (ho : o.pub.isRel = true)
    (hp : s.pc cfg.pubTid = Pc.pub) : Inv cfg (stepPublishStore o s cfg.pubTid) := by
  obtain ⟨hl1, hl2⟩ := lastMsg_facts h
  obtain ⟨nr, pos, pstart, ppub, msgdone, obsdone, rdnil, rmode, lastpub, msgs, acc, fen, excl, taken⟩ := h
  inv_close

theorem inv_publishRmw {o : MPOrders} {cfg : Cfg} {s : St} (h : Inv cfg s) (ho : o.pub.isRel = true)
    (hp : s.pc cfg.pubTid = Pc.pub) : Inv cfg (stepPublishRmw o s cfg.pubTid) := by
  obtain ⟨hl1, hl2⟩ := lastMsg_facts h
  obtain ⟨nr, pos, pstart, ppub, msgdone, obsdone, rdnil, rmode, lastpub, msgs, acc, fen, excl, taken⟩ := h
  inv_close

theorem inv_bystander {o : MPOrders} {cfg : Cfg} {s : St} (h : Inv cfg s) {t : Nat} (ht : t ≠ cfg.pubTid) :
    Inv cfg (stepBystander o s t) := by
  obtain ⟨hl1, hl2⟩ := lastMsg_facts h
  obtain ⟨nr, pos, pstart, ppub, msgdone, obsdone, rdnil, rmode, lastpub, msgs, acc, fen, excl, taken⟩ := h
  inv_close

theorem inv_obsLoad {o : MPOrders} {cfg : Cfg} {s : St} (h : Inv cfg s) (ho : o.obs.isAcq = true ∨ o.obsFence = true)
    {t : Nat} (c : Nat) (ht : t ≠ cfg.pubTid) (hw : cfg.obsWrites = false) :
    Inv cfg (stepObsLoad o s t c) := by
  obtain ⟨hl1, hl2⟩ := readMsg_facts h t c
  obtain ⟨nr, pos, pstart, ppub, msgdone, obsdone, rdnil, rmode, lastpub, msgs, acc, fen, excl, taken⟩ := h
  inv_close

theorem inv_obsRmw {o : MPOrders} {cfg : Cfg} {s : St} (h : Inv cfg s) (ho : o.obs.isAcq = true ∨ o.obsFence = true)
    {t : Nat} (ht : t ≠ cfg.pubTid) (hw : cfg.obsWrites = false) :
    Inv cfg (stepObsRmw o s t) := by
  obtain ⟨hl1, hl2⟩ := lastMsg_facts h
  obtain ⟨nr, pos, pstart, ppub, msgdone, obsdone, rdnil, rmode, lastpub, msgs, acc, fen, excl, taken⟩ := h
  inv_close

theorem inv_obsTake {o : MPOrders} {cfg : Cfg} {s : St} (h : Inv cfg s) (ho : o.obs.isAcq = true ∨ o.obsFence = true)
    {t : Nat} (ht : t ≠ cfg.pubTid) (hw : cfg.obsWrites = true) :
    Inv cfg (stepObsTake o s t) := by
  obtain ⟨hl1, hl2⟩ := lastMsg_facts h
  obtain ⟨nr, pos, pstart, ppub, msgdone, obsdone, rdnil, rmode, lastpub, msgs, acc, fen, excl, taken⟩ := h
  inv_close

theorem inv_obsFence {cfg : Cfg} {s : St} (h : Inv cfg s)
    {t : Nat} (ht : t ≠ cfg.pubTid) (hpc : s.pc t = Pc.fence) :
    Inv cfg (stepObsFence s t) := by
  obtain ⟨nr, pos, pstart, ppub, msgdone, obsdone, rdnil, rmode, lastpub, msgs, acc, fen, excl, taken⟩ := h
  inv_close

theorem inv_obsRead {cfg : Cfg} {s : St} (h : Inv cfg s)
    {t : Nat} (ht : t ≠ cfg.pubTid) (hpc : s.pc t = Pc.acc) (hw : cfg.obsWrites = false) :
    Inv cfg (stepObsRead s t) := by
  obtain ⟨nr, pos, pstart, ppub, msgdone, obsdone, rdnil, rmode, lastpub, msgs, acc, fen, excl, taken⟩ := h
  inv_close

theorem inv_obsWrite {cfg : Cfg} {s : St} (h : Inv cfg s)
    {t : Nat} (ht : t ≠ cfg.pubTid) (hpc : s.pc t = Pc.acc) (hw : cfg.obsWrites = true) :
    Inv cfg (stepObsWrite s t) := by
  obtain ⟨nr, pos, pstart, ppub, msgdone, obsdone, rdnil, rmode, lastpub, msgs, acc, fen, excl, taken⟩ := h
  inv_close

theorem inv_writeData {cfg : Cfg} {s : St} (h : Inv cfg s) (hp : s.pc cfg.pubTid = Pc.start) :
    Inv cfg (stepWriteData s cfg.pubTid) := by
  obtain ⟨nr, pos, pstart, ppub, msgdone, obsdone, rdnil, rmode, lastpub, msgs, acc, fen, excl, taken⟩ := h
  inv_close


theorem inv_step {o : MPOrders} {cfg : Cfg} (hpub : o.pub.isRel = true) (hobs : o.obs.isAcq = true ∨ o.obsFence = true)
    {s : St} (h : Inv cfg s) (e : Nat × Nat) : Inv cfg (step o cfg s e) := by
  unfold step
  split
  · next he =>
    rw [he]; unfold stepPublisher
    split
    · next hpc => exact inv_writeData h hpc
    · next hpc => split
                  · exact inv_publishRmw h hpub hpc
                  · exact inv_publishStore h hpub hpc
    · exact h
  · next he =>
    have hobsv : ∀ rmw, Inv cfg (stepObserver o cfg rmw s e.1 e.2) := by
      intro rmw; unfold stepObserver
      split
      · cases hw : cfg.obsWrites
        · cases rmw
          · exact inv_obsLoad h hobs e.2 he hw
          · exact inv_obsRmw h hobs he hw
        · exact inv_obsTake h hobs he hw
      · next hpc => exact inv_obsFence h he hpc
      · next hpc =>
        cases hw : cfg.obsWrites
        · exact inv_obsRead h he hpc hw
        · exact inv_obsWrite h he hpc hw
      · exact h
    split
    · exact hobsv false
    · exact hobsv true
    · exact inv_bystander h he
    · exact h

theorem inv_run {o : MPOrders} {cfg : Cfg} (hpub : o.pub.isRel = true) (hobs : o.obs.isAcq = true ∨ o.obsFence = true)
    (sched : List (Nat × Nat)) : Inv cfg (run o cfg sched) := by
  unfold run
  suffices ∀ s, Inv cfg s → Inv cfg (sched.foldl (step o cfg) s) from this _ (inv_init cfg)
  induction sched with
  | nil => intro s h; exact h
  | cons e es ih => intro s h; exact ih _ (inv_step hpub hobs h e)

/-- Message passing is race free for every thread count, schedule and stale-read choice, whatever order the
bystander RMWs use. -/
theorem mp_safe (o : MPOrders) (hpub : o.pub.isRel = true) (hobs : o.obs.isAcq = true ∨ o.obsFence = true) :
    ∀ (cfg : Cfg) (sched : List (Nat × Nat)), (run o cfg sched).raced = false :=
  fun _ sched => (inv_run hpub hobs sched).nr

/-- An observer that is about to access `data` (it read a value with the published bit and, if required, executed its
fence) has the publisher's write of `data` in its clock: `wr` is that write (`wr.1 = pubTid`, a real epoch `≥ 1`) and
`wr ≤ clk t`. -/
theorem mp_sees_payload (o : MPOrders) (hpub : o.pub.isRel = true) (hobs : o.obs.isAcq = true ∨ o.obsFence = true)
    (cfg : Cfg) (sched : List (Nat × Nat)) (t : Nat) (ht : t ≠ cfg.pubTid)
    (hacc : (run o cfg sched).pc t = Pc.acc) :
    (run o cfg sched).wr.1 = cfg.pubTid ∧ 1 ≤ (run o cfg sched).wr.2 ∧
      (run o cfg sched).wr.2 ≤ (run o cfg sched).clk t cfg.pubTid :=
  (inv_run hpub hobs sched).acc t ht hacc


/-! ### minimality witnesses -/

/-- thread 0 publishes with a store, thread 1 observes with loads, nobody else runs -/
def cfgLoad : Cfg :=
  { pubTid := 0, role := fun t => if t = 1 then Role.obsLoad else Role.idle, pubRmw := false, obsWrites := false }

/-- thread 0 publishes with an exchange, thread 1 observes with an RMW, thread 2 is a bystander -/
def cfgXchg : Cfg :=
  { pubTid := 0, role := fun t => if t = 1 then Role.obsRmw else if t = 2 then Role.bystander else Role.idle,
    pubRmw := true, obsWrites := false }

/-- thread 0 publishes, threads 1 and 2 compete to take the token and write the data -/
def cfgTake : Cfg :=
  { pubTid := 0, role := fun t => if t = 1 ∨ t = 2 then Role.obsRmw else if t = 3 then Role.bystander else Role.idle,
    pubRmw := false, obsWrites := true }

/-- write data, publish, observer reads the newest message (choice 1 = one past what it has seen), accesses data -/
def schedMP : List (Nat × Nat) := [(0, 0), (0, 0), (1, 1), (1, 0), (1, 0)]

theorem mp_needs_release :
    (run ⟨Order.relaxed, Order.acquire, false, Order.relaxed⟩ cfgLoad schedMP).raced = true := by decide

/-- the pinned `future::set` → `resume_chain_set_ready` shape: the publishing exchange is acquire-only -/
theorem mp_needs_release_xchg_acquire :
    (run ⟨Order.acquire, Order.acquire, true, Order.acq_rel⟩ cfgXchg [(0, 0), (0, 0), (2, 0), (1, 0), (1, 0), (1, 0)]).raced
      = true := by decide

theorem mp_needs_acquire :
    (run ⟨Order.release, Order.relaxed, false, Order.relaxed⟩ cfgLoad schedMP).raced = true := by decide

theorem mp_needs_release_taker :
    (run ⟨Order.relaxed, Order.acquire, false, Order.relaxed⟩ cfgTake schedMP).raced = true := by decide

/-- relaxed observation + acquire fence is enough; a relaxed bystander RMW between publication and observation
does not break the release sequence -/
example : (run ⟨Order.release, Order.relaxed, true, Order.relaxed⟩ cfgXchg
    [(0, 0), (0, 0), (2, 0), (2, 0), (1, 0), (1, 0), (1, 0)]).raced = false := by decide

/-- sanity: a stale read (the observer reads the initial message although the flag is already published) does not
touch data: the observer stays at its observing pc and the read vector stays empty -/
example : (run ⟨Order.release, Order.acquire, false, Order.relaxed⟩ cfgLoad [(0, 0), (0, 0), (1, 0), (1, 0)]).pc 1 = Pc.start
    ∧ (run ⟨Order.release, Order.acquire, false, Order.relaxed⟩ cfgLoad [(0, 0), (0, 0), (1, 0), (1, 0)]).rd = [] := by decide

/-- sanity: the same observer, reading the newest message, does read the data (so `mp_safe` is not vacuous) -/
example : (run ⟨Order.release, Order.acquire, false, Order.relaxed⟩ cfgLoad schedMP).rd = [(1, 1)]
    ∧ (run ⟨Order.release, Order.acquire, false, Order.relaxed⟩ cfgLoad schedMP).wr = (0, 1) := by decide

/-- sanity (taker mode): exactly one of two competing takers gets to write -/
example : (run ⟨Order.release, Order.acquire, false, Order.relaxed⟩ cfgTake
    [(0, 0), (0, 0), (3, 0), (2, 0), (1, 0), (2, 0), (1, 0)]).wr = (2, 1)
    ∧ (run ⟨Order.release, Order.acquire, false, Order.relaxed⟩ cfgTake
    [(0, 0), (0, 0), (3, 0), (2, 0), (1, 0), (2, 0), (1, 0)]).pc 1 = Pc.start := by decide

/-- every order table whose publishing operation is not a release has a racy run (whatever the other entries are) -/
theorem mp_release_necessary (o : MPOrders) (h : o.pub.isRel = false) :
    ∃ cfg sched, (run o cfg sched).raced = true := by
  refine ⟨cfgLoad, schedMP, ?_⟩
  obtain ⟨pub, obs, f, mid⟩ := o
  cases pub <;> cases obs <;> cases f <;> first | (simp [Order.isRel] at h; done) | rfl

/-- every order table whose observation is neither an acquire nor followed by an acquire fence has a racy run -/
theorem mp_acquire_necessary (o : MPOrders) (h : o.obs.isAcq = false) (hf : o.obsFence = false) :
    ∃ cfg sched, (run o cfg sched).raced = true := by
  refine ⟨cfgLoad, schedMP, ?_⟩
  obtain ⟨pub, obs, f, mid⟩ := o
  cases pub <;> cases obs <;> cases f <;> first | (simp [Order.isAcq] at h hf; done) | rfl

/-- the decidable sufficient condition, for `by decide` on extracted order tables -/
def MPOrders.sufficient (o : MPOrders) : Bool := o.pub.isRel && (o.obs.isAcq || o.obsFence)

theorem mp_safe_of_sufficient (o : MPOrders) (h : o.sufficient = true) :
    ∀ (cfg : Cfg) (sched : List (Nat × Nat)), (run o cfg sched).raced = false := by
  simp only [MPOrders.sufficient, Bool.and_eq_true, Bool.or_eq_true] at h
  exact mp_safe o h.1 h.2

/-- `mp_safe`'s hypothesis is exactly what race freedom of the protocol needs -/
theorem mp_safe_iff (o : MPOrders) :
    (∀ (cfg : Cfg) (sched : List (Nat × Nat)), (run o cfg sched).raced = false) ↔
      (o.pub.isRel = true ∧ (o.obs.isAcq = true ∨ o.obsFence = true)) := by
  constructor
  · intro h
    refine ⟨?_, ?_⟩
    · cases hr : o.pub.isRel with
      | true => rfl
      | false => obtain ⟨cfg, sched, hx⟩ := mp_release_necessary o hr; rw [h cfg sched] at hx; cases hx
    · cases ha : o.obs.isAcq with
      | true => exact Or.inl rfl
      | false =>
        cases hf : o.obsFence with
        | true => exact Or.inr rfl
        | false => obtain ⟨cfg, sched, hx⟩ := mp_acquire_necessary o ha hf; rw [h cfg sched] at hx; cases hx
  · intro ⟨h1, h2⟩; exact mp_safe o h1 h2

end Cocls.Clock
