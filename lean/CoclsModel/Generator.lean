/-
Executable model of `cocls::generator<T,Arg>` (src/cocls/generator.h) with the `generator_iterator` adapter
(src/cocls/iterator.h), as the code is.

* the *body* is a script (`Act`) run by `exec` until its next suspension: `co_yield v`, `co_yield nullptr`,
  `co_await` of a ready / possibly pending awaitable, `co_await pause()`, construction of a local with a destructor, `throw`, `co_return`;
* the promise record has the fields of `generator::promise_type`: `_caller` (`caller`, plus the resume function currently
  installed in `_internal`: `ifn`), `_arg`, `_ret`, `_exp`, `_done`, `_block`, `_awaiting`; `bst = final` is `h.done()`;
* consumer operations (`Op`): the synchronous access `bool(gen.next(a))` split at its only blocking point
  (`syncBegin` = everything up to `h.resume()` returning, `syncEnd` = `_block.wait` returning + `await_resume`), `value()`,
  `co_await gen.next(a)` from a consumer coroutine (`anext`), `gen(a)` (`call`) and the four ways of reading the returned
  future, the iterator operations, `complete k` (an awaited operation finishes, on whatever thread) and `destroy`.
  An interleaving of the consumer thread with the threads completing awaited operations is an `Op` list.

Fields below the `-- ghost` line are logs; `step` never reads them.
Core Lean only (the driver links this file).
-/
namespace Cocls.Gen

/-- one statement of the generator body -/
inductive Act
  | yield (v : Nat)     -- co_yield v   (a fresh local or a temporary holding v)
  | yieldAcc (c : Nat)  -- `acc.append(c); co_yield acc;`: the body extends a variable of its own and yields *that variable* (an
                        -- lvalue it keeps using: the next `yieldAcc` builds on what the variable holds then, and on resumption
                        -- the body looks at it: `Ev.acc`). With digits c the variable holds the decimal number of the digits so far
  | yieldNull           -- co_yield nullptr   (reads the current argument, does not suspend)
  | awaitReady          -- co_await <ready awaitable>
  | pause               -- co_await cocls::pause(): the body goes to the tail of its thread's coroutine queue and whatever is queued
                        -- runs first. The body always runs under a queue (an access from ordinary code installs one for the
                        -- activation: `resume_in_queue`, /repo fix 191263e; the pinned code ran the body without a queue and
                        -- `pause` dereferenced the null `coro_queue::instance`), and in every access style of this model nothing
                        -- else is queued on the body's thread: the body continues at once
  | await (k : Nat)     -- co_await <operation k>: suspends unless k already completed
  | guard               -- a local object with a destructor comes into scope
  | throw               -- an exception escapes the body
  | ret                 -- co_return
  deriving DecidableEq, Repr

/-- where the body coroutine is suspended; `run` only inside `exec` -/
inductive BSt
  | init | run | yield | await (k : Nat) | final
  deriving DecidableEq, Repr

/-- `_caller`: nullptr, `&_internal`, or the `next_awt` of a consumer coroutine -/
inductive Caller
  | none | internal | awt
  deriving DecidableEq, Repr

/-- the resume function installed in `_internal` (initially `awaiter::null_fn`) -/
inductive IFn
  | null | sync | future
  deriving DecidableEq, Repr

/-- what one access delivers / what a read returns -/
inductive Item
  | val (v : Nat)   -- a value
  | exc             -- the exception that escaped the body
  | fin             -- end of sequence: `false` from next(), a future without value
  | nomore          -- end of sequence: `no_more_values_exception`
  | notready        -- `value_not_ready_exception` (only `value()` with nothing to read)
  deriving DecidableEq, Repr

/-- which adapter started the synchronous access that is under way (decides what `syncEnd` updates) -/
inductive SyncKind
  | plain | itBegin | itInc | itPost (stored : Item)
  | kept        -- `bool(n)` / `!n` on a kept `auto n = gen.next(a)` object
  deriving DecidableEq, Repr

/-- consumer side: idle, inside a synchronous access, or a consumer coroutine parked in `co_await gen.next()` -/
inductive Cons
  | idle | inSync (k : SyncKind) | parked
  deriving DecidableEq, Repr

/-- which external awaiter `next_async` was given: a consumer coroutine in `co_await gen.next(a)`, a callback
(`gen.next(a).subscribe(&cb)`), or a consumer coroutine in `co_await n` on a kept `auto n = gen.next(a)` object -/
inductive AwtKind
  | coro | cb | kept
  deriving DecidableEq, Repr

/-- the future returned by the most recent `gen(a)` -/
inductive FutSt
  | none | pending | ready (i : Item)
  deriving DecidableEq, Repr

/-- a consumer coroutine parked on the pending future: `co_await f` or `co_await f.has_value()` -/
inductive Reader
  | await | has
  deriving DecidableEq, Repr

/-- things that become visible while an operation runs -/
inductive Ev
  | got (a : Nat)          -- the body received an argument (result of co_yield)
  | anext (i : Item)       -- the consumer coroutine parked in `co_await gen.next()` continued
  | kawait (i : Item)      -- the coroutine parked in `co_await n` (kept next() object) continued
  | sub (i : Item)         -- the consumer's callback awaiter (`gen.next(a).subscribe(&cb)`) was called and looked at the result
  | fawait (i : Item)      -- the coroutine parked in `co_await f` continued
  | fhas (b : Bool)        -- the coroutine parked in `co_await f.has_value()` continued
  | dtor (g : Nat)         -- guard g of the body was destroyed
  | acc (v : Nat)          -- the body, resumed from `co_yield acc`, looked at its variable: it holds v
  deriving DecidableEq, Repr

inductive Res
  | unit | gone | blocked | busy | bad | na | noit | nofut | nokept | stale
  | started                       -- synchronous access started; `syncEnd` finishes it
  | next (b : Bool)               -- result of bool(next()) / `it != end` after begin, ++
  | nomore                        -- no_more_values_exception thrown by the access
  | item (i : Item)               -- value(), *it, f.wait(), peek
  | pending | ready               -- state of the future returned by `call`
  | pinc (stored : Item) (b : Bool)
  | isEnd (b : Bool)
  | active (b : Bool)             -- `bool(gen)` = `!done()`
  | destroyed
  deriving DecidableEq, Repr

structure State where
  -- the body
  mode     : Bool          -- true: generator<T,Arg> with an argument type
  script   : List Act      -- statements not yet executed
  bst      : BSt
  live     : List Nat      -- guards in scope
  made     : Nat           -- guards constructed so far
  resolved : List Nat      -- awaited operations completed so far
  alive    : Bool          -- the generator object (and the frame) exists
  acc      : Nat           -- the body's accumulator variable (a local of the frame)
  atAcc    : Bool          -- the body is parked at `co_yield acc`: `_ret` designates the variable itself (`ret` is what reading it gives)
  -- generator::promise_type
  caller   : Caller
  ifn      : IFn
  arg      : Option Nat
  ret      : Option Nat
  exp      : Bool
  done     : Bool
  block    : Bool
  awaiting : Bool
  -- the consumer
  cons     : Cons
  fut      : FutSt
  reader   : Option Reader
  it       : Option Bool   -- generator_iterator::_next of the harness' iterator
  awtKind  : AwtKind       -- which external awaiter the last `next_async` armed
  kept     : Option Nat    -- the kept `auto n = gen.next(a)` object (with the argument it was created with), if any
  kstate   : Bool          -- its `mutable bool _state`: a consultation has answered true
  coro     : Bool          -- execution context of the consumer's code: true = it runs inside a coroutine (its thread is in
                           -- coroutine mode, `coro_queue::is_active()`), false = ordinary code
  -- ghost
  script0  : List Act      -- the whole body
  lastArg  : Nat           -- argument of the most recent access
  stuck    : Bool          -- next_async threw (finished generator) after storing _caller
  ub       : Bool          -- a null `_caller` / `_arg` / `_ret` was dereferenced
  evs      : List Ev
  seen     : List Item     -- what the consumer's accesses delivered, one entry per completed access, in order
  obs      : List Item     -- the part of `seen` handed over by the body (values, then its exception / end)
  post     : List Item     -- the part of `seen` answered without resuming the body (it had finished before)
  gotLog   : List (Nat × Nat)   -- (argument received by the body, argument of the most recent access)
  dtors    : List Nat      -- guards destroyed, in order
  accLog   : List (Nat × Nat)   -- (what the body yielded from its variable, what the variable held when the body was resumed)
  qinst    : Nat           -- activations of the body for which `resume_in_queue` installed (and flushed) a queue of its own
  deriving Repr

def init (mode : Bool) (script : List Act) : State :=
  { mode := mode, script := script, bst := .init, live := [], made := 0, resolved := [], alive := true, acc := 0, atAcc := false,
    caller := .none, ifn := .null, arg := none, ret := none, exp := false, done := false, block := false,
    awaiting := false, cons := .idle, fut := .none, reader := none, it := none, awtKind := .coro, kept := none, kstate := false, coro := false,
    script0 := script, lastArg := 0, stuck := false, ub := false, evs := [], seen := [], obs := [], post := [],
    gotLog := [], dtors := [], accLog := [], qinst := 0 }

/-! ### reading the hand-over record -/

/-- `generator::value()`: rethrows `_exp`, else `*_ret`, else value_not_ready -/
def readVal (s : State) : Item :=
  if s.exp then .exc else match s.ret with
    | some v => .val v
    | none => .notready

/-- what an access that has just been served sees: `done()` first (`next_awt::await_resume`, `unblock_future`), then
`_exp`, then `*_ret` -/
def cur (s : State) : Item := if s.done then .fin else readVal s

def inSync (s : State) : Bool :=
  match s.cons with
  | .inSync _ => true
  | _ => false

/-- an asynchronous access has not been served yet (harness bookkeeping: parked coroutine / pending future) -/
def inflight (s : State) : Bool := s.cons == .parked || s.fut == .pending

/-! ### `yield_suspend::await_suspend`: resume whoever asked for the value -/

def wakeReader (s : State) (i : Item) : State :=
  match s.reader with
  | none => s
  | some .await => { s with reader := none, evs := s.evs ++ [.fawait i] }
  | some .has => { s with reader := none, evs := s.evs ++ [.fhas (i != .fin)] }

/-- `resume_fn_future` → `unblock_future`: `done ? _awaiting(drop) : _exp ? _awaiting(_exp) : _awaiting(*_ret)` -/
def unblockFuture (s : State) : State :=
  if s.awaiting then
    if !s.done && !s.exp && s.ret.isNone then { s with ub := true }
    else wakeReader { s with awaiting := false, fut := .ready (cur s), seen := s.seen ++ [cur s], obs := s.obs ++ [cur s] } (cur s)
  else s

/-- `resume_fn_sync` → `unblock_sync` -/
def unblockSync (s : State) : State := { s with block := true }

/-- the external awaiter is resumed: the consumer coroutine continues in `next_awt::await_resume`, or the consumer's callback is
called (and looks at `done()` / `value()`, like generator_aggregator's GenCallback consumer does) -/
def resumeAwt (s : State) : State :=
  { s with cons := .idle, seen := s.seen ++ [cur s], obs := s.obs ++ [cur s],
           kstate := (match s.awtKind with
             | .kept => !s.done          -- next_awt::await_resume: `_state = !done()`
             | _ => s.kstate),
           evs := s.evs ++ [match s.awtKind with
             | .coro => .anext (cur s)
             | .cb => .sub (cur s)
             | .kept => .kawait (cur s)] }

def deliver (s : State) : State :=
  match s.caller with
  | .none => { s with ub := true }
  | .internal =>
      match s.ifn with
      | .null => { s with caller := .none, arg := none }
      | .sync => unblockSync { s with caller := .none, arg := none }
      | .future => unblockFuture { s with caller := .none, arg := none }
  | .awt => resumeAwt { s with caller := .none, arg := none }

/-! ### the body -/

/-- the body ends: locals are destroyed, `unhandled_exception` / `return_void`, `final_suspend` (`_ret = nullptr`) -/
def finish (s : State) (threw : Bool) : State :=
  deliver { s with script := [], bst := .final, ret := none, exp := s.exp || threw, done := s.done || !threw,
                   dtors := s.dtors ++ s.live, evs := s.evs ++ s.live.map .dtor, live := [] }

/-- `co_yield v`: `yield_value` stores the address, `yield_suspend` hands over -/
def yieldAt (s : State) (v : Nat) : State :=
  deliver { s with bst := .yield, ret := some v, atAcc := false }

/-- `acc.append(c); co_yield acc;` — `yield_value(Ret &)` stores the address of the body's variable. Nothing in the hand-over writes
through `_ret`: the future of a call is resolved with a *copy* (`_awaiting(*_ret)`), `value()` / `*it` hand out a reference. -/
def yieldAccAt (s : State) (c : Nat) : State :=
  deliver { s with bst := .yield, acc := s.acc * 10 + c, ret := some (s.acc * 10 + c), atAcc := true }

/-- resumed from `co_yield acc`, the body looks at its variable -/
def seeAcc (s : State) : State :=
  if s.atAcc then
    { s with atAcc := false, evs := s.evs ++ [.acc s.acc], accLog := s.accLog ++ [(s.ret.getD 0, s.acc)] }
  else s

/-- `await_resume` of `yield_suspend` / `yield_null`: `*_arg` -/
def recvArg (s : State) : State :=
  if s.mode then
    match s.arg with
    | some a => { s with evs := s.evs ++ [.got a], gotLog := s.gotLog ++ [(a, s.lastArg)] }
    | none => { s with ub := true }
  else s

def exec : List Act → State → State
  | [], s => finish s false
  | .yield v :: rest, s => yieldAt { s with script := rest } v
  | .yieldAcc c :: rest, s => yieldAccAt { s with script := rest } c
  | .yieldNull :: rest, s => exec rest (recvArg { s with script := rest })
  | .awaitReady :: rest, s => exec rest { s with script := rest }
  | .pause :: rest, s => exec rest { s with script := rest }
  | .await k :: rest, s =>
      if k ∈ s.resolved then exec rest { s with script := rest }
      else { s with script := rest, bst := .await k }
  | .guard :: rest, s => exec rest { s with script := rest, live := s.live ++ [s.made], made := s.made + 1 }
  | .throw :: _, s => finish s true
  | .ret :: _, s => finish s false

/-- `coroutine_handle::resume()` on the generator -/
def resumeBody (s : State) : State :=
  match s.bst with
  | .init => exec s.script { s with bst := .run }
  | .yield => exec s.script (seeAcc (recvArg { s with bst := .run }))
  | .await _ => exec s.script { s with bst := .run }
  | _ => { s with ub := true }

/-- `promise_type::resume_in_queue(h)` — how `next_sync`, `next_future` and `next_awt::subscribe` (the accesses made by
non-awaiting code) activate the body: `if (coro_queue::is_active()) h.resume(); else coro_queue::install_queue_and_resume(h);`.
Either way the body runs **now**, inside the call, under a coroutine queue: the one of the consumer's coroutine, or one installed for
this activation and flushed before the call returns (counted in `qinst`). -/
def resumeInQueue (s : State) : State :=
  resumeBody (if s.coro then s else { s with qinst := s.qinst + 1 })

/-! ### consumer operations -/

/-- `promise_type::set_arg` (called by `next(a)` / `operator()(a)` before anything else) -/
def setArg (s : State) (a : Nat) : State :=
  if s.mode then { s with arg := some a, lastArg := a } else { s with lastArg := a }

/-- what a finished synchronous access leaves in the adapter that started it -/
def endSync (s : State) (kind : SyncKind) (b : Bool) : State × Res :=
  match kind with
  | .plain => (s, .next b)
  | .itBegin => ({ s with it := some b }, .next b)
  | .itInc => ({ s with it := some b }, .next b)
  | .itPost v => ({ s with it := some b }, .pinc v b)
  | .kept => ({ s with kstate := b }, .next b)          -- await_resume: `_state = !done()`

/-- `next_awt::operator bool` after `set_arg`: `done()` → false; `next_sync`: `h.done()` → throw; else arm `_internal`,
`h.resume()` -/
def syncGo (s : State) (kind : SyncKind) : State × Res :=
  if s.done then endSync { s with seen := s.seen ++ [.fin], post := s.post ++ [.fin] } kind false
  else if s.bst == .final then ({ s with seen := s.seen ++ [.nomore], post := s.post ++ [.nomore] }, .nomore)
  else (resumeInQueue { s with block := false, caller := .internal, ifn := .sync, cons := .inSync kind }, .started)

def stepSyncBegin (s : State) (kind : SyncKind) (a : Nat) : State × Res :=
  if !s.alive then (s, .gone)
  else if inSync s then (s, .blocked)
  else if s.caller != .none then (s, .busy)        -- assert("Generator is busy" && _caller == nullptr)
  else syncGo (setArg s a) kind

/-- `_block.wait(false)` returns, `await_resume` reads `!done()` -/
def stepSyncEnd (s : State) : State × Res :=
  match s.cons with
  | .inSync kind =>
      if s.block then endSync { s with cons := .idle, seen := s.seen ++ [cur s], obs := s.obs ++ [cur s] } kind (!s.done)
      else (s, .blocked)
  | _ => (s, .bad)

def stepValue (s : State) : State × Res :=
  if !s.alive then (s, .gone)
  else if inSync s then (s, .blocked)
  else if inflight s then (s, .busy)
  else (s, .item (readVal s))

/-- `co_await gen.next(a)`: `await_ready` = done(); `await_suspend` → `next_async`: **stores `_caller` first**, then throws if
`h.done()`; otherwise symmetric transfer into the body -/
def anextGo (s : State) : State × Res :=
  if s.done then ({ s with seen := s.seen ++ [.fin], post := s.post ++ [.fin], evs := s.evs ++ [.anext .fin] }, .unit)
  else if s.bst == .final then
    ({ s with caller := .awt, stuck := true, seen := s.seen ++ [.nomore], post := s.post ++ [.nomore], evs := s.evs ++ [.anext .nomore] }, .unit)
  else (resumeBody { s with caller := .awt, cons := .parked, awtKind := .coro }, .unit)

def stepAnext (s : State) (a : Nat) : State × Res :=
  if !s.alive then (s, .gone)
  else if inSync s then (s, .blocked)
  else if s.caller != .none then (s, .busy)
  else anextGo (setArg s a)

/-- `gen.next(a).subscribe(&cb)`: no `await_ready`; `next_async(cb)` **stores `_caller` first**, throws if `h.done()` (whether the body
ended regularly or not), otherwise resumes the body at once. A callback that issues its next access from inside the notification
(re-entrantly) is simply the next operation: `yield_suspend::await_suspend` touches nothing after it has notified the caller. -/
def subGo (s : State) : State × Res :=
  if s.bst == .final then
    ({ s with caller := .awt, stuck := true, seen := s.seen ++ [.nomore], post := s.post ++ [.nomore],
              evs := s.evs ++ [.sub .nomore] }, .unit)
  else (resumeInQueue { s with caller := .awt, cons := .parked, awtKind := .cb }, .unit)

def stepSub (s : State) (a : Nat) : State × Res :=
  if !s.alive then (s, .gone)
  else if inSync s then (s, .blocked)
  else if s.caller != .none then (s, .busy)
  else subGo (setArg s a)

/-! A kept `auto n = gen.next(a)` object (`next_awt`): `next(a)` only stores the argument (`set_arg`); the object is consulted later,
possibly several times. `bool(n)` / `!n` start with `if (_state) return true;` — once a consultation has answered true, further
truth tests do **not** touch the generator; otherwise they are the synchronous access of `operator bool` (without a new `set_arg`).
`co_await n` does not look at `_state`: it always is an access, and its `await_resume` stores `_state = !done()`. -/

def stepKeep (s : State) (a : Nat) : State × Res :=
  if !s.alive then (s, .gone)
  else if inSync s then (s, .blocked)
  else if s.caller != .none then (s, .busy)
  else ({ setArg s a with kept := some a, kstate := false }, .unit)

/-- the argument reference handed to `next(a)` is still the one the body will read: nothing has replaced or consumed it
(`_arg` is cleared at every `co_yield` and overwritten by every other access) -/
def keptArgOk (s : State) (a : Nat) : Bool := !s.mode || s.arg == some a

def stepKtest (s : State) : State × Res :=
  if !s.alive then (s, .gone)
  else if inSync s then (s, .blocked)
  else match s.kept with
    | none => (s, .nokept)
    | some a =>
        if s.kstate then (s, .next true)                  -- `if (_state) return true;`
        else if s.caller != .none then (s, .busy)
        else if !keptArgOk s a then (s, .stale)
        else syncGo s .kept

def kawaitGo (s : State) : State × Res :=
  if s.done then
    ({ s with kstate := false, seen := s.seen ++ [.fin], post := s.post ++ [.fin], evs := s.evs ++ [.kawait .fin] }, .unit)
  else if s.bst == .final then
    ({ s with caller := .awt, stuck := true, seen := s.seen ++ [.nomore], post := s.post ++ [.nomore],
              evs := s.evs ++ [.kawait .nomore] }, .unit)
  else (resumeBody { s with caller := .awt, cons := .parked, awtKind := .kept }, .unit)

def stepKawait (s : State) : State × Res :=
  if !s.alive then (s, .gone)
  else if inSync s then (s, .blocked)
  else match s.kept with
    | none => (s, .nokept)
    | some a =>
        if s.caller != .none then (s, .busy)
        else if !keptArgOk s a then (s, .stale)
        else kawaitGo s

def futRes (s : State) : State × Res :=
  (s, if s.fut == .pending then .pending else .ready)

/-- `gen(a)` → `next_future`: `h.done()` → throw; else `_awaiting = promise`, arm `_internal`, `h.resume()` -/
def callGo (s : State) : State × Res :=
  if s.bst == .final then ({ s with seen := s.seen ++ [.nomore], post := s.post ++ [.nomore] }, .nomore)
  else futRes (resumeInQueue { s with awaiting := true, caller := .internal, ifn := .future, fut := .pending })

def stepCall (s : State) (a : Nat) : State × Res :=
  if !s.alive then (s, .gone)
  else if inSync s then (s, .blocked)
  else if s.caller != .none then (s, .busy)
  else callGo (setArg s a)

/-- `f.wait()`: blocks while pending -/
def stepFutWait (s : State) : State × Res :=
  if inSync s then (s, .blocked)
  else match s.fut with
    | .none => (s, .nofut)
    | .pending => (s, .blocked)
    | .ready i => (s, .item i)

def stepFutGet (s : State) : State × Res :=
  if inSync s then (s, .blocked)
  else match s.fut with
    | .none => (s, .nofut)
    | .pending => (s, .pending)
    | .ready i => (s, .item i)

def readerEv (r : Reader) (i : Item) : Ev :=
  match r with
  | .await => .fawait i
  | .has => .fhas (i != .fin)

/-- a consumer coroutine does `co_await f` / `co_await f.has_value()` -/
def stepFutRead (s : State) (r : Reader) : State × Res :=
  if inSync s then (s, .blocked)
  else match s.fut with
    | .none => (s, .nofut)
    | .pending => if s.reader.isSome then (s, .busy) else ({ s with reader := some r }, .unit)
    | .ready i => ({ s with evs := s.evs ++ [readerEv r i] }, .unit)

/-- `generator::operator bool` (`while (gen) …`): `!done()`, i.e. `!_done` — true before the first access, at every value, and
also after an exception escaped the body (`_done` is only set by `return_void`) -/
def stepActive (s : State) : State × Res :=
  if !s.alive then (s, .gone)
  else if inSync s then (s, .blocked)
  else if inflight s then (s, .busy)
  else (s, .active (!s.done))

/-- an awaited operation finishes (on the consumer thread or on another one) -/
def stepComplete (s : State) (k : Nat) : State × Res :=
  if k ∈ s.resolved then (s, .unit)
  else if s.alive && s.bst == .await k then (resumeBody { s with resolved := k :: s.resolved }, .unit)
  else ({ s with resolved := k :: s.resolved }, .unit)

/-- `~generator`: `deleter` destroys the suspended frame; its locals die with it -/
def stepDestroy (s : State) : State × Res :=
  if !s.alive then (s, .gone)
  else if inSync s then (s, .blocked)
  else if inflight s then (s, .busy)
  else match s.bst with
    | .await _ => (s, .busy)
    | .run => (s, .busy)
    | _ => ({ s with alive := false, it := none, dtors := s.dtors ++ s.live, evs := s.evs ++ s.live.map .dtor, live := [] },
            .destroyed)

/-! iterator adapter (`generator<T>` only): `begin()` = iterator(gen, bool(next())), `++` = `_next = bool(next())`,
`*` = value(), `== end()` = `!_next`, `it++` = read value() into a copy, then advance -/

def stepItInc (s : State) : State × Res :=
  if !s.alive then (s, .gone)
  else if inSync s then (s, .blocked)
  else if s.caller != .none then (s, .busy)
  else if s.mode then (s, .na)
  else if s.it.isNone then (s, .noit)
  else syncGo (setArg s 0) .itInc

def stepItBegin (s : State) : State × Res :=
  if !s.alive then (s, .gone)
  else if inSync s then (s, .blocked)
  else if s.caller != .none then (s, .busy)
  else if s.mode then (s, .na)
  else syncGo (setArg s 0) .itBegin

def stepItPostInc (s : State) : State × Res :=
  if !s.alive then (s, .gone)
  else if inSync s then (s, .blocked)
  else if s.caller != .none then (s, .busy)
  else if s.mode then (s, .na)
  else if s.it.isNone then (s, .noit)
  else match readVal s with
    | .val v => syncGo (setArg s 0) (.itPost (.val v))
    | other => (s, .item other)          -- value() throws before anything is advanced

def stepItDeref (s : State) : State × Res :=
  if !s.alive then (s, .gone)
  else if inSync s then (s, .blocked)
  else if s.it.isNone then (s, .noit)
  else stepValue s

def stepItIsEnd (s : State) : State × Res :=
  if !s.alive then (s, .gone)
  else if inSync s then (s, .blocked)
  else if s.mode then (s, .na)
  else match s.it with
    | none => (s, .noit)
    | some b => (s, .isEnd (!b))

inductive Op
  | syncBegin (a : Nat) | syncEnd | value | active | anext (a : Nat) | sub (a : Nat) | call (a : Nat)
  | keep (a : Nat) | ktest | kawait
  | futWait | futGet | futAwait | futHas
  | itBegin | itInc | itDeref | itIsEnd | itPostInc | itDrop
  | complete (k : Nat) | destroy
  | ctx (coro : Bool)     -- the consumer's following operations are issued from inside a running coroutine (true) / by ordinary code
  deriving DecidableEq, Repr

def step (s : State) : Op → State × Res
  | .syncBegin a => stepSyncBegin s .plain a
  | .syncEnd => stepSyncEnd s
  | .value => stepValue s
  | .active => stepActive s
  | .anext a => stepAnext s a
  | .sub a => stepSub s a
  | .keep a => stepKeep s a
  | .ktest => stepKtest s
  | .kawait => stepKawait s
  | .call a => stepCall s a
  | .futWait => stepFutWait s
  | .futGet => stepFutGet s
  | .futAwait => stepFutRead s .await
  | .futHas => stepFutRead s .has
  | .itBegin => stepItBegin s
  | .itInc => stepItInc s
  | .itDeref => stepItDeref s
  | .itIsEnd => stepItIsEnd s
  | .itPostInc => stepItPostInc s
  | .itDrop => ({ s with it := none }, .unit)
  | .complete k => stepComplete s k
  | .destroy => stepDestroy s
  | .ctx b => ({ s with coro := b }, .unit)

def run (s : State) (ops : List Op) : State := ops.foldl (fun st op => (step st op).1) s

/-! ### the specification side: what a script yields -/

/-- the values yielded before the first `throw` / `co_return` (or the end of the script) by a body whose accumulator variable
holds `acc`: read off the script with the body's own arithmetic, no library step involved -/
def yieldsFrom : Nat → List Act → List Nat
  | _, [] => []
  | acc, .yield v :: r => v :: yieldsFrom acc r
  | acc, .yieldAcc c :: r => (acc * 10 + c) :: yieldsFrom (acc * 10 + c) r
  | _, .throw :: _ => []
  | _, .ret :: _ => []
  | acc, _ :: r => yieldsFrom acc r

/-- … by the whole body (its variable starts empty) -/
def yields (sc : List Act) : List Nat := yieldsFrom 0 sc

/-- how the body ends: with the escaping exception or regularly -/
def ending : List Act → Item
  | [] => .fin
  | .throw :: _ => .exc
  | .ret :: _ => .fin
  | _ :: r => ending r

/-- what the consumer must see, access by access, until the body has ended -/
def expectedFrom (acc : Nat) (sc : List Act) : List Item := (yieldsFrom acc sc).map .val ++ [ending sc]

def expected (sc : List Act) : List Item := expectedFrom 0 sc

/-! ### The unrepaired synchronous access (pinned commit, before `/repo` commit 191263e)

`next_sync()` (and `next_future()`, `next_awt::subscribe()`) resumed the body by a bare `h.resume()`: read by ordinary code the
body ran on a thread without a coroutine queue, and `co_await pause()` — `pause::await_suspend` starts with
`coro_queue::instance->_queue` — dereferenced a null pointer (`ub`). -/

/-- the body as the pinned commit ran it for an access made by ordinary code (no queue installed) -/
def execAsIs : List Act → State → State
  | [], s => finish s false
  | .yield v :: rest, s => yieldAt { s with script := rest } v
  | .yieldAcc c :: rest, s => yieldAccAt { s with script := rest } c
  | .yieldNull :: rest, s => execAsIs rest (recvArg { s with script := rest })
  | .awaitReady :: rest, s => execAsIs rest { s with script := rest }
  | .pause :: rest, s => { s with script := rest, ub := true }
  | .await k :: rest, s =>
      if k ∈ s.resolved then execAsIs rest { s with script := rest }
      else { s with script := rest, bst := .await k }
  | .guard :: rest, s => execAsIs rest { s with script := rest, live := s.live ++ [s.made], made := s.made + 1 }
  | .throw :: _, s => finish s true
  | .ret :: _, s => finish s false

def resumeBodyAsIs (s : State) : State :=
  match s.bst with
  | .init => execAsIs s.script { s with bst := .run }
  | .yield => execAsIs s.script (seeAcc (recvArg { s with bst := .run }))
  | .await _ => execAsIs s.script { s with bst := .run }
  | _ => { s with ub := true }

/-- `bool(gen.next(a))` up to the return of `h.resume()`, as the pinned commit had it (before `/repo` commit 191263e "fix:
synchronous and future access to a generator ran its body without a coroutine queue") -/
def stepSyncBeginAsIs (s : State) (kind : SyncKind) (a : Nat) : State × Res :=
  if !s.alive then (s, .gone)
  else if inSync s then (s, .blocked)
  else if s.caller != .none then (s, .busy)
  else if (setArg s a).done then syncGo (setArg s a) kind
  else if (setArg s a).bst == .final then syncGo (setArg s a) kind
  else (resumeBodyAsIs { setArg s a with block := false, caller := .internal, ifn := .sync, cons := .inSync kind }, .started)

/-! ### The unrepaired `it++` (before `/repo` commit 6a6ab43)

`generator_iterator::operator++(int)` built its stored copy with `storage z{std::move(_gen->value())}`: `value()` is the object
the body passed to `co_yield`; when that is a variable the body keeps using, the post-increment *emptied the body's variable*
(a moved-from accumulator holds nothing: 0 here) before it resumed the body. -/

/-- `it++` as the pinned commit had it (before `/repo` commit 6a6ab43 "fix: generator_iterator::operator++(int) moved the current
value out of the generator body's own variable") -/
def stepItPostIncAsIs (s : State) : State × Res :=
  if !s.alive then (s, .gone)
  else if inSync s then (s, .blocked)
  else if s.caller != .none then (s, .busy)
  else if s.mode then (s, .na)
  else if s.it.isNone then (s, .noit)
  else match readVal s with
    | .val v => syncGo (setArg (if s.atAcc then { s with acc := 0 } else s) 0) (.itPost (.val v))
    | other => (s, .item other)

end Cocls.Gen
