import CoclsModel.Clock

/-
Happens-before machine for C03, part 2: lock discipline ⇒ race freedom.

What is modelled
* ONE mutex, seen as an atomic word in the machine of `Clock.lean`: `lock` is an acquire RMW that is enabled only when the
  mutex is free (a scheduled thread whose next act is `lock` while the mutex is held stutters — this includes a thread that
  re-locks a mutex it holds); `unlock` by the holder is a release store.  Only the newest message of the mutex word matters
  (RMWs read the latest; a locking RMW continues the release sequence of the unlock it read), so the word is represented
  by `holder : Option Nat` and `mvc`, the clock released by the last unlock.  `unlock` by a thread that is not the holder is
  undefined behaviour for `std::mutex`; the machine skips the act (`stepSkip`), and `Disciplined` programs never do it.
* Any number of threads (`progs : Nat → List Act`), each running an arbitrary finite program over
  `lock | unlock | access field write`; any schedule (`List Nat` of thread ids).
* Any number of guarded non-atomic fields (indexed by `Nat`), each with FastTrack metadata exactly as `data` in `Clock.lean`
  (last-write epoch, read epochs since that write); `raced` is set by the first access that is not ordered after the
  previous conflicting access to the same field.
* `Disciplined prog`: lock/unlock are well bracketed starting unlocked (no re-lock, no unlock without lock) and every
  `access` occurs while the thread holds the mutex.  A program may end while holding the mutex (that blocks the others; it is
  not a race).  `Balanced prog` additionally ends unlocked; `disciplined_flatten` / `api_safe`: threads that call balanced
  member functions in any order and number are disciplined, hence race free.

Results: `lock_discipline_safe`, `api_safe`, and the `decide` witness `undisciplined_races` (one unguarded read against a
guarded write races).

NOT modelled: more than one mutex, `try_lock`/timed locks, condition variables (a wait is unlock; lock), accesses from
constructors/destructors (ordered by object lifetime, i.e. by synchronisation outside this machine — the C03 table filters them),
consume, release fences, out-of-thin-air, mixed-size accesses.
-/

namespace Cocls.LockDisc

open Cocls.Clock

inductive Act where
  | lock | unlock | access (field : Nat) (write : Bool)
  deriving DecidableEq, Repr, Inhabited

/-- `discFrom held prog`: `prog`, started with the mutex held iff `held`, keeps the discipline -/
def discFrom : Bool → List Act → Bool
  | _, [] => true
  | false, Act.lock :: r => discFrom true r
  | true, Act.lock :: _ => false
  | true, Act.unlock :: r => discFrom false r
  | false, Act.unlock :: _ => false
  | h, Act.access _ _ :: r => h && discFrom h r

/-- every access happens while the mutex is held; lock/unlock well bracketed, starting unlocked -/
def Disciplined (prog : List Act) : Bool := discFrom false prog

/-- `discFrom` that additionally requires the program to end with the mutex released -/
def balFrom : Bool → List Act → Bool
  | h, [] => !h
  | false, Act.lock :: r => balFrom true r
  | true, Act.lock :: _ => false
  | true, Act.unlock :: r => balFrom false r
  | false, Act.unlock :: _ => false
  | h, Act.access _ _ :: r => h && balFrom h r

/-- disciplined and lock-balanced: the shape of a member function that takes a `lock_guard` -/
def Balanced (prog : List Act) : Bool := balFrom false prog

/-- machine state; `clk` and `rem` (the rest of each thread's program) are indexed by thread id, `wr`/`rd` by field -/
structure St where
  clk : Nat → VC
  rem : Nat → List Act
  holder : Option Nat
  mvc : VC
  wr : Nat → Nat × Nat
  rd : Nat → List (Nat × Nat)
  raced : Bool

def St.init (progs : Nat → List Act) : St :=
  { clk := VC.init, rem := progs, holder := none, mvc := VC.bot, wr := fun _ => (0, 0), rd := fun _ => [], raced := false }

def ordW (s : St) (t f : Nat) : Bool := decide ((s.wr f).2 ≤ s.clk t (s.wr f).1)
def ordR (s : St) (t f : Nat) : Bool := (s.rd f).all (fun e => decide (e.2 ≤ s.clk t e.1))

def stepLock (s : St) (t : Nat) (r : List Act) : St :=
  { s with clk := upd s.clk t (VC.join (s.clk t) s.mvc), holder := some t, rem := upd s.rem t r }
def stepUnlock (s : St) (t : Nat) (r : List Act) : St :=
  { s with mvc := s.clk t, clk := upd s.clk t (VC.tick (s.clk t) t), holder := none, rem := upd s.rem t r }
def stepSkip (s : St) (t : Nat) (r : List Act) : St := { s with rem := upd s.rem t r }
def stepRead (s : St) (t f : Nat) (r : List Act) : St :=
  { s with rd := upd s.rd f ((t, s.clk t t) :: s.rd f), raced := s.raced || !ordW s t f, rem := upd s.rem t r }
def stepWrite (s : St) (t f : Nat) (r : List Act) : St :=
  { s with wr := upd s.wr f (t, s.clk t t), rd := upd s.rd f [], raced := s.raced || !(ordW s t f && ordR s t f),
           rem := upd s.rem t r }

/-- thread `t` performs its next act (or stutters) -/
def step (s : St) (t : Nat) : St :=
  match s.rem t with
  | [] => s
  | Act.lock :: r => if s.holder = none then stepLock s t r else s
  | Act.unlock :: r => if s.holder = some t then stepUnlock s t r else stepSkip s t r
  | Act.access f true :: r => stepWrite s t f r
  | Act.access f false :: r => stepRead s t f r

def run (progs : Nat → List Act) (sched : List Nat) : St := sched.foldl step (St.init progs)

/-- the "token" clock: the holder's clock, or what the last unlock released.  Every access so far is below it. -/
def tok (s : St) : VC := match s.holder with | some h => s.clk h | none => s.mvc

structure Inv (s : St) : Prop where
  nr : s.raced = false
  disc : ∀ t, discFrom (decide (s.holder = some t)) (s.rem t) = true
  wok : ∀ f, (s.wr f).2 ≤ tok s (s.wr f).1
  rok : ∀ f, ∀ e ∈ s.rd f, e.2 ≤ tok s e.1

theorem inv_init (progs : Nat → List Act) (h : ∀ t, Disciplined (progs t) = true) : Inv (St.init progs) := by
  refine ⟨rfl, ?_, ?_, ?_⟩ <;> simp [St.init, tok] <;> exact h

theorem inv_lock {s : St} {t : Nat} {r : List Act} (h : Inv s) (hr : s.rem t = Act.lock :: r) (hh : s.holder = none) :
    Inv (stepLock s t r) := by
  obtain ⟨nr, disc, wok, rok⟩ := h
  have ht := disc t
  refine ⟨?_, ?_, ?_, ?_⟩ <;> simp only [stepLock, tok, hh, hr, Option.some.injEq, reduceCtorEq] at *
  · exact nr
  · intro u; have hu := disc u; grind [upd_apply, discFrom]
  · intro f; have := wok f; grind [upd_apply2, VC.join_apply]
  · intro f e he; have := rok f e he; grind [upd_apply2, VC.join_apply]

theorem inv_unlock {s : St} {t : Nat} {r : List Act} (h : Inv s) (hr : s.rem t = Act.unlock :: r)
    (hh : s.holder = some t) : Inv (stepUnlock s t r) := by
  obtain ⟨nr, disc, wok, rok⟩ := h
  have ht := disc t
  refine ⟨?_, ?_, ?_, ?_⟩ <;> simp only [stepUnlock, tok, hh, hr, Option.some.injEq, reduceCtorEq] at *
  · exact nr
  · intro u; have hu := disc u; grind [upd_apply, discFrom]
  · intro f; exact wok f
  · intro f e he; exact rok f e he

theorem inv_skip {s : St} {t : Nat} {r : List Act} (h : Inv s) (hr : s.rem t = Act.unlock :: r)
    (hh : s.holder ≠ some t) : Inv (stepSkip s t r) := by
  have ht := h.disc t
  rw [hr] at ht
  simp [hh, discFrom] at ht

theorem holds_of_access {s : St} {t f : Nat} {w : Bool} {r : List Act} (h : Inv s)
    (hr : s.rem t = Act.access f w :: r) : s.holder = some t := by
  have ht := h.disc t
  rw [hr] at ht
  simp [discFrom] at ht
  exact ht.1

theorem inv_read {s : St} {t f : Nat} {r : List Act} (h : Inv s) (hr : s.rem t = Act.access f false :: r) :
    Inv (stepRead s t f r) := by
  have hh := holds_of_access h hr
  obtain ⟨nr, disc, wok, rok⟩ := h
  have ht := disc t
  refine ⟨?_, ?_, ?_, ?_⟩ <;> simp only [stepRead, ordW, tok, hh, hr, Option.some.injEq] at *
  · have := wok f; simp [nr, this]
  · intro u; have hu := disc u; grind [upd_apply, discFrom]
  · intro g; exact wok g
  · intro g e he; have := rok g e; grind [upd_apply]

theorem inv_write {s : St} {t f : Nat} {r : List Act} (h : Inv s) (hr : s.rem t = Act.access f true :: r) :
    Inv (stepWrite s t f r) := by
  have hh := holds_of_access h hr
  obtain ⟨nr, disc, wok, rok⟩ := h
  have ht := disc t
  refine ⟨?_, ?_, ?_, ?_⟩ <;> simp only [stepWrite, ordW, ordR, tok, hh, hr, Option.some.injEq] at *
  · have := wok f; have := rok f; simp_all
  · intro u; have hu := disc u; grind [upd_apply, discFrom]
  · intro g; have := wok g; grind [upd_apply]
  · intro g e he; have := rok g e; grind [upd_apply]

theorem inv_step {s : St} (h : Inv s) (t : Nat) : Inv (step s t) := by
  unfold step
  split
  · exact h
  · next r hr => split
                 · next hh => exact inv_lock h hr hh
                 · exact h
  · next r hr => split
                 · next hh => exact inv_unlock h hr hh
                 · next hh => exact inv_skip h hr hh
  · next f r hr => exact inv_write h hr
  · next f r hr => exact inv_read h hr

theorem inv_run (progs : Nat → List Act) (h : ∀ t, Disciplined (progs t) = true) (sched : List Nat) :
    Inv (run progs sched) := by
  unfold run
  suffices ∀ s, Inv s → Inv (sched.foldl step s) from this _ (inv_init progs h)
  induction sched with
  | nil => intro s h; exact h
  | cons e es ih => intro s h; exact ih _ (inv_step h e)

/-- Lock discipline implies race freedom: any number of threads, any programs, any schedule. -/
theorem lock_discipline_safe (progs : Nat → List Act) (h : ∀ t, Disciplined (progs t) = true) :
    ∀ sched : List Nat, (run progs sched).raced = false :=
  fun sched => (inv_run progs h sched).nr

theorem discFrom_append (h : Bool) (p q : List Act) (hp : balFrom h p = true) (hq : discFrom false q = true) :
    discFrom h (p ++ q) = true := by
  induction p generalizing h with
  | nil => cases h <;> simp_all [balFrom]
  | cons a r ih =>
    cases a <;> cases h <;> simp_all [balFrom, discFrom]

theorem disciplined_flatten (calls : List (List Act)) (h : ∀ c ∈ calls, Balanced c = true) :
    Disciplined calls.flatten = true := by
  induction calls with
  | nil => rfl
  | cons c cs ih =>
    rw [List.flatten_cons]
    exact discFrom_append false c _ (h c (by simp)) (ih (fun c' hc' => h c' (by simp [hc'])))

/-- Threads that only call member functions from a set `fns` of balanced, disciplined functions — any number of threads,
any number of calls, any order, any interleaving — never race on a guarded field. -/
theorem api_safe (fns : List (List Act)) (hf : ∀ f ∈ fns, Balanced f = true)
    (calls : Nat → List (List Act)) (hc : ∀ t, ∀ c ∈ calls t, c ∈ fns) :
    ∀ sched : List Nat, (run (fun t => (calls t).flatten) sched).raced = false :=
  lock_discipline_safe _ (fun t => disciplined_flatten _ (fun c hcm => hf c (hc t c hcm)))

/-- thread 0 writes field 0 under the lock, thread 1 reads it without -/
def racyProgs : Nat → List Act := fun t =>
  if t = 0 then [Act.lock, Act.access 0 true, Act.unlock] else if t = 1 then [Act.access 0 false] else []

/-- an undisciplined program has a racy run: guarded write then unguarded read (`[0, 0, 1]`), and also unguarded read then
guarded write (`[1, 0, 0]`) -/
theorem undisciplined_races :
    Disciplined (racyProgs 1) = false ∧ (run racyProgs [0, 0, 1]).raced = true ∧ (run racyProgs [1, 0, 0]).raced = true := by
  decide

/-- sanity: with the read guarded the same schedules do perform both accesses (the theorem is not vacuous), the reader that
locks second has the writer's epoch in its clock, and a thread scheduled on a held mutex stutters -/
def goodProgs : Nat → List Act := fun t =>
  if t = 0 then [Act.lock, Act.access 0 true, Act.unlock]
  else if t = 1 then [Act.lock, Act.access 0 false, Act.unlock] else []

example : Disciplined (goodProgs 0) = true ∧ Balanced (goodProgs 1) = true
    ∧ (run goodProgs [0, 1, 0, 1, 0, 1, 1, 1]).wr 0 = (0, 1)
    ∧ (run goodProgs [0, 1, 0, 1, 0, 1, 1, 1]).rd 0 = [(1, 1)]
    ∧ (run goodProgs [0, 1, 0, 1, 0, 1, 1, 1]).clk 1 0 = 1
    ∧ (run goodProgs [0, 1, 1, 1]).rem 1 = goodProgs 1 := by decide

end Cocls.LockDisc
